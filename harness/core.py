"""Shared machinery of the checks: Coq build, extracted-model runner, evidence, violation protocol."""
import fcntl
import hashlib
import json
import os
import re
import subprocess
import sys
import time
from fractions import Fraction

VERIF = os.path.dirname(os.path.dirname(os.path.abspath(__file__)))
COQ = os.path.join(VERIF, "coq")
BUILD = os.path.join(VERIF, "build")
REPO = os.environ.get("VERIF_REPO", "/repo")
EVID = os.path.join(VERIF, "evidence")
REPLAYS = os.path.join(VERIF, "replays")
KNOWN = os.path.join(VERIF, "known_findings.json")

ALLOWED_AXIOMS = {
    # standard-library axioms behind Coq's real numbers (only used by theorems instantiated at R)
    "ClassicalDedekindReals.sig_not_dec",
    "ClassicalDedekindReals.sig_forall_dec",
    "FunctionalExtensionality.functional_extensionality_dep",
    "Classical_Prop.classic",
}

TRUSTED_BASE = [
    "Coq 8.16.1 kernel (coqc, full .vo build; vm_compute only in Examples/finite sweeps; no native_compute)",
    "axioms: none for theorems over the abstract FieldT (Print Assumptions is parsed on every run: every property theorem is closed under the "
    "global context); Examples instantiated at Coq's classical reals (Props/C19.v, Base/RealInst.v) load the stdlib axioms "
    "ClassicalDedekindReals.sig_not_dec, ClassicalDedekindReals.sig_forall_dec, FunctionalExtensionality.functional_extensionality_dep and "
    "Classical_Prop.classic, which coqchk -o (thorough tier) therefore lists for that library context",
    "extraction: ExtrOcamlBasic only (bool, option, unit, list, prod, sumbool, sumor, andb, orb); "
    "Z/positive/Q/Qc stay extracted datatypes; OCaml driver (Zarith I/O only)",
    "translators harness/translate/*.py (Python ast -> Gallina, fail-closed, Gen/*.v regenerated on every run): their reading of the Python / NumPy "
    "constructs listed in each translator's header (broadcasting kinds, einsum, meshgrid, fftfreq, list replication, slices) is trusted",
    "correspondence harness (generators, tolerances) and NumPy/JAX numerics",
    "modelled not verified: jnp.fft.rfftn/irfftn/fftfreq, meshgrid, jnp.exp/sqrt, lax.scan, vmap/jit/AD, PRNG, IEEE rounding",
]


def log(*a):
    print(*a, flush=True)


def sh(cmd, timeout, cwd=None, env=None):
    t0 = time.time()
    try:
        p = subprocess.run(cmd, shell=isinstance(cmd, str), cwd=cwd, env=env, timeout=timeout,
                           stdout=subprocess.PIPE, stderr=subprocess.STDOUT, text=True)
        return p.returncode, p.stdout, time.time() - t0
    except subprocess.TimeoutExpired as e:
        out = e.stdout if isinstance(e.stdout, str) else (e.stdout or b"").decode(errors="replace")
        return 124, out + "\n[timeout]", time.time() - t0


class Lock:
    def __init__(self, name="coq"):
        os.makedirs(BUILD, exist_ok=True)
        self.path = os.path.join(BUILD, f".{name}.lock")

    def __enter__(self):
        self.f = open(self.path, "w")
        fcntl.flock(self.f, fcntl.LOCK_EX)
        return self

    def __exit__(self, *a):
        fcntl.flock(self.f, fcntl.LOCK_UN)
        self.f.close()


# ----------------------------------------------------------------------------------------------
# Coq
def refresh_coqproject():
    """_CoqProject lists every .v under theories/ (Gen included); Makefile regenerated when the list changes."""
    files = []
    for root, _, fs in os.walk(os.path.join(COQ, "theories")):
        for f in fs:
            if f.endswith(".v") and not f.startswith("."):
                files.append(os.path.relpath(os.path.join(root, f), COQ))
    files.sort()
    text = "-Q theories EXV\n-arg -w -arg -notation-overridden,-redundant-canonical-projection,-deprecated\n" + "\n".join(files) + "\n"
    p = os.path.join(COQ, "_CoqProject")
    old = open(p).read() if os.path.exists(p) else ""
    if old != text or not os.path.exists(os.path.join(COQ, "Makefile")):
        open(p, "w").write(text)
        rc, out, _ = sh("coq_makefile -f _CoqProject -o Makefile", 120, cwd=COQ)
        if rc != 0:
            raise RuntimeError("coq_makefile failed: " + out)


def coq_make(targets, timeout=1500, jobs=8):
    """make the given .vo targets (paths relative to theories/).  Returns (ok, output)."""
    refresh_coqproject()
    t = " ".join("theories/" + x for x in targets)
    rc, out, dt = sh(f"make -j{jobs} {t}", timeout, cwd=COQ)
    return rc == 0, out


def props_check(prop_file, timeout=900):
    """Compile Props/<file>.v afresh and parse its Print Assumptions output.
    Returns dict(obligations, discharged, theorems, axioms, ok, log)."""
    src = os.path.join(COQ, "theories", "Props", prop_file + ".v")
    text = open(src).read()
    theorems = re.findall(r"^\s*Theorem\s+([A-Za-z0-9_']+)", text, re.M)
    vo = os.path.join(COQ, "theories", "Props", prop_file + ".vo")
    if os.path.exists(vo):
        os.remove(vo)
    ok, out = coq_make([f"Props/{prop_file}.vo"], timeout=timeout)
    # Print Assumptions output: "Closed under the global context" or "Axioms:\n name : type ..."
    closed = len(re.findall(r"Closed under the global context", out))
    axioms = set()
    for m in re.finditer(r"^([A-Za-z0-9_.']+)\s*:", out, re.M):
        name = m.group(1)
        if "." in name and not name.startswith("File"):
            axioms.add(name)
    ax_blocks = len(re.findall(r"^Axioms:", out, re.M))
    discharged = closed + ax_blocks if ok else min(closed + ax_blocks, max(len(theorems) - 1, 0))
    bad = sorted(a for a in axioms if a not in ALLOWED_AXIOMS)
    return dict(obligations=len(theorems), discharged=discharged if ok else discharged, theorems=theorems,
                axioms=sorted(axioms), bad_axioms=bad, ok=ok and not bad and discharged >= len(theorems),
                log=out[-4000:])


def coqchk(prop_file, timeout=1500):
    """independent re-check of the compiled Props file and everything it depends on with coqchk; returns dict(ok, axioms, log)"""
    rc, out, _ = sh(["coqchk", "-silent", "-o", "-Q", "theories", "EXV", f"EXV.Props.{prop_file}"], timeout, cwd=COQ)
    text = out or ""
    m = re.search(r"\* Axioms:(.*?)\n\s*\n\* Constants/Inductives relying on type-in-type:(.*?)\n\s*\n\* Constants/Inductives relying on unsafe \(co\)fixpoints:(.*?)\n\s*\n"
                  r"\* Inductives whose positivity is assumed:(.*?)\n", text, re.S)
    if rc != 0 or not m:
        return dict(ok=False, axioms=[], log=text[-2000:])
    parts = [x.strip() for x in m.groups()]
    axioms = [] if parts[0] == "<none>" else [a.strip() for a in parts[0].split("\n") if a.strip()]
    unsafe = [x for x in parts[1:] if x != "<none>"]
    # coqchk lists the axioms of EVERY loaded library (e.g. the classical reals imported for one Example), fully qualified
    bad = [a for a in axioms if not any(a.split(":")[0].strip().endswith(x) for x in ALLOWED_AXIOMS)]
    return dict(ok=(not bad and not unsafe), axioms=axioms, log=text[-1500:])


def build_model(timeout=900):
    """Extract the model (Exec/Extract.vo) and compile the OCaml driver.  Returns (ok, log)."""
    ok, out = coq_make(["Exec/Extract.vo"], timeout=timeout)
    if not ok:
        return False, out[-4000:]
    os.makedirs(BUILD, exist_ok=True)
    srcs = [os.path.join(COQ, "model.ml"), os.path.join(COQ, "model.mli"), os.path.join(COQ, "ocaml", "driver.ml")]
    exe = os.path.join(BUILD, "verif_model")
    if (not os.path.exists(exe)) or any(os.path.getmtime(s) > os.path.getmtime(exe) for s in srcs):
        for s in srcs:
            sh(["cp", s, BUILD], 30)
        rc, o2, _ = sh("ocamlfind ocamlopt -O3 -package zarith -linkpkg -w -a model.mli model.ml driver.ml -o verif_model 2>&1 || "
                       "ocamlfind ocamlopt -package zarith -linkpkg -w -a model.mli model.ml driver.ml -o verif_model", 600, cwd=BUILD)
        if rc != 0:
            return False, o2[-4000:]
    return True, ""


def qstr(x):
    if isinstance(x, bool):
        return "1" if x else "0"
    if isinstance(x, int):
        return str(x)
    if isinstance(x, Fraction):
        return str(x.numerator) if x.denominator == 1 else f"{x.numerator}/{x.denominator}"
    if isinstance(x, float):
        f = Fraction(x)
        return str(f.numerator) if f.denominator == 1 else f"{f.numerator}/{f.denominator}"
    try:
        import numpy as np
        if isinstance(x, (np.integer,)):
            return str(int(x))
        if isinstance(x, (np.floating,)):
            return qstr(float(x))
    except ImportError:
        pass
    raise TypeError(f"cannot encode {x!r}")


def cx_args(zs):
    out = []
    for z in zs:
        z = complex(z)
        out += [z.real, z.imag]
    return out


def run_model(cases, timeout=1200):
    """cases: list of (id, [numbers]).  Returns list of lists of Fractions (exact model results)."""
    exe = os.path.join(BUILD, "verif_model")
    inp = "\n".join(str(i) + " " + " ".join(qstr(a) for a in args) for i, args in cases) + "\n"
    p = subprocess.run([exe], input=inp, stdout=subprocess.PIPE, stderr=subprocess.PIPE, text=True, timeout=timeout)
    if p.returncode != 0:
        raise RuntimeError("model driver failed: " + p.stderr[-2000:])
    lines = p.stdout.split("\n")
    res = []
    for k in range(len(cases)):
        toks = lines[k].split()
        res.append([Fraction(t) for t in toks])
    return res


def to_cx(fr):
    """list of Fractions (re, im pairs) -> list of python complex"""
    return [complex(float(fr[2 * i]), float(fr[2 * i + 1])) for i in range(len(fr) // 2)]


# ----------------------------------------------------------------------------------------------
class Ctx:
    """Per-run context: counters, samples, disagreements, failing inputs."""

    def __init__(self, pid, tier, seed):
        import numpy as np
        self.pid, self.tier, self.seed = pid, tier, seed
        self.rng = np.random.default_rng(seed)
        self.quick = tier == "quick"
        self.evaluations = 0
        self.hashes = set()
        self.samples = []
        self.disagreements = []   # model vs implementation
        self.failures = []        # property fails on the implementation (witness)
        self.tie_broken = []      # translator / proof / build failures
        self.dist = {}
        self.notes = []

    def count(self, key, n=1):
        self.dist[key] = self.dist.get(key, 0) + n

    def case(self, desc, nontrivial=True):
        """register one explored case; desc must be JSON-able and identify the input"""
        self.evaluations += 1
        if nontrivial:
            h = hashlib.sha1(json.dumps(desc, sort_keys=True, default=str).encode()).hexdigest()
            self.hashes.add(h)
        if len(self.samples) < 6 and (self.evaluations in (1, 2) or self.evaluations % 97 == 0):
            self.samples.append(desc)

    def disagree(self, suite, desc, model, impl):
        self.disagreements.append(dict(suite=suite, case=desc, model=str(model)[:400], impl=str(impl)[:400]))

    def fail(self, test, params, detail):
        """the property itself fails on the real code for this input"""
        self.failures.append(dict(test=test, params=params, detail=str(detail)[:600]))

    def broken(self, what, detail):
        self.tie_broken.append(dict(what=what, detail=str(detail)[-1500:]))


def close(a, b, tol):
    import numpy as np
    a = np.asarray(a); b = np.asarray(b)
    if a.shape != b.shape:
        return False
    if not (np.all(np.isfinite(a)) and np.all(np.isfinite(b))):
        return False
    scale = 1.0 + max(float(np.max(np.abs(b))) if b.size else 0.0, float(np.max(np.abs(a))) if a.size else 0.0)
    return float(np.max(np.abs(a - b))) <= tol * scale if a.size else True


def load_known():
    if not os.path.exists(KNOWN):
        return []
    return json.load(open(KNOWN)).get("findings", [])


def matches_known(pid, failure, known):
    for k in known:
        if k.get("property") != pid or k.get("status") != "known":
            continue
        sig = k.get("signature", {})
        if sig.get("test") and sig["test"] != failure["test"]:
            continue
        pat = sig.get("params", {})
        if all(failure["params"].get(a) == b for a, b in pat.items()):
            return k
    return None


def write_replay(pid, payload):
    os.makedirs(REPLAYS, exist_ok=True)
    h = hashlib.sha1(json.dumps(payload, sort_keys=True, default=str).encode()).hexdigest()[:12]
    path = os.path.join(REPLAYS, f"{pid}-{h}.json")
    json.dump(payload, open(path, "w"), indent=1, default=str)
    return path


def write_evidence(pid, tier, seed, level, coverage, wall, violations, assumptions):
    os.makedirs(EVID, exist_ok=True)
    ev = dict(property_id=pid, tier=tier, seed=seed, level=level, coverage=coverage, assumptions=assumptions,
              wall_s=round(wall, 2), violations=violations)
    json.dump(ev, open(os.path.join(EVID, pid + ".json"), "w"), indent=1, default=str)
