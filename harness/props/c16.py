"""C16 — error metrics are consistent quadratures of the documented norms."""
import itertools
import math

import numpy as np

from .. import core
from ..translate import guards as tr_guards
from ..translate import metrics as tr_metrics

ID = "C16"
PROPS_FILE = "C16"
RULE = ("correspondence (exact rationals): the extracted Gallina model Metrics/Metrics.v vs the real functions on dyadic states - MSE/nMSE/sMSE and "
        "spatial_norm's rejection paths on the states, fourier_MSE/fourier_nMSE (bands low/high, derivative orders 0..2) and H1_MSE/H1_nMSE on the exact "
        "float rfftn coefficients of the same states (every coefficient of the inputs is exactly 0 or >= 1e-3 in modulus: the 1e-5 floor is outside the model), "
        "correlation^2, mean_metric, the reconstruction scaling array and the band mask at every stored index; rel. tol. 1e-10. "
        "witness: every function in exponax.metrics.__all__ (generic ones in several (p, q, mode) variants) against an independent full-spectrum NumPy "
        "quadrature, against closed-form integrals of trigonometric polynomials at two resolutions, and the algebraic laws (Parseval twin, L scaling, channel/band "
        "additivity, zero/positive/symmetric/homogeneous, Sobolev split, correlation bounds, option validation). Non-trivial: non-constant states with energy in "
        "every stored mode (white noise) or in the top mode (N-1)/2 of the last axis and in a mode with dominant negative leading-axis wavenumber (polynomials); "
        "distinct by input hash.")
TRUSTED_EXTRA = ["harness/translate/metrics.py (spatial_norm / fourier_norm executed per mode; vmap of the aggregator read as the per-channel aggregate; wrappers as exponent tables; H1 / mean_metric / correlation compared as text) and harness/translate/guards.py"]
ASSUMPTIONS = [
    "fourier_aggregator's absolute 1e-5 floor on rfftn coefficients is not modelled: statements hold for spectra whose coefficients are 0 or above the floor",
    "rfftn is the DFT with w = exp(-2 pi i / N) restricted to the half spectrum, and is linear (C04)",
    "inner exponent 2 is modelled (x*x, re^2+im^2); the outer exponent is an abstract function [root] (identity in the exact correspondence); p = 1 metrics are witness-only",
    "Sobolev split with the physical-space ex.derivative needs odd N or a Nyquist-free pair (irfftn drops the imaginary Nyquist coefficient of an odd derivative)",
]

TWO_PI = 2 * math.pi


def translate(ctx):
    """Gen/Guards.v (rejection guards) and Gen/MetricsGen.v (mode logic, aggregator, exponent tables of exponax/metrics; theorem
    C16_code_norms_are_model_norms); both are always attempted"""
    errors = []
    for name, tr in (("guards", tr_guards), ("metrics", tr_metrics)):
        try:
            tr.run()
        except Exception as e:
            errors.append(f"{name}: {type(e).__name__}: {e}")
    if errors:
        raise RuntimeError("; ".join(errors))


def _ex():
    import jax
    jax.config.update("jax_enable_x64", True)
    import jax.numpy as jnp
    import exponax as ex
    return ex, jnp


# ------------------------------------------------------------------------------------------------
# catalogue of exponax.metrics: name -> (space, p, q, mode)
SPATIAL = {
    "MAE": (1, 1.0, "absolute"), "nMAE": (1, 1.0, "normalized"), "sMAE": (1, 1.0, "symmetric"),
    "MSE": (2, 1.0, "absolute"), "nMSE": (2, 1.0, "normalized"), "sMSE": (2, 1.0, "symmetric"),
    "RMSE": (2, 0.5, "absolute"), "nRMSE": (2, 0.5, "normalized"), "sRMSE": (2, 0.5, "symmetric"),
}
FOURIER = {
    "fourier_MAE": (1, 1.0, "absolute"), "fourier_nMAE": (1, 1.0, "normalized"),
    "fourier_MSE": (2, 1.0, "absolute"), "fourier_nMSE": (2, 1.0, "normalized"),
    "fourier_RMSE": (2, 0.5, "absolute"), "fourier_nRMSE": (2, 0.5, "normalized"),
}
H1 = {"H1_MAE": "fourier_MAE", "H1_nMAE": "fourier_nMAE", "H1_MSE": "fourier_MSE", "H1_nMSE": "fourier_nMSE",
      "H1_RMSE": "fourier_RMSE", "H1_nRMSE": "fourier_nRMSE"}
TWIN = {"MSE": "fourier_MSE", "nMSE": "fourier_nMSE", "RMSE": "fourier_RMSE", "nRMSE": "fourier_nRMSE"}
GENERIC_VARIANTS = {
    "spatial_aggregator": [dict(p=2, q=None), dict(p=2, q=1.0), dict(p=1, q=None)],
    "spatial_norm": [dict(p=2, q=None, mode="absolute"), dict(p=2, q=1.0, mode="normalized"), dict(p=2, q=None, mode="symmetric"),
                     dict(p=1, q=None, mode="symmetric")],
    "fourier_aggregator": [dict(p=2, q=None), dict(p=2, q=1.0), dict(p=1, q=None)],
    "fourier_norm": [dict(p=2, q=None, mode="absolute"), dict(p=2, q=1.0, mode="normalized"), dict(p=1, q=None, mode="normalized")],
}
SPECIAL = ("correlation", "mean_metric")


def all_variants():
    """(fn, var) for every exported metric function that takes a pair of states"""
    ex, _ = _ex()
    out, unknown = [], []
    for name in ex.metrics.__all__:
        if name in SPATIAL or name in FOURIER or name in H1:
            out.append((name, {}))
        elif name in GENERIC_VARIANTS:
            out += [(name, v) for v in GENERIC_VARIANTS[name]]
        elif name not in SPECIAL:
            unknown.append(name)
    return out, unknown


def info(fn, var):
    """-> dict(space, p, q, mode)"""
    if fn in SPATIAL:
        p, q, mode = SPATIAL[fn]
        return dict(space="spatial", p=p, q=q, mode=mode)
    if fn in FOURIER:
        p, q, mode = FOURIER[fn]
        return dict(space="fourier", p=p, q=q, mode=mode)
    if fn in H1:
        p, q, mode = FOURIER[H1[fn]]
        return dict(space="h1", p=p, q=q, mode=mode)
    p = var["p"]
    q = var["q"] if var.get("q") is not None else 1.0 / p
    return dict(space="spatial" if fn.startswith("spatial") else "fourier", p=p, q=q, mode=var.get("mode", "absolute"))


def call(fn, var, u, r, L, low=None, high=None, dord=None):
    """the real function; u, r arrays (C, N, ..., N); r may be None for absolute-mode functions"""
    ex, jnp = _ex()
    M = ex.metrics
    uj = jnp.asarray(u)
    rj = None if r is None else jnp.asarray(r)
    f = getattr(M, fn)
    band = {} if (low is None and high is None) else dict(low=low, high=high)
    if fn in SPATIAL:
        return float(f(uj, rj, domain_extent=L)) if rj is not None else float(f(uj, domain_extent=L))
    if fn in FOURIER:
        kw = dict(domain_extent=L, **band)
        if dord is not None:
            kw["derivative_order"] = dord
        return float(f(uj, rj, **kw)) if rj is not None else float(f(uj, **kw))
    if fn in H1:
        kw = dict(domain_extent=L, **band)
        return float(f(uj, rj, **kw)) if rj is not None else float(f(uj, **kw))
    kw = dict(domain_extent=L, inner_exponent=float(var["p"]))
    if var.get("q") is not None:
        kw["outer_exponent"] = var["q"]
    if fn.startswith("fourier"):
        kw.update(band)
        if dord is not None:
            kw["derivative_order"] = dord
    if fn.endswith("aggregator"):
        import jax
        d = uj if rj is None else uj - rj
        # absolute-mode norm assembled by hand: per-channel aggregation (vmap keeps the array shapes of the norm functions), then the sum
        return float(jnp.sum(jax.vmap(lambda c: f(c, **kw))(d)))
    return float(f(uj, rj, mode=var["mode"], **kw))


# ------------------------------------------------------------------------------------------------
# independent NumPy quadrature (full complex spectrum, no exponax code)
def kgrid(D, N):
    k1 = np.round(np.fft.fftfreq(N, 1.0 / N))
    return np.stack(np.meshgrid(*([k1] * D), indexing="ij"))


def ref_agg(x, L, i, low, high, dord, deriv):
    """aggregate of one channel x; deriv: None (plain / as requested by dord) or 1 (the H1 derivative part)"""
    N, D = x.shape[-1], x.ndim
    p, q = i["p"], i["q"]
    vol = (L / N) ** D
    if i["space"] == "spatial":
        return (vol * np.sum(np.abs(x) ** p)) ** q
    xh = np.fft.fftn(x)
    xh = np.where(np.abs(xh) < 1e-5, 0.0, xh)
    k = kgrid(D, N)
    if low is not None or high is not None:
        lo = 0 if low is None else low
        hi = N // 2 + 1 if high is None else high
        kinf = np.max(np.abs(k), axis=0)
        xh = xh * ((kinf >= lo) & (kinf <= hi))
    m = deriv if deriv is not None else dord
    chans = [xh] if m is None else [xh * (1j * TWO_PI / L * k[d]) ** m for d in range(D)]
    return sum((vol * np.sum(np.abs(c) ** p) / N ** D) ** q for c in chans)


def ref_metric(i, u, r, L, low=None, high=None, dord=None):
    def norm(deriv):
        d = u if r is None else u - r
        tot = 0.0
        for c in range(u.shape[0]):
            a = ref_agg(d[c], L, i, low, high, dord, deriv)
            if i["mode"] == "normalized":
                a = a / ref_agg(r[c], L, i, low, high, dord, deriv)
            elif i["mode"] == "symmetric":
                a = 2 * a / (ref_agg(u[c], L, i, low, high, dord, deriv) + ref_agg(r[c], L, i, low, high, dord, deriv))
            tot += a
        return tot
    if i["space"] == "h1":
        return norm(None) + norm(1)
    return norm(None)


# ------------------------------------------------------------------------------------------------
# states
def noise(seed, C, D, N, salt=0):
    rng = np.random.default_rng([seed, salt, C, D, N])
    return rng.uniform(-1.0, 1.0, size=(C,) + (N,) * D) + 0.3 * rng.standard_normal((C,) + (N,) * D)


def canon(k):
    for c in reversed(k):
        if c != 0:
            return tuple(k) if c > 0 else tuple(-x for x in k)
    return tuple(k)


class Poly:
    """real trigonometric polynomial a0 + sum_m Re(c_m exp(i kappa_m . x)), modes canonical (distinct up to sign), per channel"""

    def __init__(self, chans):
        self.chans = chans            # list of dict mode -> complex coefficient; mode (0,..,0) has a real coefficient a0

    @staticmethod
    def random(rng, C, D, kmax, nmodes=4, amp=(0.2, 1.0), mean=None, forced=True):
        chans = []
        for _ in range(C):
            ch = {}
            modes = set()
            if forced and kmax >= 1:
                modes.add(canon((0,) * (D - 1) + (kmax,)))                   # top mode of the right-most axis
                if D >= 2:
                    modes.add(canon((-kmax,) + (0,) * (D - 2) + (1,)))       # dominant negative leading-axis wavenumber
            tries = 0
            while len(modes) < nmodes and tries < 100:
                tries += 1
                k = tuple(int(x) for x in rng.integers(-kmax, kmax + 1, size=D))
                if any(k):
                    modes.add(canon(k))
            for m in sorted(modes):
                a = rng.uniform(*amp)
                ph = rng.uniform(0, 2 * np.pi)
                ch[m] = complex(a * np.cos(ph), a * np.sin(ph))
            ch[(0,) * D] = complex(rng.uniform(0.2, 1.0) * rng.choice([-1, 1]) if mean is None else mean, 0.0)
            chans.append(ch)
        return Poly(chans)

    def __add__(self, o):
        out = []
        for a, b in zip(self.chans, o.chans):
            c = dict(a)
            for m, v in b.items():
                c[m] = c.get(m, 0.0) + v
            out.append(c)
        return Poly(out)

    def sample(self, D, N, L):
        x = np.stack(np.meshgrid(*([np.arange(N) * (L / N)] * D), indexing="ij"))
        out = []
        for ch in self.chans:
            u = np.zeros((N,) * D)
            for m, c in ch.items():
                ph = sum(TWO_PI / L * m[d] * x[d] for d in range(D))
                u = u + np.real(c * np.exp(1j * ph))
            out.append(u)
        return np.stack(out)

    def agg(self, c, L, D, N, i, low, high, dord, deriv, posdef_mean=None):
        """closed-form aggregate of channel c.  p = 2: exact integral; p = 1 spatial: only for sign-definite fields (|mean| = integral / L^D);
        p = 1 Fourier: the documented sum (L/N)^D sum_k |coefficient|"""
        ch = self.chans[c]
        p, q = i["p"], i["q"]
        if i["space"] == "spatial":
            if p == 2:
                return (L ** D * sum((abs(v) ** 2 / 2 if any(m) else v.real ** 2) for m, v in ch.items())) ** q
            return (L ** D * abs(ch[(0,) * D].real)) ** q
        lo = None if (low is None and high is None) else (0 if low is None else low)
        hi = None if lo is None else (N // 2 + 1 if high is None else high)
        m_ord = deriv if deriv is not None else dord
        tot = 0.0
        for ax in ([None] if m_ord is None else range(D)):
            s = 0.0
            for m, v in ch.items():
                kinf = max(abs(x) for x in m)
                if lo is not None and not (lo <= kinf <= hi):
                    continue
                w = (abs(v) ** 2 / 2 if any(m) else v.real ** 2) if p == 2 else abs(v)
                if ax is not None:
                    w = w * abs(TWO_PI / L * m[ax]) ** (p * m_ord)
                s += w
            tot += ((L ** D if p == 2 else (L / N) ** D) * s) ** q
        return tot


def poly_metric(i, pu, pr, pd, L, D, N, low=None, high=None, dord=None):
    """closed form of the metric for state pu = pr + pd, reference pr (None: norm of pd)"""
    def norm(deriv):
        tot = 0.0
        for c in range(len(pd.chans)):
            a = pd.agg(c, L, D, N, i, low, high, dord, deriv)
            if i["mode"] == "normalized":
                a = a / pr.agg(c, L, D, N, i, low, high, dord, deriv)
            elif i["mode"] == "symmetric":
                a = 2 * a / (pu.agg(c, L, D, N, i, low, high, dord, deriv) + pr.agg(c, L, D, N, i, low, high, dord, deriv))
            tot += a
        return tot
    if i["space"] == "h1":
        return norm(None) + norm(1)
    return norm(None)


def make_polys(seed, C, D, kmax, p):
    """(state, reference, difference) polynomials.  p = 1: sign-definite fields (mean dominates) so that the L1 integrals are exact"""
    rng = np.random.default_rng([seed, C, D, kmax, 77])
    if p == 1:
        pr = Poly.random(rng, C, D, kmax, nmodes=4, amp=(0.15, 0.3), mean=2.0)
        pd = Poly.random(rng, C, D, kmax, nmodes=4, amp=(0.15, 0.3), mean=1.5)
    else:
        pr = Poly.random(rng, C, D, kmax)
        pd = Poly.random(rng, C, D, kmax)
    return pr + pd, pr, pd


def rel(a, b):
    return abs(a - b) / (1e-300 + max(abs(a), abs(b), 1e-3))


TOL = 1e-10


def bands_for(N):
    """disjoint bands [0,a],[a+1,b],...,[.., >= N/2] covering every stored mode"""
    top = N // 2
    a = max(top // 3, 0)
    b = max(2 * top // 3, a + 1)
    out = [(0, a), (a + 1, b)]
    if b < top:
        out.append((b + 1, top))
    return out


# ------------------------------------------------------------------------------------------------
# witness tests.  Every test is replayable from its JSON parameters.
def t_reference(fn, var, D, N, C, L, seed, with_ref=True, low=None, high=None, dord=None):
    """value == independent full-spectrum NumPy quadrature of the documented formula (white-noise pair: every stored mode is energetic)"""
    i = info(fn, var)
    u = noise(seed, C, D, N, 1)
    r = noise(seed, C, D, N, 2) if (with_ref or i["mode"] != "absolute") else None
    got = call(fn, var, u, r, L, low, high, dord)
    exp = ref_metric(i, u, r, L, low, high, dord)
    e = rel(got, exp)
    return e < TOL, f"{fn}{var} D={D} N={N} C={C} L={L} band=({low},{high}) dord={dord}: got {got!r}, documented quadrature {exp!r}, rel. dev. {e:.2e}"


def t_parseval(fn, var, D, N, C, L, seed):
    """spatial metric == its Fourier twin on arbitrary pairs"""
    i = info(fn, var)
    u, r = noise(seed, C, D, N, 3), noise(seed, C, D, N, 4)
    twin = TWIN[fn] if fn in TWIN else fn.replace("spatial", "fourier")
    a = call(fn, var, u, r, L)
    b = call(twin, var, u, r, L)
    a0 = call(fn, var, u, None, L) if i["mode"] == "absolute" else a
    b0 = call(twin, var, u, None, L) if i["mode"] == "absolute" else b
    e = max(rel(a, b), rel(a0, b0))
    return e < TOL, f"Parseval {fn} vs {twin} {var} D={D} N={N} C={C} L={L}: {a!r} vs {b!r} (norm form {a0!r} vs {b0!r}), rel. dev. {e:.2e}"


def t_continuous(fn, var, D, N, C, L, seed, kmax, low=None, high=None, dord=None):
    """value == closed-form continuous quantity for a band-limited (Nyquist-free) pair of trigonometric polynomials"""
    i = info(fn, var)
    pu, pr, pd = make_polys(seed, C, D, kmax, i["p"])
    u, r = pu.sample(D, N, L), pr.sample(D, N, L)
    got = call(fn, var, u, r, L, low, high, dord)
    exp = poly_metric(i, pu, pr, pd, L, D, N, low, high, dord)
    e = rel(got, exp)
    return e < TOL, f"{fn}{var} D={D} N={N} C={C} L={L} kmax={kmax} band=({low},{high}) dord={dord}: got {got!r}, closed form {exp!r}, rel. dev. {e:.2e}"


def t_resolution(fn, var, D, N1, N2, C, L, seed, kmax, low=None, high=None):
    """a band-limited pair sampled at two resolutions gives the same value (p = 1 Fourier sums: after removing the documented (1/N)^D factor)"""
    i = info(fn, var)
    pu, pr, pd = make_polys(seed, C, D, kmax, i["p"])
    vals = []
    for N in (N1, N2):
        v = call(fn, var, pu.sample(D, N, L), pr.sample(D, N, L), L, low, high)
        if i["p"] == 1 and i["space"] != "spatial" and i["mode"] == "absolute":
            v = v * float(N) ** (D * i["q"])
        vals.append(v)
    e = rel(vals[0], vals[1])
    return e < TOL, f"{fn}{var} D={D} N={N1} vs N={N2} C={C} L={L} kmax={kmax} band=({low},{high}): {vals[0]!r} vs {vals[1]!r}, rel. dev. {e:.2e}"


def t_resolution_interp(fn, var, D, N1, N2, C, L, seed, kmax):
    """same, the second sampling produced by ex.map_between_resolutions (spectral interpolation) from the first"""
    ex, jnp = _ex()
    i = info(fn, var)
    pu, pr, pd = make_polys(seed, C, D, kmax, i["p"])
    u1, r1 = pu.sample(D, N1, L), pr.sample(D, N1, L)
    u2 = np.asarray(ex.map_between_resolutions(jnp.asarray(u1), N2))
    r2 = np.asarray(ex.map_between_resolutions(jnp.asarray(r1), N2))
    a, b = call(fn, var, u1, r1, L), call(fn, var, u2, r2, L)
    if i["p"] == 1 and i["space"] != "spatial" and i["mode"] == "absolute":
        a, b = a * float(N1) ** (D * i["q"]), b * float(N2) ** (D * i["q"])
    e = rel(a, b)
    return e < 1e-9, f"{fn}{var} D={D} N={N1} -> map_between_resolutions -> N={N2} C={C} L={L}: {a!r} vs {b!r}, rel. dev. {e:.2e}"


def l_degree(i, D, dord, part=None):
    """exponent e with metric(L) ~ L^e"""
    if i["mode"] != "absolute":
        return 0.0
    m = 0 if dord is None else dord
    return i["q"] * (D - i["p"] * m)


def t_l_scaling(fn, var, D, N, C, L1, L2, seed, dord=None):
    """metric(L2) = (L2/L1)^(q (D - p m)) metric(L1); scale-free for the normalized/symmetric variants; H1: each of the two parts scales with its own degree"""
    i = info(fn, var)
    u, r = noise(seed, C, D, N, 5), noise(seed, C, D, N, 6)
    a, b = call(fn, var, u, r, L1, dord=dord), call(fn, var, u, r, L2, dord=dord)
    if i["space"] == "h1" and i["mode"] == "absolute":
        base = H1[fn]
        p0, p1 = call(base, {}, u, r, L1), call(base, {}, u, r, L1, dord=1)
        exp = (L2 / L1) ** l_degree(i, D, None) * p0 + (L2 / L1) ** l_degree(i, D, 1) * p1
    else:
        exp = (L2 / L1) ** l_degree(i, D, dord) * a
    e = rel(b, exp)
    return e < TOL, f"{fn}{var} D={D} N={N} C={C} L={L1}->{L2} dord={dord}: {b!r}, expected from the L^D law {exp!r}, rel. dev. {e:.2e}"


def t_channel_additive(fn, var, D, N, C, L, seed, low=None, high=None):
    """sum over channels c0 of the metric of the pair that differs only in channel c0 (the other channels of state and reference both equal the
    reference: they contribute zero) == metric of the full pair"""
    u, r = noise(seed, C, D, N, 7), noise(seed, C, D, N, 8)
    tot = call(fn, var, u, r, L, low, high)
    parts = 0.0
    for c0 in range(C):
        uu = r.copy()
        uu[c0] = u[c0]
        parts += call(fn, var, uu, r, L, low, high)
    e = rel(tot, parts)
    return e < TOL, f"{fn}{var} D={D} N={N} C={C} L={L}: whole {tot!r} vs sum of single-channel contributions {parts!r}, rel. dev. {e:.2e}"


def t_channel_split(fn, var, D, N, C1, C2, L, seed, low=None, high=None):
    """metric of the concatenation of two channel groups == sum of the metrics of the groups"""
    u, r = noise(seed, C1 + C2, D, N, 7), noise(seed, C1 + C2, D, N, 8)
    tot = call(fn, var, u, r, L, low, high)
    parts = call(fn, var, u[:C1], r[:C1], L, low, high) + call(fn, var, u[C1:], r[C1:], L, low, high)
    e = rel(tot, parts)
    return e < TOL, f"{fn}{var} D={D} N={N} channels {C1}+{C2} L={L}: whole {tot!r} vs sum of channel groups {parts!r}, rel. dev. {e:.2e}"


def t_band_additive(fn, var, D, N, C, L, seed, dord=None):
    """disjoint bands [0,a],[a+1,b],... covering every mode add up to the un-banded metric (absolute mode; rooted variants: squares, one channel)"""
    i = info(fn, var)
    u, r = noise(seed, C, D, N, 9), noise(seed, C, D, N, 10)
    bands = bands_for(N)
    if i["space"] == "h1":
        if i["q"] != 1.0:
            return True, "not additive (sum of two roots)"
    pw = 1.0 / i["q"]
    if pw != 1.0 and (C != 1 or (dord is not None and D > 1)):
        return True, "rooted variants add in squares only for one channel and one derivative component"
    full = call(fn, var, u, r, L, dord=dord) ** pw
    parts = sum(call(fn, var, u, r, L, lo, hi, dord) ** pw for lo, hi in bands)
    # the last band may also be given as open-ended (high=None -> N//2+1)
    parts2 = sum(call(fn, var, u, r, L, lo, (None if j == len(bands) - 1 else hi), dord) ** pw for j, (lo, hi) in enumerate(bands))
    e = max(rel(full, parts), rel(full, parts2))
    return e < TOL, f"{fn}{var} D={D} N={N} C={C} L={L} dord={dord} bands={bands}: full {full!r} vs sum over bands {parts!r} / {parts2!r}, rel. dev. {e:.2e}"


def t_axioms(fn, var, D, N, C, L, seed, c):
    """zero for identical inputs, positive otherwise, symmetric (absolute and symmetric modes), homogeneous of degree p*q (absolute) or 0 under (u, r) -> (c u, c r)"""
    i = info(fn, var)
    u, r = noise(seed, C, D, N, 11), noise(seed, C, D, N, 12)
    z = call(fn, var, u, u.copy(), L)
    if not (z == 0.0):
        return False, f"{fn}{var} D={D} N={N} C={C}: metric of identical inputs is {z!r}, expected 0"
    a = call(fn, var, u, r, L)
    if not (a > 0.0 and np.isfinite(a)):
        return False, f"{fn}{var} D={D} N={N} C={C}: metric of different inputs is {a!r}, expected > 0"
    if i["mode"] in ("absolute", "symmetric"):
        b = call(fn, var, r, u, L)
        if rel(a, b) > TOL:
            return False, f"{fn}{var} D={D} N={N} C={C}: not symmetric: {a!r} vs {b!r}"
    deg = i["p"] * i["q"] if i["mode"] == "absolute" else 0.0
    s = call(fn, var, c * u, c * r, L)
    exp = abs(c) ** deg * a
    e = rel(s, exp)
    return e < TOL, f"{fn}{var} D={D} N={N} C={C} c={c}: metric(c u, c r) = {s!r}, expected |c|^{deg} * {a!r} = {exp!r}, rel. dev. {e:.2e}"


def _derivative(field, L):
    """ex.derivative in physical space, shape (C, D, ...)"""
    ex, jnp = _ex()
    C, D = field.shape[0], field.ndim - 1
    g = np.asarray(ex.derivative(jnp.asarray(field), L, order=1))
    return g.reshape((C, D) + field.shape[1:])


def t_sobolev(fn, var, D, N, C, L, seed, kind, low=None, high=None):
    """H1_X = fourier_X + fourier_X(derivative_order=1) (spectral gradient: every pair, every band), and for odd N or Nyquist-free pairs
    H1_X = X + sum_d X(d_d u, d_d r) with the physical-space gradient ex.derivative (hypothesis: odd N or band-limited below Nyquist)"""
    i = info(fn, var)
    base = H1[fn]
    if kind == "noise":
        u, r = noise(seed, C, D, N, 13), noise(seed, C, D, N, 14)
    else:
        pu, pr, _ = make_polys(seed, C, D, (N - 1) // 2, 2)
        u, r = pu.sample(D, N, L), pr.sample(D, N, L)
    h = call(fn, var, u, r, L, low, high)
    s = call(base, {}, u, r, L, low, high) + call(base, {}, u, r, L, low, high, 1)
    if rel(h, s) > TOL:
        return False, f"{fn} D={D} N={N} C={C} band=({low},{high}): {h!r} != plain + derivative_order=1 part {s!r}"
    if (low is None and high is None) and (N % 2 == 1 or kind == "poly") and i["p"] == 2:
        sp = {"fourier_MSE": "MSE", "fourier_nMSE": "nMSE", "fourier_RMSE": "RMSE", "fourier_nRMSE": "nRMSE"}[base]
        gu, gr = _derivative(u, L), _derivative(r, L)
        si = dict(space="spatial", p=2, q=i["q"], mode=i["mode"])
        grad_part = 0.0
        for c in range(C):
            num = sum(ref_agg(gu[c, d] - gr[c, d], L, si, None, None, None, None) for d in range(D))
            if i["mode"] == "normalized":      # the components of the gradient are summed before the quotient is taken
                num = num / sum(ref_agg(gr[c, d], L, si, None, None, None, None) for d in range(D))
            grad_part += num
        phys = call(sp, {}, u, r, L) + grad_part
        e = rel(h, phys)
        return e < 1e-9, f"{fn} D={D} N={N} C={C} ({kind}): {h!r} vs {sp}(u, r) + {sp}-quadrature of the ex.derivative gradient = {phys!r}, rel. dev. {e:.2e}"
    return True, f"{fn} D={D} N={N} C={C} band=({low},{high}): spectral split holds"


def t_correlation(D, N, C, seed, alphas):
    """|correlation| <= 1; = mean of sign(alpha_c) for v_c = alpha_c u_c; symmetric; scale-free; = 1 for identical inputs"""
    ex, jnp = _ex()
    u, v = noise(seed, C, D, N, 15), noise(seed, C, D, N, 16)
    f = lambda a, b: float(ex.metrics.correlation(jnp.asarray(a), jnp.asarray(b)))
    c = f(u, v)
    if not (abs(c) <= 1 + 1e-12):
        return False, f"correlation {c!r} outside [-1, 1] (D={D} N={N} C={C})"
    exp = sum(np.sum(u[k] * v[k]) / math.sqrt(np.sum(u[k] ** 2) * np.sum(v[k] ** 2)) for k in range(C)) / C
    if abs(c - exp) > 1e-12:
        return False, f"correlation {c!r} != mean over channels of <u,v>/(|u||v|) = {exp!r}"
    if abs(c - f(v, u)) > 1e-12 or abs(c - f(2.5 * u, 0.5 * v)) > 1e-12 or abs(c + f(-u, v)) > 1e-12:
        return False, "correlation not symmetric / not invariant under positive scaling / not odd under u -> -u"
    al = np.asarray(alphas[:C], dtype=float).reshape((C,) + (1,) * D)
    cp = f(u, al * u)
    expp = float(np.mean(np.sign(al)))
    ok = abs(cp - expp) < 1e-12 and abs(f(u, u.copy()) - 1.0) < 1e-12
    return ok, f"correlation(u, alpha u) = {cp!r} for alpha = {alphas[:C]}, expected {expp!r}; correlation(u, u) = {f(u, u.copy())!r} (D={D} N={N} C={C})"


def t_validation(space, mode, ref_none):
    """mode requires state_ref: the call raises ValueError exactly when the translated guard of Gen/Guards.v says so (run through the extracted model)"""
    ex, jnp = _ex()
    u = jnp.asarray(noise(0, 1, 1, 6, 17))
    r = None if ref_none else jnp.asarray(noise(0, 1, 1, 6, 18))
    f = ex.metrics.spatial_norm if space == "spatial" else ex.metrics.fourier_norm
    try:
        v = f(u, r, mode=mode)
        raised = False
    except ValueError:
        raised = True
    code = {"absolute": 0, "normalized": 1, "symmetric": 2}[mode]
    model = core.run_model([(2009 if space == "spatial" else 2010, [ref_none, code])])[0][0] == 1
    expected = ref_none and (mode == "normalized" or (mode == "symmetric" and space == "spatial"))
    ok = raised == model == expected
    return ok, f"{space}_norm(mode={mode}, state_ref={'None' if ref_none else 'given'}): raised={raised}, guard model={model}, documented={expected}"


def t_mean_metric(fn, D, N, C, B, L, seed):
    ex, jnp = _ex()
    u = np.stack([noise(seed, C, D, N, 20 + b) for b in range(B)])
    r = np.stack([noise(seed, C, D, N, 40 + b) for b in range(B)])
    f = getattr(ex.metrics, fn)
    got = float(ex.metrics.mean_metric(f, jnp.asarray(u), jnp.asarray(r), domain_extent=L))
    exp = float(np.mean([float(f(jnp.asarray(u[b]), jnp.asarray(r[b]), domain_extent=L)) for b in range(B)]))
    e = rel(got, exp)
    return e < 1e-12, f"mean_metric({fn}) over {B} samples: {got!r} vs mean of the per-sample values {exp!r}"


def t_small_scales(D, N, seed):
    """(a) a small but resolvable difference (amplitude 3e-4, coefficients ~1e-3, far above the documented 1e-5 floor): the Fourier metrics
    still equal the spatial ones (Parseval) and are positive; (b) scale-freeness of the normalized / symmetric metrics on tiny states and tiny
    domains (c = 1e-4, L = 1e-2): no absolute epsilon may enter a quotient"""
    import jax.numpy as jnp
    import exponax as ex
    M = ex.metrics
    rng = np.random.default_rng(seed)
    x = np.asarray(ex.make_grid(D, 1.0, N))
    u = rng.standard_normal((2,) + (N,) * D)
    d = 3e-4 * np.cos(2 * np.pi * sum(x[c] for c in range(D)) + 0.3)[None] * np.asarray([[1.0], [-0.5]]).reshape((2,) + (1,) * D)
    v = u + d
    for L in (1.0, 2.5):
        a, b = float(M.MSE(jnp.asarray(v), jnp.asarray(u), domain_extent=L)), float(M.fourier_MSE(jnp.asarray(v), jnp.asarray(u), domain_extent=L))
        if not (a > 0 and abs(a - b) <= 1e-9 * a):
            return False, f"small difference (3e-4 cos): MSE = {a!r}, fourier_MSE = {b!r} (D={D}, N={N}, L={L})"
        a, b = float(M.nMSE(jnp.asarray(v), jnp.asarray(u), domain_extent=L)), float(M.fourier_nMSE(jnp.asarray(v), jnp.asarray(u), domain_extent=L))
        if not (a > 0 and abs(a - b) <= 1e-9 * a):
            return False, f"small difference (3e-4 cos): nMSE = {a!r}, fourier_nMSE = {b!r} (D={D}, N={N}, L={L})"
    w = u + 0.3 * rng.standard_normal(u.shape)
    for name in ("nMSE", "sMSE", "nRMSE", "nMAE", "sMAE", "sRMSE"):
        f = getattr(M, name)
        r0 = float(f(jnp.asarray(w), jnp.asarray(u), domain_extent=1.0))
        for c, L in ((1e-4, 1e-2), (1e3, 50.0), (1e-6, 1.0)):
            r1 = float(f(jnp.asarray(c * w), jnp.asarray(c * u), domain_extent=L))
            if abs(r1 - r0) > 1e-9 * abs(r0):
                return False, f"{name}: value {r0!r} for (u, v, L=1) but {r1!r} for ({c} u, {c} v, L={L}) (D={D}, N={N})"
    return True, ""


TESTS = dict(small_scales=t_small_scales, reference=t_reference, parseval=t_parseval, continuous=t_continuous, resolution=t_resolution,
             resolution_interp=t_resolution_interp, l_scaling=t_l_scaling, channel_additive=t_channel_additive, channel_split=t_channel_split,
             band_additive=t_band_additive, axioms=t_axioms, sobolev=t_sobolev, correlation=t_correlation,
             validation=t_validation, mean_metric=t_mean_metric)


# ------------------------------------------------------------------------------------------------
def configs(deep):
    """(D, N, C, partner N for the two-resolution tests).  D = 1..3, odd and even N, C = 1..3.  The quick tier keeps the number of distinct array
    shapes small (every new shape costs about 3 s of XLA compilation over the 26 functions): the partner resolution is the other configuration
    of the same D; the odd N is the smaller one so that its top mode (N-1)/2 is Nyquist-free on the partner."""
    if deep:
        return [(1, 5, 1, 8), (1, 8, 2, 11), (1, 11, 3, 12), (1, 12, 3, 11), (1, 21, 1, 24),
                (2, 5, 2, 6), (2, 6, 3, 9), (2, 7, 1, 8), (2, 9, 2, 12),
                (3, 4, 3, 5), (3, 5, 1, 6), (3, 7, 2, 8)]
    return [(1, 11, 2, 12), (1, 12, 2, 11), (2, 7, 3, 8), (2, 8, 3, 7), (3, 5, 1, 6), (3, 6, 1, 5)]


def witness(ctx):
    deep = ctx.deep
    for D, N in ((1, 8), (2, 8), (3, 6)) + (((1, 16), (2, 5), (3, 4)) if deep else ()):
        ctx.check("small_scales", dict(D=D, N=N, seed=ctx.seed + D))
    variants, unknown = all_variants()
    for name in unknown:
        ctx.notes.append(f"exponax.metrics.{name} is exported but not catalogued in harness/props/c16.py: not covered")
    cfgs = configs(deep)
    s0 = 1000 * ctx.seed
    Ls = (1.0, 2.5, 0.75, TWO_PI)
    n = 0
    for vi, (fn, var) in enumerate(variants):
        i = info(fn, var)
        fourier_like = i["space"] in ("fourier", "h1")
        absolute = i["mode"] == "absolute"
        if not deep and fn in GENERIC_VARIANTS and GENERIC_VARIANTS[fn].index(var) >= 2:
            continue
        for j, (D, N, C, N2) in enumerate(cfgs):
            n += 1
            L = Ls[(j + n) % len(Ls)]
            seed = s0 + n
            kmax = (min(N, N2) - 1) // 2
            grp = (vi + j) % 3               # the quick tier rotates the three groups of laws over the configurations
            ctx.count(fn)
            lo1, hi1 = bands_for(N)[1]
            # documented quadrature on white noise (every stored mode energetic)
            ctx.check("reference", dict(fn=fn, var=var, D=D, N=N, C=C, L=L, seed=seed, with_ref=bool(n % 2)))
            if fourier_like:
                ctx.check("reference", dict(fn=fn, var=var, D=D, N=N, C=C, L=L, seed=seed + 1, low=lo1, high=hi1))
            if i["space"] == "fourier" and (deep or grp == 2):
                ctx.check("reference", dict(fn=fn, var=var, D=D, N=N, C=C, L=L, seed=seed + 2, low=(1 if n % 2 else None),
                                            high=(None if n % 2 else max(N // 2 - 1, 1)), dord=1 + n % 2))
            if (deep or grp == 0) and kmax >= 1:
                # closed forms of band-limited pairs; the same polynomial at the partner resolution
                top = dict(low=max(kmax - 1, 1), high=kmax)
                ctx.check("continuous", dict(fn=fn, var=var, D=D, N=N, C=C, L=L, seed=seed, kmax=kmax))
                if fourier_like:
                    ctx.check("continuous", dict(fn=fn, var=var, D=D, N=N, C=C, L=L, seed=seed, kmax=kmax, **top))
                    if absolute:
                        ctx.check("continuous", dict(fn=fn, var=var, D=D, N=N, C=C, L=L, seed=seed, kmax=kmax, low=0, high=max(kmax - 2, 0)))
                    if i["space"] == "fourier":
                        ctx.check("continuous", dict(fn=fn, var=var, D=D, N=N, C=C, L=L, seed=seed, kmax=kmax, dord=2, low=1, high=None))
                if N < N2:
                    ctx.check("resolution", dict(fn=fn, var=var, D=D, N1=N, N2=N2, C=C, L=L, seed=seed, kmax=kmax))
                    if fourier_like:
                        ctx.check("resolution", dict(fn=fn, var=var, D=D, N1=N, N2=N2, C=C, L=L, seed=seed, kmax=kmax, **top))
                    if deep or vi % 4 == 0:
                        ctx.check("resolution_interp", dict(fn=fn, var=var, D=D, N1=N, N2=N2, C=C, L=L, seed=seed, kmax=kmax))
            if deep or grp == 1:
                ctx.check("l_scaling", dict(fn=fn, var=var, D=D, N=N, C=C, L1=L, L2=Ls[(j + n + 1) % len(Ls)], seed=seed,
                                            dord=(1 if (i["space"] == "fourier" and n % 2) else None)))
                ctx.check("axioms", dict(fn=fn, var=var, D=D, N=N, C=C, L=L, seed=seed, c=(-1.75 if n % 2 else 0.375)))
                if C > 1:
                    ctx.check("channel_additive", dict(fn=fn, var=var, D=D, N=N, C=C, L=L, seed=seed))
                if deep and C > 1:
                    ctx.check("channel_split", dict(fn=fn, var=var, D=D, N=N, C1=1, C2=C - 1, L=L, seed=seed))
            if deep or grp == 2:
                if fourier_like and absolute:
                    ctx.check("band_additive", dict(fn=fn, var=var, D=D, N=N, C=C, L=L, seed=seed,
                                                    dord=(1 if (i["space"] == "fourier" and n % 2) else None)))
                if fn in TWIN or (fn in ("spatial_aggregator", "spatial_norm") and i["p"] == 2 and i["mode"] != "symmetric"):
                    ctx.check("parseval", dict(fn=fn, var=var, D=D, N=N, C=C, L=L, seed=seed))
            if fn in H1 and (deep or grp != 1):
                ctx.check("sobolev", dict(fn=fn, var=var, D=D, N=N, C=C, L=L, seed=seed, kind=("noise" if N % 2 else "poly")))
                if deep:
                    ctx.check("sobolev", dict(fn=fn, var=var, D=D, N=N, C=C, L=L, seed=seed, kind=("poly" if N % 2 else "noise")))
                    ctx.check("sobolev", dict(fn=fn, var=var, D=D, N=N, C=C, L=L, seed=seed, kind="noise", low=lo1, high=hi1))
    if not deep:
        # channel splitting needs extra array shapes: one configuration in the quick tier
        for fn in ("MSE", "nRMSE", "sMAE", "fourier_nMSE", "H1_RMSE"):
            ctx.check("channel_split", dict(fn=fn, var={}, D=1, N=11, C1=1, C2=1, L=2.5, seed=s0 + 7))
    for j, (D, N, C, _) in enumerate(cfgs):
        ctx.count("correlation")
        ctx.check("correlation", dict(D=D, N=N, C=C, seed=s0 + j, alphas=[2.5, 0.5, 1.25]))
        ctx.check("correlation", dict(D=D, N=N, C=C, seed=s0 + j, alphas=[-2.5, -0.5, -1.25]))
        ctx.check("correlation", dict(D=D, N=N, C=C, seed=s0 + j, alphas=[-2.5, 0.5, 1.25]))
        for fn in (("MSE", "nRMSE", "sMAE") if deep else (("nMSE",) if j == 2 else ())):
            ctx.count("mean_metric")
            ctx.check("mean_metric", dict(fn=fn, D=D, N=N, C=C, B=3, L=1.5, seed=s0 + j))
    for space in ("spatial", "fourier"):
        for mode in ("absolute", "normalized", "symmetric"):
            for ref_none in (False, True):
                ctx.check("validation", dict(space=space, mode=mode, ref_none=ref_none))


# ------------------------------------------------------------------------------------------------
# correspondence: extracted exact-rational model vs the real functions
def dyadic_state(rng, C, D, N, den=8):
    return rng.integers(-2 * den, 2 * den + 1, size=(C,) + (N,) * D) / float(den)


def spec_clear(x):
    """every rfftn coefficient of every channel is (numerically) 0 or >= 1e-3: the 1e-5 floor of the implementation is not in play"""
    a = np.abs(np.fft.rfftn(x, axes=tuple(range(1, x.ndim))))
    return bool(np.all((a < 1e-9) | (a >= 1e-3)))


def correspond(ctx):
    ex, jnp = _ex()
    rng = ctx.rng
    M = ex.metrics
    MODES = {"absolute": 0, "normalized": 1, "symmetric": 2}
    # quick: the array shapes of the witness configurations (XLA compiles every primitive once per shape: about 3 s per new shape)
    grid = [(D, N, C) for D, N, C, _ in configs(False)]
    if not ctx.quick:
        grid += [(1, 5, 1), (1, 6, 3), (1, 9, 2), (2, 4, 1), (2, 5, 2), (2, 6, 1), (3, 3, 2), (3, 4, 3)]
    cases, meta = [], []

    def add(cid, args, impl, desc):
        cases.append((cid, args)); meta.append((desc, impl))

    def flat(x):
        return [float(t) for t in np.asarray(x).reshape(-1)]

    def flatc(x):
        out = []
        for t in np.asarray(x).reshape(-1):
            out += [float(t.real), float(t.imag)]
        return out

    for gi, (D, N, C) in enumerate(grid):
        if True:
            L = (1.0, 2.5, 0.75, 3.0)[(gi + C) % 4]
            for _ in range(20):
                u, r = dyadic_state(rng, C, D, N), dyadic_state(rng, C, D, N)
                if spec_clear(u) and spec_clear(r) and spec_clear(u - r) and np.all(np.sum(np.abs(r.reshape(C, -1)), axis=1) > 0):
                    break
            else:
                raise RuntimeError("could not generate a state clear of the coefficient floor")
            P = N ** D
            uj, rj = jnp.asarray(u), jnp.asarray(r)
            # spatial
            for fn, mode, ref in (("MSE", 0, True), ("MSE", 0, False), ("nMSE", 1, True), ("sMSE", 2, True)):
                val = float(getattr(M, fn)(uj, rj, domain_extent=L)) if ref else float(M.MSE(uj, domain_extent=L))
                add(1601, [mode, D, N, L, ref, C, P] + flat(u) + (flat(r) if ref else []), [1, val],
                    dict(fn=fn, D=D, N=N, C=C, L=L, ref=ref))
            if gi == 0:
                for mode in ("absolute", "normalized", "symmetric"):
                    for ref in (True, False):
                        try:
                            val = [1, float(M.spatial_norm(uj, rj if ref else None, mode=mode, domain_extent=L, outer_exponent=1.0))]
                        except ValueError:
                            val = [0]
                        add(1601, [MODES[mode], D, N, L, ref, C, P] + flat(u) + (flat(r) if ref else []), val,
                            dict(fn="spatial_norm", mode=mode, D=D, N=N, C=C, L=L, ref=ref))
                        if mode != "symmetric":
                            try:
                                val = [1, float(M.fourier_norm(uj, rj if ref else None, mode=mode, domain_extent=L, outer_exponent=1.0))]
                            except ValueError:
                                val = [0]
                            Uh = np.asarray(ex.fft(uj)); Rh = np.asarray(ex.fft(rj))
                            add(1602, [MODES[mode], D, N, L, TWO_PI, 0, 0, 0, 0, 0, 0, ref, C, Uh[0].size] + flatc(Uh) + (flatc(Rh) if ref else []), val,
                                dict(fn="fourier_norm", mode=mode, D=D, N=N, C=C, L=L, ref=ref))
            # Fourier: the model receives the exact float rfftn coefficients
            Uh, Rh = np.asarray(ex.fft(uj)), np.asarray(ex.fft(rj))
            Mc = Uh[0].size
            top = N // 2
            bands = [(None, None), (0, max(top - 1, 0)), (1, None), (None, 1), (top, top), (1, max(top - 1, 1))]
            combos = [(b, d) for b in range(len(bands)) for d in (None, 1, 2)]
            h1_bands = list(range(len(bands)))
            if ctx.quick and D >= 2:
                # exact rational arithmetic on 50..150 coefficients per channel costs 0.1..0.4 s per case: a rotating selection
                b1, b2, b3 = 1 + gi % 5, 1 + (gi + 2) % 5, 1 + (gi + 3) % 5
                combos = [(0, None), (b1, None), (b2, 1), (b3, 2)]
                h1_bands = [b1]
            elif ctx.quick:
                combos = [(b, d) for (b, d) in combos if (b + (d or 0) + gi) % 2 == 0 or (b == 0 and d is None)]
                h1_bands = [b for b in h1_bands if (b + gi) % 2 == 0]
            for bi, dord in combos:
                lo, hi = bands[bi]
                kw = dict(domain_extent=L, low=lo, high=hi, derivative_order=dord)
                hdr = [D, N, L, TWO_PI, lo is not None, lo or 0, hi is not None, hi or 0, dord is not None, dord or 0]
                todo = (("fourier_MSE", 0, True), ("fourier_MSE", 0, False), ("fourier_nMSE", 1, True))
                if ctx.quick and D >= 2 and dord is not None:
                    todo = todo[:1] if dord == 2 else (todo[0], todo[2])
                for fn, mode, ref in todo:
                    if fn == "fourier_nMSE":
                        # the reference must have energy in the band and in the derivative components
                        val = float(M.fourier_nMSE(uj, rj, **kw))
                        if not np.isfinite(val):
                            continue
                    else:
                        val = float(M.fourier_MSE(uj, rj, **kw)) if ref else float(M.fourier_MSE(uj, **kw))
                    add(1602, [mode] + hdr + [ref, C, Mc] + flatc(Uh) + (flatc(Rh) if ref else []), [1, val],
                        dict(fn=fn, D=D, N=N, C=C, L=L, low=lo, high=hi, dord=dord, ref=ref))
            for bi in h1_bands:
                lo, hi = bands[bi]
                kw = dict(domain_extent=L, low=lo, high=hi)
                hdr = [D, N, L, TWO_PI, lo is not None, lo or 0, hi is not None, hi or 0, 0, 0]
                todo = (("H1_MSE", 0, True), ("H1_MSE", 0, False), ("H1_nMSE", 1, True))
                if ctx.quick and D >= 2:
                    todo = (todo[0], todo[2])
                for fn, mode, ref in todo:
                    val = float(getattr(M, fn)(uj, rj, **kw)) if ref else float(M.H1_MSE(uj, **kw))
                    if not np.isfinite(val):
                        continue
                    add(1603, [mode] + hdr + [ref, C, Mc] + flatc(Uh) + (flatc(Rh) if ref else []), [1, val],
                        dict(fn=fn, D=D, N=N, C=C, L=L, low=lo, high=hi, ref=ref))
            # correlation^2 per channel and its sign (one-channel states; the channel mean is part of the witness)
            if C == 1:
                cv = float(M.correlation(uj, rj))
                add(1604, [P] + flat(u[0]) + flat(r[0]), [cv * cv, cv], dict(fn="correlation", D=D, N=N, C=1))
            # mean_metric over a batch of two pairs
            if gi == 0:
                vals = [float(M.MSE(uj, rj, domain_extent=L)), float(M.MSE(rj, 0.5 * uj, domain_extent=L))]
                mm = float(M.mean_metric(M.MSE, jnp.stack([uj, rj]), jnp.stack([rj, 0.5 * uj]), domain_extent=L))
                add(1605, vals, [mm], dict(fn="mean_metric", D=D, N=N, B=2))
        # the arrays the aggregator multiplies with, at every stored index
        scal = np.asarray(ex.spectral.build_scaling_array(D, N, mode="reconstruction"))[0]
        for lo, hi in ((None, None), (1, N // 2 - 1 if N > 3 else 1), (None, 1), (2, None)):
            if lo is None and hi is None:
                mask = np.ones(scal.shape, dtype=bool)
            else:
                l0 = 0 if lo is None else lo
                h0 = N // 2 + 1 if hi is None else hi
                mask = np.asarray(~ex.spectral.low_pass_filter_mask(D, N, cutoff=l0 - 1) & ex.spectral.low_pass_filter_mask(D, N, cutoff=h0))[0]
            for idx in itertools.product(*[range(s) for s in scal.shape]):
                add(1606, [D, N, lo is not None, lo or 0, hi is not None, hi or 0] + list(idx), [float(scal[idx]), int(mask[idx])],
                    dict(fn="scaling_and_mask", D=D, N=N, low=lo, high=hi, idx=list(idx)))
    res = core.run_model(cases)
    for (cid, args), (desc, impl), mres in zip(cases, meta, res):
        ctx.case(desc)
        ctx.count("corr:" + desc["fn"])
        mv = [float(x) for x in mres]
        ok = len(mv) == len(impl)
        if ok:
            if desc["fn"] == "correlation":
                ok = abs(mv[0] - impl[0]) <= 1e-10 and (mv[1] > 0) == (impl[1] > 0)
            else:
                ok = all(np.isfinite(b) and abs(a - b) <= 1e-10 * max(abs(a), abs(b)) for a, b in zip(mv, impl))
        if not ok:
            ctx.disagree("c16:" + desc["fn"], desc, mv, impl)
