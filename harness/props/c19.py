"""C19 — steps stay finite and precision-faithful across stiffness and dtype (PARTIAL: logic proved, floats decided on the real code).

The float regime needs two JAX sessions.  The main process (vcheck exports JAX_ENABLE_X64=1) never evaluates the property itself:
every test spawns `python -m harness.props.c19_worker` twice, once with JAX_ENABLE_X64=0 (float32 session) and once with
JAX_ENABLE_X64=1 (float64 session), over a batch of JSON cases (one interpreter start-up per session and batch, not per case).
The witness prefetches all its cases in a few parallel batches; a replayed test re-spawns the two sessions for its own case."""
import json
import os
import subprocess
import sys
import threading

import numpy as np

from .. import core, registry
from ..translate import etdrk as tr_etdrk
from .c02 import COEFS, phis
from . import c19_worker

ID = "C19"
PROPS_FILE = "C19"
RULE = ("correspondence (exact Gaussian rationals vs the real code, x64): (a) every ETDRK coefficient in the numerator form numerator*(1/lr)^m of "
        "ETDRK/Contour.v vs exponax.etdrk.ETDRKp with one contour point, (b) step_fourier of the ZERO state with a forced user nonlinearity vs the "
        "extracted forced_p formulas fed with the implementation's coefficient arrays, (c) the generated integrands run with partial division "
        "(x/0 = error) vs finiteness of the implementation's coefficient at contour points that are exactly zero / non-zero, (d) exp of the generated "
        "root_arg vs roots_of_unity(M) and w^M = -1.  "
        "witness (real code, a float32 AND a float64 process): coefficient arrays over the stiffness ladder z = lambda*dt in {0,-1e-8,...,-1e15} on the "
        "negative real axis, both imaginary half axes and the left half plane (finite, complex dtype of the session, x64 values vs phi-function "
        "references); every exported stepper class x orders 0-4 x admissible D: one step of an O(1) white-noise state and of the zero state (finite, "
        "dtype = session default, internal arrays complex64/complex128, zero -> exactly zero unless forced); float32 vs float64 distance of the same "
        "step on the same float32-representable state; stiff grids (N=256, dt=10).  Non-trivial: every case except z = 0 with p = 0; distinct by hash.")
ASSUMPTIONS = ["IEEE arithmetic, XLA's complex exp / division / integer power and dtype promotion are outside the exact model: decided by running "
               "the real code in a float32 and a float64 process",
               "JAX_ENABLE_X64 of the process environment selects the session precision (jax's documented switch)",
               "lambda = 0: the contour remainder (Taylor tail of order >= 16) is measured against 1/k!, not proved",
               "reference phi-functions: Taylor series for |z| < 0.6, closed forms beyond (complex128); exp on the imaginary axis is "
               "ill-conditioned (relative condition |z|), the tolerance carries 32*eps*|z|"]
TRUSTED_EXTRA = ["two subprocess sessions (env JAX_ENABLE_X64=0/1) running harness/props/c19_worker.py"]

EPS32 = float(np.finfo(np.float32).eps)
EPS64 = float(np.finfo(np.float64).eps)
NS = {1: 32, 2: 16, 3: 8}
# ||step32 - step64|| <= C_PREC * eps32 * sqrt(N^D) * max(1, ||u||).  Calibration on the unchanged tree (all 36 classes x admissible D x
# orders 0-4 x seeds 0..5, 2340 steps): the largest observed ratio ||d|| / (eps32 sqrt(N^D) max(1,||u||)) is 1.98
# (NormalizedConvectionStepper, D=1, order 3; every other class <= 0.81), so 50 leaves a factor 25; an O(1) relative error would be
# 2.6e5 (N^D = 1024) to 1.5e6 (N^D = 32) in the same units, i.e. more than 5e3 above the bound.
C_PREC = 50.0
LADDER = [0.0, 1e-8, 1e-4, 1.0, 1e2, 1e4, 1e6, 1e9, 1e12, 1e15]
FORCED_ALWAYS = ("KolmogorovFlowVorticity", "KolmogorovFlowVelocity")
CORE = ["Burgers", "KuramotoSivashinsky", "Diffusion", "NavierStokesVorticity", "KolmogorovFlowVorticity", "KolmogorovFlowVelocity",
        "GeneralVorticityConvectionStepper", "GrayScott", "Wave"]


def translate(ctx):
    tr_etdrk.run()


# ------------------------------------------------------------------------------------------------
# the two sessions
_CACHE = {}


def _ckey(session, case):
    return session + "|" + json.dumps(case, sort_keys=True)


def _spawn(cases, x64, late=False):
    env = dict(os.environ)
    env.update(JAX_ENABLE_X64="1" if (x64 and not late) else "0", C19_LATE_X64="1" if late else "0", JAX_PLATFORMS="cpu",
               PYTHONPATH=core.REPO + ":" + core.VERIF, PYTHONHASHSEED="0", PYTHONDONTWRITEBYTECODE="1")
    return subprocess.Popen([sys.executable, "-m", "harness.props.c19_worker"], stdin=subprocess.PIPE, stdout=subprocess.PIPE,
                            stderr=subprocess.PIPE, text=True, env=env, cwd=core.VERIF)


def run_sessions(cases, par=1, timeout=3000):
    """evaluate the worker cases in a float32 and a float64 process (cached); returns {'float32': [...], 'float64': [...]}"""
    todo = [c for c in cases if _ckey("float32", c) not in _CACHE or _ckey("float64", c) not in _CACHE]
    uniq, seen = [], set()
    for c in todo:
        k = json.dumps(c, sort_keys=True)
        if k not in seen:
            seen.add(k); uniq.append(c)
    if uniq:
        par = max(1, min(par, len(uniq)))
        chunks = [uniq[i::par] for i in range(par)]
        jobs = []
        for ch in chunks:
            for x64 in (False, True):
                jobs.append((ch, x64, _spawn(ch, x64)))
        outs = [None] * len(jobs)

        def comm(i):
            ch, x64, p = jobs[i]
            try:
                outs[i] = p.communicate(json.dumps(ch), timeout=timeout)
            except subprocess.TimeoutExpired:
                p.kill()
                outs[i] = ("", "timeout")
        ths = [threading.Thread(target=comm, args=(i,)) for i in range(len(jobs))]
        [t.start() for t in ths]
        [t.join() for t in ths]
        for (ch, x64, p), (so, se) in zip(jobs, outs):
            want = "float64" if x64 else "float32"
            if c19_worker.MARK not in (so or ""):
                raise RuntimeError(f"{want} worker produced no result (exit {p.returncode}): {(se or '')[-800:]}")
            res = json.loads(so.split(c19_worker.MARK)[1])
            if res["session"] != want:
                raise RuntimeError(f"the process started with JAX_ENABLE_X64={int(x64)} runs a {res['session']} session")
            for c, r in zip(ch, res["results"]):
                _CACHE[_ckey(want, c)] = r
    return {s: [_CACHE[_ckey(s, c)] for c in cases] for s in ("float32", "float64")}


# ------------------------------------------------------------------------------------------------
# worker-case builders (deterministic functions of the JSON params of a test)
def coef_case(p, dt, zs):
    return dict(kind="coef", p=p, dt=dt, lam=[[(complex(*z) / dt).real, (complex(*z) / dt).imag] for z in zs])


def step_case(cls, D, N, order, kw, dt, L, seed, stiff=False):
    states = [dict(state="noise", seed=seed, amp=1.0), dict(state="zero")]
    if not stiff:
        states.append(dict(state="smooth", seed=seed, amp=0.5, ret=True))
    return dict(kind="step", cls=cls, D=D, N=N, order=order, kw=kw or {}, dt=dt, L=L, states=states)


def is_forced(cls, kw):
    kw = kw or {}
    if cls in FORCED_ALWAYS:
        return kw.get("injection_scale", 1.0) != 0
    if cls == "GeneralVorticityConvectionStepper":
        return kw.get("injection_scale", 0.0) != 0
    if cls == "GrayScott":          # the feed term f*(1-u) is a constant forcing of the first species
        return kw.get("feed_rate", 0.04) != 0
    return False


def etdrk_orders(name):
    """orders of the ETDRK dispatch (DifficultyLinearStepperSimple's `order` is a derivative order, not the ETDRK order)"""
    import inspect
    ps = inspect.signature(registry.classes()[name].__init__).parameters
    return [0, 1, 2, 3, 4] if ("order" in ps and "num_circle_points" in ps) else [None]


# ------------------------------------------------------------------------------------------------
# phi-function references for the coefficient arrays (independent of the code: tableau combinations of C02)
def coef_refs(p, dt, z):
    z = np.asarray(z, dtype=complex)
    small = np.abs(z) < 0.6
    p1, p2, p3 = phis(np.where(small, z, 0))
    p1h = phis(np.where(small, z / 2, 0))[0]
    zz = np.where(small, 1.0, z)
    with np.errstate(all="ignore"):
        e, eh = np.exp(zz), np.exp(zz / 2)
        P1 = np.where(small, p1, (e - 1) / zz)
        P2 = np.where(small, p2, (e - 1 - zz) / zz**2)
        H = np.where(small, p1h / 2, (eh - 1) / zz)
        A = np.where(small, p1 - 3 * p2 + 4 * p3, (-4 - zz + e * (4 - 3 * zz + zz**2)) / zz**3)
        B = np.where(small, p2 - 2 * p3, (2 + zz + e * (-2 + zz)) / zz**3)
        Cc = np.where(small, -p2 + 4 * p3, (-4 - 3 * zz - zz**2 + e * (4 - zz)) / zz**3)
        out = {"_exp_term": np.exp(z)}
        if p >= 3:
            out["_half_exp_term"] = np.exp(z / 2)
    if p == 1:
        out.update(_coef_1=dt * P1)
    elif p == 2:
        out.update(_coef_1=dt * P1, _coef_2=dt * P2)
    elif p == 3:
        out.update(_coef_1=dt * H, _coef_2=dt * P1, _coef_3=dt * A, _coef_4=dt * 4 * B, _coef_5=dt * Cc)
    elif p == 4:
        out.update(_coef_1=dt * H, _coef_2=dt * H, _coef_3=dt * H, _coef_4=dt * A, _coef_5=dt * B, _coef_6=dt * Cc)
    return out


def t_coef(p, dt, zs):
    """coefficient arrays of ETDRKp for the symbols z/dt: finite and of the session's complex dtype in BOTH sessions; values vs references"""
    case = coef_case(p, dt, zs)
    res = run_sessions([case])
    expect = ["_exp_term"] + (["_half_exp_term"] if p >= 3 else []) + [f"_coef_{j}" for j in COEFS.get(p, [])]
    worst = 0.0
    for sess, cdt, feps in (("float32", "complex64", EPS32), ("float64", "complex128", EPS64)):
        r = res[sess][0]
        if "error" in r:
            return False, f"{sess} session: {r['error']}"
        if r["default"] != sess:
            return False, f"session default dtype is {r['default']}, expected {sess}"
        zeff = np.asarray([complex(*z) for z in r["zeff"]])
        refs = coef_refs(p, dt, zeff)
        for n in expect:
            if n not in r["arrays"]:
                return False, f"{sess}: ETDRK{p} has no attribute {n}"
            a = r["arrays"][n]
            if not a["finite"]:
                bad = [zs[i] for i in a["nonfinite_at"]]
                return False, f"{sess}: ETDRK{p}.{n} is not finite at z = lambda*dt in {bad} (dt={dt})"
            if a["dtype"] != cdt:
                return False, f"{sess}: ETDRK{p}.{n} has dtype {a['dtype']}, expected {cdt}"
            v = np.asarray([complex(*x) for x in a["values"]])
            ref = refs[n]
            az = np.abs(zeff)
            is_exp = n.endswith("exp_term")
            damp = 1.0 if is_exp else np.exp(np.minimum(0.0, zeff.real + 1.0))
            cond = 32 * feps * az * damp          # conditioning of exp(z) w.r.t. one rounding of z
            if sess == "float64":
                # relative to the natural size dt * min(1, 1/|z|) of a phi-coefficient as well: at exp(z) = 1, z != 0 the reference itself is
                # a rounding residue (phi_1(2 pi i) = 0) and a purely relative tolerance would be meaningless
                nat64 = 0.0 if is_exp else dt * np.minimum(1.0, 1.0 / np.maximum(az, 1e-30))
                tol = (1e-9 + cond) * (np.abs(ref) + nat64) + 1e-300
                chk = cond < 1e-3
            else:
                nat = 0.0 if is_exp else dt * np.minimum(1.0, 1.0 / np.maximum(az, 1e-30))
                tol = 2e-3 * (np.abs(ref) + nat) + 1e-30
                chk = az <= 100.0
            err = np.abs(v - ref)
            q = np.where(chk, err / tol, 0.0)
            i = int(np.argmax(q))
            worst = max(worst, float(q[i]))
            if q[i] > 1.0:
                return False, (f"{sess}: ETDRK{p}.{n} at z={complex(*zs[i])} (dt={dt}) is {v[i]}, phi-function reference {ref[i]} "
                               f"(error {err[i]:.3e}, allowed {tol[i]:.3e})")
    return True, f"ETDRK{p}: {len(zs)} symbols finite in both sessions; worst error/tolerance {worst:.2e}"


def _check_stepper(cls, D, N, order, kw, dt, L, seed, stiff):
    case = step_case(cls, D, N, order, kw, dt, L, seed, stiff)
    res = run_sessions([case])
    forced = is_forced(cls, kw) and order != 0        # order 0 (ETDRK0) is the linear propagator only: zero -> zero always
    for sess, cdt in (("float32", "complex64"), ("float64", "complex128")):
        r = res[sess][0]
        tag = f"{sess} session, {cls}(D={D}, N={N}, dt={dt}, order={order}, {kw or ''})"
        if "error" in r:
            return False, f"{tag}: {r['error']}"
        if r["default"] != sess:
            return False, f"session default dtype is {r['default']}, expected {sess}"
        if order is not None and r["integrator"] != f"ETDRK{order}":
            return False, f"{tag}: order {order} dispatched to {r['integrator']}"
        for n, a in r["arrays"].items():
            if not a["finite"]:
                return False, f"{tag}: integrator array {n} is not finite"
            if a["dtype"] != cdt:
                return False, f"{tag}: integrator array {n} has dtype {a['dtype']}, expected {cdt}"
        if "_exp_term" not in r["arrays"]:
            return False, f"{tag}: integrator has no _exp_term"
        noise, zero = r["runs"][0], r["runs"][1]
        for nm, run in (("noise", noise), ("zero", zero)):
            if run["in_dtype"] != sess:
                return False, f"{tag}: input state was {run['in_dtype']}"
            if run["out_dtype"] != sess:
                return False, f"{tag}: step of the {nm} state returns dtype {run['out_dtype']}, the session default is {sess}"
            if run["shape"] != [r["C"]] + [N] * D:
                return False, f"{tag}: step of the {nm} state has shape {run['shape']}"
            if not run["finite"]:
                return False, f"{tag}: step of the {nm} state (O(1), seed {seed}) is not finite"
        if forced:
            if not (zero["maxabs"] > 0):
                return False, f"{tag}: forced equation maps the zero state to zero"
        elif zero["maxabs"] != 0.0:
            return False, f"{tag}: unforced equation maps the zero state to a state of max-norm {zero['maxabs']:.3e}"
    return True, f"{cls} D={D} order={order}: finite, dtypes follow the session, zero -> {'non-zero (forced)' if forced else 'zero'}"


def t_stepper(cls, D, N, order, kw, dt, L, seed):
    return _check_stepper(cls, D, N, order, kw, dt, L, seed, False)


def t_stiff(cls, D, N, order, kw, dt, L, seed):
    return _check_stepper(cls, D, N, order, kw, dt, L, seed, True)


def t_precision(cls, D, N, order, kw, dt, L, seed):
    """the same step on the same (float32-representable, smooth, amplitude 0.5) state in float32 and in float64"""
    case = step_case(cls, D, N, order, kw, dt, L, seed, False)
    res = run_sessions([case])
    a, b = res["float32"][0], res["float64"][0]
    for r, s in ((a, "float32"), (b, "float64")):
        if "error" in r:
            return False, f"{s} session: {r['error']}"
        if not r["runs"][2]["finite"]:
            return False, f"{s} session: step of the smooth state is not finite"
    o32, o64 = np.asarray(a["runs"][2]["out"]), np.asarray(b["runs"][2]["out"])
    if o32.shape != o64.shape:
        return False, f"shapes differ between the sessions: {o32.shape} vs {o64.shape}"
    d = float(np.linalg.norm(o32 - o64))
    un = a["runs"][2]["in_norm"]
    bound = C_PREC * EPS32 * np.sqrt(float(N) ** D) * max(1.0, un)
    ok = d <= bound
    return ok, (f"{cls}(D={D}, N={N}, dt={dt}, order={order}, {kw or ''}), seed {seed}: ||step32 - step64|| = {d:.3e}, "
                f"bound {C_PREC:g}*eps32*sqrt(N^D)*max(1,||u||) = {bound:.3e} (||u|| = {un:.3f}, ratio {d / bound:.4g})")


def analytic_case(D, N, L, dt, mode):
    return dict(kind="analytic", D=D, N=N, L=L, dt=dt, mode=mode)


def t_faithful(D, N, L, dt, mode):
    """each session really works in its own precision: grid / spectral operator / result dtypes, and one step of a single Fourier mode
    under Diffusion, Advection, Dispersion (integrated exactly by the scheme) vs the analytic solution to that precision's rounding"""
    res = run_sessions([analytic_case(D, N, L, dt, mode)])
    worst = {}
    for sess, cdt, tol in (("float32", "complex64", 1e-4), ("float64", "complex128", 1e-12)):
        r = res[sess][0]
        if "error" in r:
            return False, f"{sess} session: {r['error']}"
        if r["default"] != sess:
            return False, f"session default dtype is {r['default']}, expected {sess}"
        if r["grid_dtype"] != sess:
            return False, f"{sess} session: make_grid returns {r['grid_dtype']}"
        if r["op_dtype"] != cdt:
            return False, f"{sess} session: build_derivative_operator(D={D}) returns {r['op_dtype']}, expected {cdt}"
        for n, e in r["errs"].items():
            if r["out_dtypes"][n] != sess:
                return False, f"{sess} session: {n} step returns {r['out_dtypes'][n]}"
            if not e <= tol:
                return False, (f"{sess} session: one {n} step (D={D}, N={N}, L={L}, dt={dt}) of a single Fourier mode deviates from the analytic "
                               f"solution by {e:.3e} (allowed {tol:.0e}): the session does not work in {sess} precision throughout")
            worst[sess] = max(worst.get(sess, 0.0), e)
        for tag, fr in r.get("foreign", {}).items():
            if fr["dtype"] != sess:
                return False, f"{sess} session: a state of dtype {tag.split('/')[1]} stepped by {tag.split('/')[0]} comes back as {fr['dtype']}, not as the session's {sess}"
            if not fr["dev"] <= 1e-5:
                return False, f"{sess} session: {tag}: result differs from the step of the same values in {sess} by {fr['dev']:.3e}"
    return True, f"D={D}: analytic single-mode errors {worst}"


def t_faithful_late(D, N, L, dt, mode):
    """double precision enabled with jax.config.update AFTER `import exponax`: the same analytic single-mode steps must be accurate to
    double-precision rounding (nothing evaluated at import time may freeze float32)"""
    p = _spawn([analytic_case(D, N, L, dt, mode)], True, late=True)
    try:
        so, se = p.communicate(json.dumps([analytic_case(D, N, L, dt, mode)]), timeout=900)
    except subprocess.TimeoutExpired:
        p.kill()
        return False, "late-x64 worker timed out"
    if c19_worker.MARK not in (so or ""):
        return False, f"late-x64 worker produced no result: {(se or '')[-400:]}"
    res = json.loads(so.split(c19_worker.MARK)[1])
    if res["session"] != "float64":
        return False, f"jax.config.update('jax_enable_x64', True) after the import gives a {res['session']} session"
    r = res["results"][0]
    if "error" in r:
        return False, f"late-x64 session: {r['error']}"
    for n, e in r["errs"].items():
        if r["out_dtypes"][n] != "float64":
            return False, f"late-x64 session: {n} step returns {r['out_dtypes'][n]}"
        if not e <= 1e-12:
            return False, (f"x64 enabled after `import exponax`: one {n} step (D={D}, N={N}) of a single Fourier mode deviates from the analytic solution "
                           f"by {e:.3e} (allowed 1e-12): part of the computation silently runs in single precision")
    return True, f"late x64 D={D}: errors {r['errs']}"


TESTS = dict(coef=t_coef, stepper=t_stepper, precision=t_precision, stiff_grid=t_stiff, faithful=t_faithful, faithful_late=t_faithful_late)


# ------------------------------------------------------------------------------------------------
def ladder_symbols(rng, extra):
    """z = lambda*dt over the stiffness ladder: negative real axis, both imaginary half axes, left half plane"""
    zs = []
    for m in LADDER:
        zs += [complex(-m, 0), complex(0, m), complex(0, -m), complex(-m, m), complex(-0.3 * m, -m), complex(-m, 1e-3 * m)]
    for _ in range(extra):
        m = 10.0 ** rng.uniform(-9, 15)
        th = rng.uniform(np.pi / 2, 3 * np.pi / 2)
        zs.append(complex(m * np.cos(th), m * np.sin(th)) if rng.random() < 0.7 else complex(-m, 0))
    zs += [complex(0, 2 * np.pi * j) for j in (1, -1, 3, 2)] + [complex(0, 2 * np.pi * 3 * (1 + 1e-7))]     # exp(z) = 1, exp(z/2) = -1 with z != 0
    zs = [complex(min(z.real, 0.0), z.imag) for z in zs]          # Re z <= 0 exactly
    out, seen = [], set()
    for z in zs:
        if z not in seen:
            seen.add(z); out.append([z.real, z.imag])
    return out


def variants(name):
    """constructor keyword variants swept for a class"""
    if name == "GeneralVorticityConvectionStepper":
        return [{}, {"injection_scale": 1.0}]
    if name == "GrayScott":
        return [{}, {"feed_rate": 0.0}]
    return [{}]


def plan(ctx):
    """list of (test, params) of the witness"""
    out = []
    deep = ctx.deep
    zs = ladder_symbols(ctx.rng, 40 if deep else 8)
    for p in (0, 1, 2, 3, 4):
        for dt in ((1.0, 0.01, 10.0, 0.37) if deep else (1.0, 0.01)):
            out.append(("coef", dict(p=p, dt=dt, zs=zs)))
    for D, N in ((1, 48), (2, 24)) + (((3, 12),) if deep else ()):
        out.append(("faithful_late", dict(D=D, N=N, L=2.0, dt=0.1, mode=3)))
    for D, N in ((1, 48), (2, 24), (3, 12)):
        out.append(("faithful", dict(D=D, N=N, L=1.0, dt=0.1, mode=3)))
        for _ in range(3 if deep else 1):
            out.append(("faithful", dict(D=D, N=N, L=float(np.round(ctx.rng.uniform(1.0, 9.0), 3)), dt=float(ctx.rng.choice([0.01, 0.05, 0.2])),
                                         mode=int(ctx.rng.integers(1, N // 4 + 1)))))
    names = sorted(registry.classes())
    if deep:
        sel = [(n, D, None) for n in names for D in registry.dims(n)]
    else:
        third = names[ctx.seed % 3::3]
        sel = [(n, registry.dims(n)[0], None) for n in third]                                  # all orders in the first admissible D
        have = {(n, D) for n, D, _ in sel}
        sel += [(n, D, (0, 2, 4)) for n in CORE for D in registry.dims(n)[:2] if (n, D) not in have]
        have = {(n, D) for n, D, _ in sel}
        sel += [(n, registry.dims(n)[1], (2,)) for n in third if len(registry.dims(n)) > 1 and (n, registry.dims(n)[1]) not in have]
        sel += [("Burgers", 3, (2, 4))]
    seeds = [ctx.seed] if not deep else [ctx.seed, ctx.seed + 1]
    for name, D, only in sel:
        for kw in variants(name):
            for order in etdrk_orders(name):
                if only is not None and order is not None and order not in only:
                    continue
                for sd in seeds:
                    params = dict(cls=name, D=D, N=NS[D], order=order, kw=kw, dt=0.01, L=3.0, seed=sd)
                    out.append(("stepper", params))
                    out.append(("precision", params))
    # very large and very small domains (tiny / huge derivative symbols): guards written with a precision-dependent tolerance and scale-dependent
    # cancellations show as a float32 / float64 disagreement there
    for name, D in (("NavierStokesVorticity", 2), ("KolmogorovFlowVorticity", 2), ("Burgers", 1), ("NavierStokesVelocity", 3)) if not deep else \
            (("NavierStokesVorticity", 2), ("KolmogorovFlowVorticity", 2), ("Burgers", 1), ("NavierStokesVelocity", 3), ("KuramotoSivashinsky", 2), ("Wave", 2)):
        for Lx in (5e4, 1e-2):
            if Lx < 1 and name in ("KuramotoSivashinsky", "Wave"):
                # on a tiny domain these two are ill conditioned in ANY precision (phase c |k| dt ~ 1e2 rad for Wave, a gradient-norm term
                # ~ (2 pi / L)^2 for KS): single-precision rounding is amplified by |lambda dt|, which the bound below does not model
                continue
            params = dict(cls=name, D=D, N=NS[D] if D < 3 else 8, order=2 if registry.has_order(name) else None, kw=variants(name)[0], dt=0.01, L=Lx, seed=ctx.seed)
            out.append(("precision", params))
    # "round" symbols on a real grid: Burgers on L = 2 pi has integer wavenumbers, nu k^2 dt = 1 exactly for some resolved k
    for nu, dt in ((1.0, 0.25), (0.25, 1.0), (1.0, 1.0)) if deep else ((1.0, 0.25),):
        for order in (1, 2, 3, 4):
            out.append(("stepper", dict(cls="Burgers", D=1, N=32, order=order, kw={"diffusivity": nu}, dt=dt, L=float(2 * np.pi), seed=ctx.seed)))
    # stiff grids: large dt, fine N
    stiff = [("Diffusion", {}), ("HyperDiffusion", {}), ("Burgers", {}), ("KuramotoSivashinsky", {})]
    if deep:
        # (CahnHilliard is left out on purpose: its linear part has growing modes, exp(z) with Re z = nu k^2 dt > 88 overflows float32)
        stiff += [("KortewegDeVries", {}), ("SwiftHohenberg", {}), ("NavierStokesVorticity", {})]
    for name, kw in stiff:
        grids = [(registry.dims(name)[0], 256 if registry.dims(name)[0] == 1 else 64, 10.0, 1.0)]
        if deep and 2 in registry.dims(name) and registry.dims(name)[0] == 1:
            grids.append((2, 64, 10.0, 1.0))
        if deep:
            grids.append((registry.dims(name)[0], 512 if registry.dims(name)[0] == 1 else 96, 100.0, 0.5))
        for D, N, dt, L in grids:
            for order in etdrk_orders(name):
                if not deep and order in (1, 3):
                    continue
                out.append(("stiff_grid", dict(cls=name, D=D, N=N, order=order, kw=kw, dt=dt, L=L, seed=ctx.seed)))
    return out


def prefetch(tests, par):
    cases = []
    for t, p in tests:
        if t == "coef":
            cases.append(coef_case(**p))
        elif t == "faithful":
            cases.append(analytic_case(**p))
        elif t == "faithful_late":
            continue
        elif t in ("stepper", "precision"):
            cases.append(step_case(stiff=False, **p))
        else:
            cases.append(step_case(stiff=True, **p))
    run_sessions(cases, par=par)


def witness(ctx):
    tests = plan(ctx)
    try:
        prefetch(tests, par=4 if ctx.deep else 3)
    except Exception as e:          # fall back to per-test spawning: every test then reports its own failure
        ctx.notes.append(f"batch prefetch failed ({type(e).__name__}: {e}); tests spawn their sessions individually")
    for t, p in tests:
        ctx.count("witness_" + t)
        ctx.check(t, p)


# ------------------------------------------------------------------------------------------------
# correspondence: extracted model (exact Gaussian rationals) vs the real code (x64, main process)
def _ex():
    import jax
    jax.config.update("jax_enable_x64", True)
    import jax.numpy as jnp
    import exponax as ex
    return ex, jnp


def correspond(ctx):
    ex, jnp = _ex()
    rng = ctx.rng
    ident = lambda u: u
    # (a) numerator form of ETDRK/Contour.v vs the implementation with a single contour point (lr = z + r*root_1)
    cases, meta = [], []
    nz = 10 if ctx.quick else 60
    zs = [complex(a, b) for a, b in zip(rng.integers(-40, 9, nz) / 8.0, rng.integers(-32, 33, nz) / 8.0)]
    zs += [complex(-3.0, 0), complex(-0.125, 0), complex(0, 2.0), complex(0, -0.75), complex(0, 0)]
    dt = 0.375
    root1 = complex(np.asarray(ex.etdrk._utils.roots_of_unity(1))[0])
    for p in (1, 2, 3, 4):
        for r in ((1.0,) if ctx.quick else (1.0, 0.5)):
            zz = np.asarray(zs)
            lam = zz / dt
            zp = lam * dt
            integ = getattr(ex.etdrk, f"ETDRK{p}")(dt, jnp.asarray(lam)[None, :], ident, num_circle_points=1, circle_radius=r)
            for j in COEFS[p]:
                impl = np.asarray(getattr(integ, f"_coef_{j}"))[0]
                for i, z in enumerate(zp):
                    lr = r * root1 + z
                    e, eh = np.exp(lr), np.exp(lr / 2)
                    cases.append((1901, [p, j, dt, 0.0, lr.real, lr.imag, e.real, e.imag, eh.real, eh.imag]))
                    meta.append((dict(suite="numerator_form", p=p, j=j, r=r, z=[z.real, z.imag]), impl[i]))
    res = core.run_model(cases)
    for (desc, impl), mres in zip(meta, res):
        ctx.case(desc)
        ctx.count("numerator_form_p%d" % desc["p"])
        m = core.to_cx(mres)[0]
        if not (np.isfinite(impl) and abs(impl - m) <= 1e-11 * (dt + abs(m))):
            ctx.disagree("c19:numerator_form", desc, m, impl)
    # (b) the zero state under a forced nonlinearity N(u) = f + u*u + roll(u, -1): forced_p formulas vs step_fourier(0)
    cases, meta = [], []
    n = 5
    for p in (1, 2, 3, 4):
        for rep in range(2 if ctx.quick else 8):
            lam_s = (rng.uniform(-3, 0.5, n) + 1j * rng.uniform(-3, 3, n)) * rng.choice([0, 1, 1, 1], n)
            dts = float(rng.choice([0.125, 0.5, 1.0]))
            f = (rng.integers(-8, 9, n) + 1j * rng.integers(-8, 9, n)) / 8.0
            if rep == 0:
                f = f * 0          # unforced: the model returns exactly zero, and so must the code
            fj = jnp.asarray(f)[None, :]
            nl = lambda u, fj=fj: fj + u * u + jnp.roll(u, -1, axis=-1)
            integ = getattr(ex.etdrk, f"ETDRK{p}")(dts, jnp.asarray(lam_s)[None, :], nl)
            arrs = [np.asarray(integ._exp_term)[0]]
            if p >= 3:
                arrs.append(np.asarray(integ._half_exp_term)[0])
            for j in COEFS[p]:
                arrs.append(np.asarray(getattr(integ, f"_coef_{j}"))[0].astype(complex))
            arrs.append(f)
            args = [p, n]
            for a in arrs:
                args += core.cx_args(a)
            cases.append((1902, args))
            impl = np.asarray(integ.step_fourier(jnp.zeros((1, n), dtype=complex)))[0]
            meta.append((dict(suite="zero_state", p=p, dt=dts, lam=[[z.real, z.imag] for z in lam_s], f=[[z.real, z.imag] for z in f]), impl))
    res = core.run_model(cases)
    for (desc, impl), mres in zip(meta, res):
        ctx.case(desc)
        ctx.count("zero_state_p%d" % desc["p"])
        m = np.asarray(core.to_cx(mres))
        unforced = not any(any(x) for x in desc["f"])
        if unforced and (np.any(m != 0) or np.any(impl != 0)):
            ctx.disagree("c19:zero_state_unforced", desc, m, impl)
        if not core.close(impl, m, 1e-12):
            ctx.disagree("c19:zero_state", desc, m, impl)
    # (d) the contour points: exp(root_arg i pi j M) of the generated model vs roots_of_unity(M)
    cases, meta = [], []
    for M in (1, 2, 3, 16) if ctx.quick else (1, 2, 3, 4, 8, 16, 32, 64):
        roots = np.asarray(ex.etdrk._utils.roots_of_unity(M))
        for j in range(1, M + 1):
            cases.append((1904, [j, M, float(np.pi)]))
            meta.append((dict(suite="contour_point", M=M, j=j), complex(roots[j - 1])))
    res = core.run_model(cases)
    for (desc, impl), mres in zip(meta, res):
        ctx.case(desc)
        ctx.count("contour_point")
        arg = core.to_cx(mres)[0]
        m = np.exp(arg)
        if not abs(impl - m) <= 1e-14 or abs(abs(impl) - 1) > 1e-14 or abs(impl ** desc["M"] + 1) > 1e-12:
            ctx.disagree("c19:contour_point", desc, m, impl)
    # (c) partial division: the generated integrand is an error exactly where the implementation's coefficient is not finite.
    #     dt = r = 1 and lambda = -root_1 make the single contour point lr = root_1 + lambda exactly 0.
    cases, meta = [], []
    for p in (1, 2, 3, 4):
        lam = np.asarray([-root1, -root1 + 0.5, complex(-1.25, 0.5), -root1 * (1 + 2.0 ** -30)])
        integ = getattr(ex.etdrk, f"ETDRK{p}")(1.0, jnp.asarray(lam)[None, :], ident, num_circle_points=1, circle_radius=1.0)
        for j in COEFS[p]:
            impl = np.asarray(getattr(integ, f"_coef_{j}"))[0]
            for i, l in enumerate(lam):
                lr = 1.0 * root1 + l * 1.0
                e, eh = np.exp(lr), np.exp(lr / 2)
                cases.append((1903, [p, j, lr.real, lr.imag, e.real, e.imag, eh.real, eh.imag]))
                meta.append((dict(suite="partial_division", p=p, j=j, lr=[lr.real, lr.imag]), impl[i], lr))
    res = core.run_model(cases)
    for (desc, impl, lr), mres in zip(meta, res):
        ctx.case(desc)
        ctx.count("partial_division")
        defined = int(mres[0]) == 1
        if defined != bool(np.isfinite(impl)) or defined != (lr != 0):
            ctx.disagree("c19:partial_division", desc, "defined" if defined else "error", impl)
        elif defined and abs(lr) > 1e-3:     # (near lr = 0 the float numerator cancels; the model is exact there, values not compared)
            m = core.to_cx(mres[1:])[0]
            if abs(impl - m) > 1e-11 * (1 + abs(m)):
                ctx.disagree("c19:partial_division_value", desc, m, impl)
