"""C06 worker: runs in a FRESH interpreter so that process-wide caches are empty.
mode 'jit_first': the very first construction of steppers happens inside filter_jit / filter_vmap; afterwards the same steppers are built
eagerly and in other compiled functions (a memoised helper that captured a tracer would now raise or return stale values).
mode 'f32': single precision session; steppers built eagerly, under filter_vmap and inside filter_jit from the same stiff parameters must agree
(a concrete-only double-precision code path would make the eager stepper differ from the traced ones).
Prints one JSON object after the marker."""
import json
import sys

MARK = "@@C06-RESULT@@"


def main(mode):
    import jax
    import jax.numpy as jnp
    import numpy as np
    import equinox as eqx
    import exponax as ex
    out = dict(mode=mode, ok=True, detail="", dtype=str(jnp.zeros(()).dtype))
    rng = np.random.default_rng(3)

    def cmp(a, b, what, tol):
        a, b = np.asarray(a, dtype=np.float64), np.asarray(b, dtype=np.float64)
        d = float(np.max(np.abs(a - b)) / (1e-300 + np.max(np.abs(b))))
        if not np.all(np.isfinite(a)) or d > tol:
            out.update(ok=False, detail=f"{what}: relative deviation {d:.3e} > {tol:g}")
        return d
    try:
        if mode == "jit_first":
            cases = [("Burgers", lambda p: ex.stepper.Burgers(1, 3.0, 16, 0.05, diffusivity=p, order=2), 0.05, 1),
                     ("KortewegDeVries", lambda p: ex.stepper.KortewegDeVries(1, 10.0, 16, 0.02, dispersivity=p, order=4), -1.0, 1),
                     ("FisherKPP", lambda p: ex.stepper.reaction.FisherKPP(2, 3.0, 8, 0.05, reactivity=p, order=3), 0.8, 1)]
            us = {n: jnp.asarray(rng.standard_normal((C,) + ((16,) if "Fisher" not in n else (8, 8))) * 0.3) for n, _, _, C in cases}
            first = {}
            for n, mk, p, C in cases:          # nothing has been built eagerly before this point
                first[n] = np.asarray(eqx.filter_jit(lambda q, w, mk=mk: mk(q)(w))(jnp.asarray(p), us[n]))
            for n, mk, p, C in cases:
                eager = mk(p)(us[n])
                cmp(first[n], eager, f"{n}: stepper built inside filter_jit FIRST vs eager construction afterwards", 1e-11)
                vm = eqx.filter_jit(eqx.filter_vmap(lambda q, mk=mk, n=n: mk(q)(us[n])))(jnp.asarray([p, 1.5 * p]))
                cmp(vm[0], eager, f"{n}: filter_jit(filter_vmap(make)) after an earlier jit construction vs eager", 1e-11)
                again = eqx.filter_jit(lambda q, w, mk=mk: mk(q)(mk(q)(w)))(jnp.asarray(p), us[n])
                cmp(again, mk(p)(mk(p)(us[n])), f"{n}: a second, different compiled function vs eager", 1e-11)
        elif mode == "f32":
            u = jnp.asarray(rng.standard_normal((1, 128)), dtype=jnp.float32)
            cases = [("Dispersion", lambda p: ex.stepper.Dispersion(1, 1.0, 128, 0.01, dispersivity=p), 1.0),
                     ("KortewegDeVries", lambda p: ex.stepper.KortewegDeVries(1, 1.0, 128, 0.01, dispersivity=p, order=2), -1.0),
                     ("Advection", lambda p: ex.stepper.Advection(1, 1.0, 128, 5.0, velocity=p), 300.0)]
            for n, mk, p in cases:
                eager = mk(p)(u)
                vm = eqx.filter_vmap(lambda q, mk=mk: mk(q)(u))(jnp.asarray([p, p], dtype=jnp.float32))[0]
                jt = eqx.filter_jit(lambda q, w, mk=mk: mk(q)(w))(jnp.asarray(p, dtype=jnp.float32), u)
                cmp(vm, eager, f"float32 {n} (stiff): filter_vmap-built vs eager", 2e-5)
                cmp(jt, eager, f"float32 {n} (stiff): filter_jit-built vs eager", 2e-5)
        else:
            out.update(ok=False, detail="unknown mode")
    except Exception as e:
        out.update(ok=False, detail=f"{type(e).__name__}: {str(e)[:300]}")
    return out


if __name__ == "__main__":
    real = sys.stdout
    sys.stdout = sys.stderr
    res = main(sys.argv[1])
    real.write("\n" + MARK + json.dumps(res) + "\n")
    real.flush()
