"""C15 — Fourier interpolation and resolution changes are exact for band-limited states."""
import itertools

import numpy as np

from .. import core, symbols
from ..translate import resample as tr_resample
from ..translate import spectral as tr_spectral

ID = "C15"
PROPS_FILE = "C15"
RULE = ("correspondence: for every (N_old, N_new) pair (all parities, N_new = N_old +- 1..3), D = 1..3, both oddball_zero values: which wavenumber vectors of the new grid receive a copy "
        "(extracted resample_keeps vs the spectrum of map_between_resolutions applied to a state with all-non-zero spectrum) and the value (m/n)^D * old coefficient; get_modes_slices index sets "
        "(shared with C04); witness: FourierInterpolator reproduces every state at its grid points (white noise, even N with Nyquist content), returns the analytic value of Nyquist-free "
        "trigonometric polynomials at arbitrary points inside and outside the domain, map_between_resolutions up/down/round trip exact on such polynomials, mean preserved for every state. "
        "Non-trivial: all cases; distinct by input hash.")
TRUSTED_EXTRA = ["harness/translate/resample.py (map_between_resolutions: array statements compared as text, decisions translated) and harness/translate/spectral.py (its callees)"]
ASSUMPTIONS = ["rfftn/irfftn of C04; the real-valued half-spectrum form of the interpolant (reconstruction weights) is checked numerically, the theorem is the full-spectrum statement"]


def translate(ctx):
    """Gen/ResampleGen.v (decisions of map_between_resolutions, theorem C15_code_resampling_decisions_are_model) and
    Gen/SpectralGen.v (its callees); both are always attempted"""
    errors = []
    for name, tr in (("resample", tr_resample), ("spectral", tr_spectral)):
        try:
            tr.run()
        except Exception as e:
            errors.append(f"{name}: {type(e).__name__}: {e}")
    if errors:
        raise RuntimeError("; ".join(errors))


def _ex():
    import jax
    jax.config.update("jax_enable_x64", True)
    import jax.numpy as jnp
    import exponax as ex
    return ex, jnp


# resolution changes with an integer ratio (a strided shortcut would be exact on coarse-band-limited states only)
INTEGER_RATIO = [(1, 12, 6), (1, 12, 4), (1, 9, 3), (1, 15, 5), (2, 8, 4), (2, 9, 3), (1, 6, 12), (1, 5, 15), (2, 4, 8), (3, 6, 3), (1, 16, 8), (2, 6, 3), (2, 3, 9)]


def correspond(ctx):
    ex, jnp = _ex()
    rng = ctx.rng
    cases, meta = [], []
    if ctx.quick:
        pairs = [(1, 6, 9), (1, 9, 6), (1, 7, 8), (1, 8, 7), (2, 4, 6), (2, 6, 4), (2, 5, 6), (2, 6, 5), (2, 5, 7), (3, 4, 5), (3, 5, 4)] + INTEGER_RATIO[:6]
    else:
        pairs = [(1, a, b) for a in range(3, 13) for b in range(3, 13) if 0 < abs(a - b) <= 3] + \
                [(2, a, b) for a in range(3, 10) for b in range(3, 10) if 0 < abs(a - b) <= 3] + \
                [(3, a, b) for a in range(3, 7) for b in range(3, 7) if 0 < abs(a - b) <= 2] + INTEGER_RATIO
    for D, n, m in pairs:
        for ob in (True, False):
            u = rng.standard_normal((1,) + (n,) * D) + 0.5
            new = np.asarray(ex.map_between_resolutions(jnp.asarray(u), m, oddball_zero=ob))
            oh = np.fft.fftn(u[0]); nh = np.fft.fftn(new[0])
            for idx, k in symbols.wavenumbers(D, m):
                selfconj = all((2 * kk) % m == 0 for kk in k)
                nyq_new = m % 2 == 0 and any(abs(kk) == m // 2 for kk in k)
                nyq_old = n % 2 == 0 and any(abs(kk) == n // 2 for kk in k)
                if (nyq_new or nyq_old) and not ob:
                    continue        # with oddball_zero=False a Nyquist entry is copied one-sidedly and then passes through irfftn (Hermitian symmetrisation): not a plain copy
                cases.append((410, [n, m, ob] + list(k)))
                kept_val = nh[tuple(kk % m for kk in k)]
                inside_old = all(-(n // 2) <= kk <= (n - 1) // 2 or (n % 2 == 0 and kk == n // 2) for kk in k)
                old_val = oh[tuple(kk % n for kk in k)] if all(-(n // 2) <= kk <= n // 2 for kk in k) else 0.0
                meta.append((dict(D=D, n=n, m=m, oddball=ob, k=k), kept_val, old_val))
    res = core.run_model(cases)
    for (desc, got, old), mres in zip(meta, res):
        ctx.case(desc, nontrivial=True)
        ctx.count("keeps_D%d" % desc["D"])
        keep = bool(mres[0])
        exp = (desc["m"] / desc["n"]) ** desc["D"] * old if keep else 0.0
        n, k = desc["n"], desc["k"]
        # a copied Nyquist row of an even OLD grid (oddball_zero False, upsampling) carries the old stored value, which for the
        # leading-axis entry -n/2 is the same complex number as at +n/2: handled by indexing modulo n above
        if abs(got - exp) > 1e-10 * (1 + abs(exp)):
            ctx.disagree("c15:resample", desc, ("kept" if keep else "zero", exp), complex(got))


# --------------------------------------------------------------------------------------------------
def trig_poly(D, N, C, rng, nmodes=5):
    kmax = (N - 1) // 2
    allm = [k for k in itertools.product(range(-kmax, kmax + 1), repeat=D)]
    return [[(allm[i], complex(rng.standard_normal(), rng.standard_normal())) for i in rng.choice(len(allm), size=min(nmodes, len(allm)), replace=False)] for _ in range(C)]


def eval_poly(poly, x, L):
    out = []
    for ch in poly:
        u = 0.0
        for m, c in ch:
            u = u + np.real(c * np.exp(1j * sum(2 * np.pi * m[d] / L * x[d] for d in range(len(m)))))
        out.append(u + 0 * x[0])
    return np.stack(out)


def t_interp_grid(D, N, C, L, seed, xy=False):
    """the interpolant reproduces EVERY state at its own grid points (white noise, Nyquist content included)"""
    ex, jnp = _ex()
    import jax
    u = np.random.default_rng(seed).standard_normal((C,) + (N,) * D)
    ix = "xy" if xy else "ij"
    interp = ex.FourierInterpolator(jnp.asarray(u), domain_extent=L, indexing=ix)
    g = np.asarray(ex.make_grid(D, L, N, indexing=ix))
    pts = g.reshape(D, -1).T
    vals = np.asarray(jax.vmap(interp)(jnp.asarray(pts)))          # (npts, C)
    exp = u.reshape(C, -1).T
    err = np.max(np.abs(vals - exp))
    return err < 1e-10, f"FourierInterpolator at grid points D={D} N={N} C={C} indexing={ix}: max error {err:.3e}"


def t_interp_exact(D, N, C, L, seed):
    ex, jnp = _ex()
    import jax
    rng = np.random.default_rng(seed)
    poly = trig_poly(D, N, C, rng)
    g = np.asarray(ex.make_grid(D, L, N))
    u = eval_poly(poly, g, L)
    interp = ex.FourierInterpolator(jnp.asarray(u), domain_extent=L)
    pts = rng.uniform(-1.5 * L, 2.5 * L, (12, D))
    vals = np.asarray(jax.vmap(interp)(jnp.asarray(pts)))
    exp = np.stack([eval_poly(poly, p.reshape(D, *([1] * D)), L).reshape(C) for p in pts])
    err = np.max(np.abs(vals - exp)) / (1 + np.max(np.abs(exp)))
    return err < 1e-10, f"FourierInterpolator of a Nyquist-free trigonometric polynomial at arbitrary points D={D} N={N}: error {err:.3e}"


def t_resolution(D, n, m, C, seed):
    ex, jnp = _ex()
    rng = np.random.default_rng(seed)
    L = 2.3
    poly = trig_poly(D, min(n, m), C, rng)
    un = eval_poly(poly, np.asarray(ex.make_grid(D, L, n)), L)
    um = eval_poly(poly, np.asarray(ex.make_grid(D, L, m)), L)
    got = np.asarray(ex.map_between_resolutions(jnp.asarray(un), m))
    back = np.asarray(ex.map_between_resolutions(jnp.asarray(got), n))
    e1 = np.max(np.abs(got - um)); e2 = np.max(np.abs(back - un))
    w = rng.standard_normal((C,) + (n,) * D) + 0.7
    wm = np.asarray(ex.map_between_resolutions(jnp.asarray(w), m))
    e3 = np.max(np.abs(wm.mean(axis=tuple(range(1, D + 1))) - w.mean(axis=tuple(range(1, D + 1)))))
    ok = max(e1, e2, e3) < 1e-10
    return ok, f"map_between_resolutions D={D} {n}->{m}: sampled function error {e1:.2e}, round trip {e2:.2e}, mean of white noise {e3:.2e}"


TESTS = dict(interp_grid=t_interp_grid, interp_exact=t_interp_exact, resolution=t_resolution)


def witness(ctx):
    deep = ctx.deep
    for D, N in ([(1, 8), (1, 9), (2, 6), (2, 7), (3, 4), (3, 5)] if not deep else [(1, 8), (1, 9), (1, 16), (2, 6), (2, 7), (2, 10), (3, 4), (3, 5), (3, 6)]):
        for C in (1, 2):
            ctx.check("interp_grid", dict(D=D, N=N, C=C, L=1.7, seed=ctx.seed))
            ctx.check("interp_exact", dict(D=D, N=N, C=C, L=1.7, seed=ctx.seed))
        if D >= 2:
            ctx.check("interp_grid", dict(D=D, N=N, C=1, L=1.7, seed=ctx.seed, xy=True))
    rng = ctx.rng
    pairs = [(1, 11, 12), (1, 12, 11), (1, 8, 13), (1, 13, 8), (2, 5, 6), (2, 6, 5), (2, 7, 9), (2, 8, 6), (3, 4, 5), (3, 5, 4)]
    pairs += INTEGER_RATIO[:7] if not deep else INTEGER_RATIO
    if deep:
        pairs += [(1, a, b) for a in range(3, 13) for b in range(3, 13) if 0 < abs(a - b) <= 3] + [(2, a, b) for a in range(3, 9) for b in range(3, 9) if 0 < abs(a - b) <= 2]
    for D, n, m in pairs:
        ctx.check("resolution", dict(D=D, n=n, m=m, C=2, seed=ctx.seed))
