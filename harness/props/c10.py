"""C10 — incompressibility is enforced and preserved."""
import itertools
from fractions import Fraction

import numpy as np

from .. import core, symbols
from ..translate import etdrk as tr_etdrk
from ..translate import linops as tr_linops
from ..translate import nonlin as tr_nonlin

ID = "C10"
PROPS_FILE = "C10"
RULE = ("correspondence (exact rationals): the Leray projection (nonlin_fun.Leray) applied to a random spectrum and make_incompressible applied to a random Nyquist-free field vs the extracted "
        "leray_mode / make_incompressible_mode at every stored mode, D = 2, 3; witness: zero spectral divergence, idempotence, invariance of divergence-free fields, agreement of the two routines "
        "for several L, the 3D projected convection term is divergence free for white noise, NavierStokesVelocity / KolmogorovFlowVelocity keep divergence-free states divergence free over rollouts "
        "for orders 0-4 and several domain extents (incl. large L). Non-trivial: non-mean modes; distinct by input hash.")
TRUSTED_EXTRA = ["harness/translate/linops.py (make_incompressible: kinds / broadcasting reading of the arithmetic between fft and ifft) and harness/translate/etdrk.py (stage programs)"]
ASSUMPTIONS = ["rfftn/irfftn of C04; Nyquist-free fields for the physical-space routine"]


def translate(ctx):
    """Gen/ETDRK.v (stage programs) and Gen/LinOps.v + Gen/OperatorsGen.v (make_incompressible, tied by C10_code_make_incompressible_is_model); and Gen/NonlinFuns.v (ProjectedConvection3d, theorem
    C10_code_projected_convection_is_divergence_free); all are always attempted"""
    errors = []
    for name, fn in (("etdrk", tr_etdrk.run), ("linops", tr_linops.run), ("make_incompressible", lambda: tr_linops.run_operators(require=("make_incompressible",))),
                     ("nonlin", tr_nonlin.run)):
        try:
            fn()
        except Exception as e:
            errors.append(f"{name}: {type(e).__name__}: {e}")
    if errors:
        raise RuntimeError("; ".join(errors))


def _ex():
    import jax
    jax.config.update("jax_enable_x64", True)
    import jax.numpy as jnp
    import exponax as ex
    return ex, jnp


def nyqfree(a, D, N):
    ah = np.fft.fftn(a, axes=tuple(range(1, D + 1)))
    if N % 2 == 0:
        for ax in range(1, D + 1):
            sl = [slice(None)] * (D + 1); sl[ax] = N // 2
            ah[tuple(sl)] = 0
    return np.real(np.fft.ifftn(ah, axes=tuple(range(1, D + 1))))


def divergence_hat(u_hat, D, L, N):
    ex, jnp = _ex()
    dop = np.asarray(ex.spectral.build_derivative_operator(D, L, N))
    return np.sum(dop * np.asarray(u_hat), axis=0)


def correspond(ctx):
    ex, jnp = _ex()
    rng = ctx.rng
    cases, meta = [], []
    for D, N in ([(2, 5), (2, 6), (3, 4)] if ctx.quick else [(2, 5), (2, 6), (2, 9), (3, 4), (3, 5), (3, 6)]):
        for q in ((Fraction(3, 4),) if ctx.quick else (Fraction(3, 4), Fraction(4, 1), Fraction(1, 8))):
            L = 2 * np.pi * float(q)
            dop = ex.spectral.build_derivative_operator(D, L, N)
            shp = (D,) + (N,) * (D - 1) + (N // 2 + 1,)
            u_hat = (rng.integers(-8, 9, shp) + 1j * rng.integers(-8, 9, shp)) / 8.0
            out = np.asarray(ex.nonlin_fun.Leray(D, N, derivative_operator=dop)(jnp.asarray(u_hat)))
            for idx, k in symbols.wavenumbers(D, N):
                args = [0, D, 1 / q, *k]
                for c in range(D):
                    z = u_hat[(c,) + idx]; args += [z.real, z.imag]
                cases.append((502, args)); meta.append((dict(op="leray", D=D, N=N, q=str(q), k=k), out[(slice(None),) + idx]))
            # make_incompressible works in physical space with L = 1 internally: compare its spectral action
            v = nyqfree(rng.standard_normal((D,) + (N,) * D), D, N)
            w = np.asarray(ex.spectral.make_incompressible(jnp.asarray(v)))
            vh, wh = np.asarray(ex.fft(jnp.asarray(v))), np.asarray(ex.fft(jnp.asarray(w)))
            for idx, k in symbols.wavenumbers(D, N):
                if N % 2 == 0 and any(abs(kk) == N // 2 for kk in k):
                    continue
                args = [1, D, 1, *k]          # 2 pi / L with L = 2 pi q, q = 1 is not what the code uses (L = 1): the projection is L-independent
                for c in range(D):
                    z = vh[(c,) + idx]; args += [z.real, z.imag]
                cases.append((502, args)); meta.append((dict(op="make_incompressible", D=D, N=N, k=k), wh[(slice(None),) + idx]))
    res = core.run_model(cases)
    for (desc, impl), mres in zip(meta, res):
        ctx.case(desc, nontrivial=any(desc["k"]))
        ctx.count(desc["op"])
        m = np.asarray(core.to_cx(mres))
        if not core.close(np.asarray(impl), m, 1e-11):
            ctx.disagree("c10:" + desc["op"], desc, m, impl)


# ------------------------------------------------------------------------------------------------
def t_projection(D, N, L, seed, amp=1.0, mean=0.0):
    """amp: amplitude of the field (the projection is linear: tiny fields are projected like O(1) fields); mean: a uniform background flow is
    divergence-free and must survive the projection"""
    ex, jnp = _ex()
    rng = np.random.default_rng(seed)
    v = amp * (nyqfree(rng.standard_normal((D,) + (N,) * D), D, N) + mean * np.arange(1, D + 1).reshape((D,) + (1,) * D))
    dop = ex.spectral.build_derivative_operator(D, L, N)
    ler = ex.nonlin_fun.Leray(D, N, derivative_operator=dop)
    vh = ex.fft(jnp.asarray(v))
    ph = ler(vh)
    scale = np.max(np.abs(np.asarray(dop))) * np.max(np.abs(np.asarray(vh)))
    div = np.max(np.abs(divergence_hat(ph, D, L, N))) / scale
    idem = np.max(np.abs(np.asarray(ler(ph)) - np.asarray(ph))) / np.max(np.abs(np.asarray(vh)))
    w = np.asarray(ex.spectral.make_incompressible(jnp.asarray(v)))
    agree = np.max(np.abs(np.asarray(ex.fft(jnp.asarray(w))) - np.asarray(ph))) / np.max(np.abs(np.asarray(vh)))
    w2 = np.asarray(ex.spectral.make_incompressible(jnp.asarray(w)))
    fix = np.max(np.abs(w2 - w)) / np.max(np.abs(v))
    divw = np.max(np.abs(divergence_hat(ex.fft(jnp.asarray(w)), D, L, N))) / scale
    # a uniform flow plus a divergence-free part is unchanged; the mean of every component is kept
    mk = np.max(np.abs(w.mean(axis=tuple(range(1, D + 1))) - v.mean(axis=tuple(range(1, D + 1))))) / np.max(np.abs(v))
    ok = max(div, idem, agree, fix, divw, mk) < 1e-10
    return ok, f"D={D} N={N} L={L} amp={amp} mean={mean}: mean kept={mk:.1e} div(Leray)={div:.1e} idempotence={idem:.1e} make_incompressible vs Leray={agree:.1e} fixes div-free={fix:.1e} div(make_incompressible)={divw:.1e}"


def t_convection_div_free(N, L, seed, kolmogorov, frac=2 / 3):
    ex, jnp = _ex()
    rng = np.random.default_rng(seed)
    dop = ex.spectral.build_derivative_operator(3, L, N)
    if kolmogorov:
        nl = ex.nonlin_fun.ProjectedConvection3dKolmogorov(3, N, derivative_operator=dop, dealiasing_fraction=frac, injection_mode=1, injection_scale=0.7)
    else:
        nl = ex.nonlin_fun.ProjectedConvection3d(3, N, derivative_operator=dop, dealiasing_fraction=frac)
    uh = ex.fft(jnp.asarray(rng.standard_normal((3,) + (N,) * 3)))
    out = nl(uh)
    div = np.max(np.abs(divergence_hat(out, 3, L, N))) / (1e-300 + np.max(np.abs(np.asarray(dop))) * max(1.0, np.max(np.abs(np.asarray(out)))))
    return div < 1e-10, f"projected convection (kolmogorov={kolmogorov}) N={N} L={L}: relative divergence {div:.2e}"


def t_stepper_preserves(cls, N, L, order, steps, seed, frac=2 / 3):
    ex, jnp = _ex()
    rng = np.random.default_rng(seed)
    kw = dict(order=order, diffusivity=0.02, drag=-0.05, dealiasing_fraction=frac)
    if cls == "KolmogorovFlowVelocity":
        s = ex.stepper.KolmogorovFlowVelocity(3, L, N, 0.05, injection_mode=1, injection_scale=0.5, **kw)
    else:
        s = ex.stepper.NavierStokesVelocity(3, L, N, 0.05, **kw)
    u = jnp.asarray(np.asarray(ex.spectral.make_incompressible(jnp.asarray(nyqfree(rng.standard_normal((3,) + (N,) * 3), 3, N)))))
    worst = 0.0
    for _ in range(steps):
        u = s(u)
        uh = ex.fft(u)
        dop = np.asarray(ex.spectral.build_derivative_operator(3, L, N))
        worst = max(worst, np.max(np.abs(divergence_hat(uh, 3, L, N))) / (np.max(np.abs(dop)) * max(1e-300, np.max(np.abs(np.asarray(uh))))))
    return worst < 1e-10, f"{cls} order {order} N={N} L={L} dealiasing_fraction={frac}: relative divergence after {steps} steps {worst:.2e}"


TESTS = dict(projection=t_projection, convection_div_free=t_convection_div_free, stepper_preserves=t_stepper_preserves)


def witness(ctx):
    deep = ctx.deep
    for D, N in ([(2, 7), (2, 8), (3, 5), (3, 6)] if not deep else [(2, 7), (2, 8), (2, 9), (2, 15), (3, 5), (3, 6), (3, 7)]):
        for L in (1.0, 2 * np.pi, 20.0):
            ctx.check("projection", dict(D=D, N=N, L=L, seed=ctx.seed))
        ctx.check("projection", dict(D=D, N=N, L=3.0, seed=ctx.seed + 1, amp=1e-9, mean=0.0))
        ctx.check("projection", dict(D=D, N=N, L=3.0, seed=ctx.seed + 2, amp=1.0, mean=0.7))
        ctx.check("projection", dict(D=D, N=N, L=1.0, seed=ctx.seed + 3, amp=1e6, mean=-1.3))
    for N in ((6, 7) if not deep else (6, 7, 8, 9)):
        for L in (1.0, 20.0):
            for ko in (False, True):
                ctx.check("convection_div_free", dict(N=N, L=L, seed=ctx.seed, kolmogorov=ko))
    for cls in ("NavierStokesVelocity", "KolmogorovFlowVelocity"):
        for order in ((2, 4) if not deep else (0, 1, 2, 3, 4)):
            for (N, L) in ([(6, 2 * np.pi), (7, 20.0)] if not deep else [(6, 2 * np.pi), (7, 20.0), (8, 1.0)]):
                ctx.check("stepper_preserves", dict(cls=cls, N=N, L=L, order=order, steps=3 if not deep else 8, seed=ctx.seed))
        # non-default dealiasing fractions (1.0 keeps everything below Nyquist; the Nyquist planes of an even grid must still be removed)
        for frac in (1.0, 0.5):
            for N in ((8, 7) if not deep else (6, 7, 8, 10)):
                ctx.check("stepper_preserves", dict(cls=cls, N=N, L=3.0, order=2 if N % 2 == 0 else 3, steps=2, seed=ctx.seed, frac=frac))
    for N in (6, 8):
        ctx.check("convection_div_free", dict(N=N, L=3.0, seed=ctx.seed, kolmogorov=False, frac=1.0))
