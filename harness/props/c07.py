"""C07 — steppers are differentiable with correct derivatives (partial: the algebra is proved, JAX's AD is checked on the real code)."""
import inspect
import itertools
from fractions import Fraction

import numpy as np

from .. import core, registry
from . import c03

ID = "C07"
PROPS_FILE = "C07"
RULE = ("correspondence: the extracted model run on DUAL NUMBERS over the Gaussian rationals (exact derivative) vs jax.jvp of the real code on the same inputs: "
        "(i) d/dcoefficients of _build_linear_operator of every coefficient-carrying stepper class, built inside the differentiated function, at every stored mode "
        "(L = 2 pi q so that the model is exact-rational; random dyadic coefficient values and tangent direction); (ii) jvp of every built-in nonlinear function "
        "w.r.t. the state (random real state and tangent) and its scale parameters vs the dual evaluation of the same term model on the retained band. "
        "witness (real code, float64): for every exported stepper class, orders 0-4, D=1..3: jax.jvp w.r.t. the state vs central differences (h=1e-5, error <= 1e-6 of the tangent norm, "
        "h^2 convergence between two step sizes), vjp-vs-jvp dot test (1e-10), Jacobian = step for the linear classes, finiteness at generic / zero / constant / single-harmonic states, "
        "the same through ex.rollout(.,3), ex.repeat(.,3) and RepeatedStepper; derivative w.r.t. dt and every float coefficient argument (stepper built inside the differentiated function; "
        "forward mode per entry via jax.linearize, jax.jvp in a sensitivity-balanced joint direction vs central differences, reverse mode per entry vs forward mode), also at coefficient values "
        "where the linear symbol vanishes exactly at some mode. Non-trivial: non-constant tangent directions; distinct by input hash.")
ASSUMPTIONS = ["forward-mode AD of a program built from + - * / exp and constants is dual-number evaluation (product/quotient/chain rule); reverse mode is its transpose",
               "central differences in float64: truncation O(h^2), rounding O(1e-16/h); derivatives w.r.t. domain_extent are not part of the property",
               "rfftn(irfftn U * irfftn V) = N^-D circular convolution (C03); polynomial terms of degree > 3 are not modelled"]
TRUSTED_EXTRA = ["jax.jvp / jax.vjp / jax.linearize / jax.grad themselves (their rules are exercised, not proved)"]

SKIP_ARGS = {"order", "num_circle_points", "dealiasing_fraction", "injection_mode", "maximum_absolute", "circle_radius",
             "num_spatial_dims", "num_points", "domain_extent", "dt"}
NS = {1: 12, 2: 6, 3: 6}
# classes whose coefficients may be a scalar OR a per-axis array / matrix: the witness differentiates w.r.t. the scalar form
# (a traced 0-d value; rejected before the F8 repair by an isinstance(x, float) guard), the symbol correspondence uses the array forms.
SCALAR_OR_ARRAY = [("Advection", "velocity"), ("Diffusion", "diffusivity"), ("AdvectionDiffusion", "velocity"),
                   ("AdvectionDiffusion", "diffusivity"), ("Dispersion", "dispersivity")]


def _ex():
    import jax
    jax.config.update("jax_enable_x64", True)
    import jax.numpy as jnp
    import exponax as ex
    return ex, jax, jnp


# ======================================================================================================
# correspondence (i): d symbol / d coefficients
def sym_builders(D, rng):
    """(name, model class code, model parameter list, differentiable positions, builder(params list -> stepper), channel)"""
    ex, jax, jnp = _ex()
    import exponax.stepper.generic as G
    S, R = ex.stepper, ex.stepper.reaction
    dy = lambda lo=-2.0, hi=2.0: float(rng.integers(int(lo * 8), int(hi * 8) + 1)) / 8
    v = [dy() for _ in range(D)]
    B = rng.integers(-3, 4, size=(D, D)) / 4.0
    A = list((B @ B.T + np.eye(D) * 0.25).reshape(-1))
    nu, mu, xi, c1, gam, r, kc, drag = abs(dy()) + 0.125, abs(dy()) / 8, dy(), dy(), abs(dy()) / 4, dy(), abs(dy()), dy() / 4
    s2, s4 = dy(), abs(dy())
    out = []

    def add(name, code, params, diff, build, ch=0):
        out.append((name, code, [float(x) if not isinstance(x, bool) else x for x in params], diff, build, ch))

    def vec(p, i, n):
        return jnp.stack([p[j] for j in range(i, i + n)])

    def mat(p, i):
        return jnp.stack([jnp.stack([p[i + a * D + b] for b in range(D)]) for a in range(D)])
    add("Advection", 1, v, range(D), lambda p, a: S.Advection(*a, velocity=vec(p, 0, D)))
    add("Diffusion", 2, A, range(D * D), lambda p, a: S.Diffusion(*a, diffusivity=mat(p, 0)))
    add("AdvectionDiffusion", 3, v + A, range(D + D * D), lambda p, a: S.AdvectionDiffusion(*a, velocity=vec(p, 0, D), diffusivity=mat(p, D)))
    for flag in (False, True):
        add(f"Dispersion({flag})", 4, [flag] + v, range(1, D + 1), lambda p, a, flag=flag: S.Dispersion(*a, dispersivity=vec(p, 1, D), advect_on_diffusion=flag))
        add(f"HyperDiffusion({flag})", 5, [flag, mu], [1], lambda p, a, flag=flag: S.HyperDiffusion(*a, hyper_diffusivity=p[1], diffuse_on_diffuse=flag))
    add("Burgers", 6, [nu], [0], lambda p, a: S.Burgers(*a, diffusivity=p[0], order=0))
    for f1, f2 in itertools.product((False, True), repeat=2):
        add(f"KortewegDeVries({f1},{f2})", 7, [f1, f2, nu, xi, mu], [2, 3, 4],
            lambda p, a, f1=f1, f2=f2: S.KortewegDeVries(*a, diffusivity=p[2], dispersivity=p[3], hyper_diffusivity=p[4], advect_over_diffuse=f1, diffuse_over_diffuse=f2, order=0))
    add("KuramotoSivashinsky", 8, [s2, s4], [0, 1], lambda p, a: S.KuramotoSivashinsky(*a, second_order_scale=p[0], fourth_order_scale=p[1], order=0))
    if D == 1:
        add("KuramotoSivashinskyConservative", 8, [s2, s4], [0, 1], lambda p, a: S.KuramotoSivashinskyConservative(*a, second_order_scale=p[0], fourth_order_scale=p[1], order=0))
    if D == 2:
        add("NavierStokesVorticity", 9, [nu, drag], [0, 1], lambda p, a: S.NavierStokesVorticity(*a, diffusivity=p[0], drag=p[1], order=0))
        add("KolmogorovFlowVorticity", 9, [nu, drag], [0, 1], lambda p, a: S.KolmogorovFlowVorticity(*a, diffusivity=p[0], drag=p[1], injection_mode=1, order=0))
        add("GeneralVorticityConvectionStepper", 15, [drag, 0.0, nu], [0, 1, 2], lambda p, a: G.GeneralVorticityConvectionStepper(*a, linear_coefficients=tuple(p), injection_mode=1, order=0))
    if D == 3:
        add("NavierStokesVelocity", 9, [nu, drag], [0, 1], lambda p, a: S.NavierStokesVelocity(*a, diffusivity=p[0], drag=p[1], order=0))
        add("KolmogorovFlowVelocity", 9, [nu, drag], [0, 1], lambda p, a: S.KolmogorovFlowVelocity(*a, diffusivity=p[0], drag=p[1], injection_mode=1, order=0))
    add("AllenCahn", 10, [nu, c1], [0, 1], lambda p, a: R.AllenCahn(*a, diffusivity=p[0], first_order_coefficient=p[1], order=0))
    add("FisherKPP", 11, [nu, r], [0, 1], lambda p, a: R.FisherKPP(*a, diffusivity=p[0], reactivity=p[1], order=0))
    add("CahnHilliard", 12, [nu, gam, c1], [0, 1, 2], lambda p, a: R.CahnHilliard(*a, diffusivity=p[0], gamma=p[1], first_order_coefficient=p[2], order=0))
    for ch in (0, 1):
        add(f"GrayScott[{ch}]", 13, [nu, mu, ch], [0, 1], lambda p, a: R.GrayScott(*a, diffusivity_1=p[0], diffusivity_2=p[1], order=0), ch)
    add("SwiftHohenberg", 14, [r, kc], [0, 1], lambda p, a: R.SwiftHohenberg(*a, reactivity=p[0], critical_number=p[1], order=0))
    coefs = [dy() for _ in range(int(rng.integers(1, 6)))]
    add("GeneralLinearStepper", 15, coefs, range(len(coefs)), lambda p, a: G.GeneralLinearStepper(*a, linear_coefficients=tuple(p)))
    for nm in ("GeneralConvectionStepper", "GeneralGradientNormStepper", "GeneralPolynomialStepper", "GeneralNonlinearStepper"):
        add(nm, 15, coefs, range(len(coefs)), lambda p, a, nm=nm: getattr(G, nm)(*a, linear_coefficients=tuple(p), order=0))
    return out


def correspond_symbols(ctx, D, N, q, half=None):
    ex, jax, jnp = _ex()
    L = 2 * np.pi * float(q)
    dop = ex.spectral.build_derivative_operator(D, L, N)
    modes = c03_modes(D, N)
    model_cases, meta = [], []
    for j, (name, code, params, diff, build, ch) in enumerate(sym_builders(D, ctx.rng)):
        if half is not None and j % 2 != half:
            continue
        diff = list(diff)
        tang = [0.0] * len(params)
        for i in diff:
            tang[i] = float(ctx.rng.integers(-8, 9)) / 4
        if not any(tang):
            tang[diff[0]] = 1.0
        p0 = [jnp.asarray(float(x)) for x in params]
        t0 = [jnp.asarray(float(x)) for x in tang]

        def f(*p):
            lop = build(list(p), (D, L, N, 0.1))._build_linear_operator(dop)
            shape = (lop.shape[0],) + (N,) * (D - 1) + (N // 2 + 1,)
            return jnp.broadcast_to(lop, shape)
        try:
            val, jv = jax.jvp(f, tuple(p0), tuple(t0))
            val, jv = np.asarray(val), np.asarray(jv)
        except Exception as e:
            ctx.disagree("c07:dsymbol", dict(cls=name, D=D, N=N), "differentiable", f"jvp raised {type(e).__name__}: {e}")
            continue
        for idx, k in modes:
            model_cases.append((701, [code, D, Fraction(1) / Fraction(q)] + list(k) + [len(params)] + list(params) + tang))
            meta.append((name, k, val[(ch,) + idx], jv[(ch,) + idx]))
    res = core.run_model(model_cases)
    for (name, k, v_impl, d_impl), mres in zip(meta, res):
        desc = dict(suite="dsymbol", cls=name, D=D, N=N, q=str(q), k=list(k))
        ctx.case(desc, nontrivial=any(k))
        ctx.count(f"dsymbol_D{D}")
        m = core.to_cx(mres)
        ok = len(m) == 2 and np.isfinite(v_impl) and np.isfinite(d_impl) \
            and abs(v_impl - m[0]) <= 1e-10 * (1 + abs(m[0])) and abs(d_impl - m[1]) <= 1e-10 * (1 + abs(m[1]))
        if not ok:
            ctx.disagree("c07:dsymbol", desc, m, [complex(v_impl), complex(d_impl)])


def c03_modes(D, N):
    from .. import symbols
    return symbols.wavenumbers(D, N)


# correspondence (ii): jvp of the nonlinear functions
DTERMS_Q = ["conv_sc_cons", "conv_mc_cons", "conv_sc_noncons", "gradient_norm", "polynomial", "general_nonlinear"]


def term_params(name, rng):
    """(prm dict for c03.make_term, list of the names of the differentiable scalars in model order)"""
    prm = dict(b=float(rng.integers(-12, 13)) / 8 or 0.5, c=[float(x) / 4 for x in rng.integers(-4, 5, 4)],
               bl=[float(x) / 4 for x in rng.integers(-4, 5, 3)], f=0.375, k=0.5)
    return prm


def dterm_case(name, D, N, fkey, seed):
    """model args, implementation (value, jvp) on the stored band, band, stored, nout"""
    ex, jax, jnp = _ex()
    p, qq, frac = c03.FRACS[fkey]
    rng = np.random.default_rng(seed)
    q = Fraction(3, 4)
    L = 2 * np.pi * float(q)
    prm = term_params(name, rng)
    fun, tid, params, C = c03.make_term(name, D, N, L, frac, prm)
    # tangents of the scalar parameters (flags get 0)
    tprm = dict(b=float(rng.integers(-8, 9)) / 4, c=[float(x) / 2 for x in rng.integers(-4, 5, 4)],
                bl=[float(x) / 2 for x in rng.integers(-4, 5, 3)], f=0.5, k=-0.25)
    _, _, tparams, _ = c03.make_term(name, D, N, L, frac, tprm)
    tparams = [0.0 if isinstance(x, bool) else float(x) for x in tparams]
    u = rng.standard_normal((C,) + (N,) * D)
    v = rng.standard_normal((C,) + (N,) * D)
    u_hat, v_hat = ex.fft(jnp.asarray(u)), ex.fft(jnp.asarray(v))

    def f(pr, uh):
        return c03.make_term(name, D, N, L, frac, pr)[0](uh)
    as_j = lambda d: {k: ([jnp.asarray(x) for x in val] if isinstance(val, list) else jnp.asarray(val)) for k, val in d.items()}
    val, jv = jax.jvp(f, (as_j(prm), u_hat), (as_j(tprm), v_hat))
    val, jv = np.asarray(val), np.asarray(jv)
    fullu = np.fft.fftn(u, axes=tuple(range(1, D + 1)))
    fullv = np.fft.fftn(v, axes=tuple(range(1, D + 1)))
    K = c03.Kof(p, qq, N) if name != "leray" else (N - 1) // 2
    band = c03.band_list(D, K) if K >= 0 else []
    args = [tid, D, N, K, 0, Fraction(1) / q, len(params)] + params + tparams + [C]
    for full in (fullu, fullv):
        for c in range(C):
            for k in band:
                z = full[(c,) + tuple(kk % N for kk in k)]
                args += [z.real, z.imag]
    stored = [k for k in band if k[-1] >= 0]
    pick = lambda arr: np.asarray([[arr[(c,) + tuple(kk % N if i < D - 1 else kk for i, kk in enumerate(k))] for k in stored] for c in range(arr.shape[0])])
    return args, pick(val), pick(jv), band, stored, val.shape[0]


def correspond(ctx):
    # (i) symbols
    grid = [(1, 8), (2, 5)] if ctx.quick else [(1, 8), (1, 9), (2, 5), (2, 6), (3, 4)]
    for D, N in grid:
        correspond_symbols(ctx, D, N, Fraction(3, 4) if D == 2 else Fraction(5, 2), half=ctx.seed % 2 if (ctx.quick and D == 2) else None)
    # (ii) nonlinear terms
    if ctx.quick:
        grid = [(1, 12, n) for n in DTERMS_Q] + [(2, 6, "vorticity_conv"), (1, 10, "gray_scott"), (1, 11, "cahn_hilliard")]
    else:
        grid = [(1, N, n) for N in (6, 9, 12, 13, 16) for n in c03.terms_for(1)] + [(2, N, n) for N in (6, 8) for n in c03.terms_for(2)] \
            + [(3, 6, n) for n in c03.terms_for(3) if n not in c03.CUBIC] + [(2, 6, "leray"), (3, 4, "leray")]
    cases, meta = [], []
    for D, N, name in grid:
        fkey = "1/2" if name in c03.CUBIC else "2/3"
        p, q, _ = c03.FRACS[fkey]
        K = c03.Kof(p, q, N)
        if name != "leray" and (K < 0 or (2 * K + 1) ** D > (60 if name in c03.CUBIC else 150)):
            continue
        seed = ctx.seed * 7919 + 31 * N + 7 * D + len(name)
        desc = dict(suite="dterm", term=name, D=D, N=N, frac=fkey, seed=seed)
        try:
            args, val, jv, band, stored, nout = dterm_case(name, D, N, fkey, seed)
        except Exception as e:
            ctx.case(desc)
            ctx.disagree("c07:dterm:" + name, desc, "differentiable", f"jvp raised {type(e).__name__}: {e}")
            continue
        cases.append((702, args))
        meta.append((desc, val, jv, band, stored, nout))
    res = core.run_model(cases)
    for (desc, val, jv, band, stored, nout), mres in zip(meta, res):
        ctx.case(desc)
        ctx.count("dterm_" + desc["term"])
        m = np.asarray(core.to_cx(mres)).reshape(nout, len(band), 2) if band else np.zeros((nout, 0, 2))
        sel = [i for i, k in enumerate(band) if k[-1] >= 0]
        mv, md = m[:, sel, 0], m[:, sel, 1]
        sv, sd = 1 + (np.max(np.abs(mv)) if mv.size else 0), 1 + (np.max(np.abs(md)) if md.size else 0)
        bad = mv.shape != val.shape or not np.all(np.isfinite(jv)) or (mv.size and (np.max(np.abs(mv - val)) > 1e-10 * sv or np.max(np.abs(md - jv)) > 1e-10 * sd))
        if bad:
            ctx.disagree("c07:dterm:" + desc["term"], desc, f"max|d model|={sd-1:.3e}",
                         f"value diff={np.max(np.abs(mv-val)) if mv.shape==val.shape and mv.size else 'shape'} jvp diff={np.max(np.abs(md-jv)) if md.shape==jv.shape and md.size else 'shape'}")


# ======================================================================================================
# witness: the property on the real code
def _kw(kw):
    out = {}
    for k, v in (kw or {}).items():
        out[k] = tuple(v) if isinstance(v, list) else v
    return out


_CACHE = {}


def cached_stepper(cls, D, N, order, kw=None):
    key = (cls, D, N, order, repr(sorted(_kw(kw).items())))
    if key not in _CACHE:
        if len(_CACHE) > 64:
            _CACHE.clear()
        _CACHE[key] = make_stepper(cls, D, N, order, kw)
    return _CACHE[key]


def make_stepper(cls, D, N, order, kw=None, L=None, dt=None):
    kw = _kw(kw)
    if order is not None and registry.has_order(cls):
        kw["order"] = order
    a = {}
    if L is not None:
        a["L"] = L
    if dt is not None:
        a["dt"] = dt
    return registry.make(cls, D, N, **a, **kw)


def make_state(kind, C, D, N, seed):
    rng = np.random.default_rng(seed)
    shape = (C,) + (N,) * D
    if kind == "zero":
        return np.zeros(shape)
    if kind == "const":
        return 0.7 * np.ones(shape)
    if kind == "harmonic":
        x = np.sin(2 * np.pi * np.arange(N) / N) + 0.3
        u = np.zeros(shape) + x.reshape((1,) + (N,) + (1,) * (D - 1))
        return u
    # generic: smooth part plus all-mode noise, O(1)
    return 0.6 * rng.standard_normal(shape) + 0.2


def wrap_fn(stepper, wrap):
    ex, jax, jnp = _ex()
    if wrap == "step":
        return stepper
    if wrap == "rollout3":
        return ex.rollout(stepper, 3)
    if wrap == "rollout3_init":
        return ex.rollout(stepper, 3, include_init=True)
    if wrap == "repeat3":
        return ex.repeat(stepper, 3)
    if wrap == "repeated_stepper3":
        return ex.RepeatedStepper(stepper, 3)
    if wrap == "forced_repeated2":      # the forced wrapper reads the effective dt of the repeated stepper: d/d(dt) must flow through it
        fr = ex.ForcedStepper(ex.RepeatedStepper(stepper, 2))
        return lambda u: fr(u, 0.3 * jnp.roll(u, 1, axis=-1) + 0.1)
    raise KeyError(wrap)


def nrm(x):
    return float(np.max(np.abs(np.asarray(x)))) if np.asarray(x).size else 0.0


def t_state(cls, D, N, order, state, wrap, seed, kw=None, light=False):
    """jvp w.r.t. the state vs central differences, convergence, vjp dot test, finiteness, Jacobian = map for linear classes
    (light=True skips the h^2 convergence check)"""
    ex, jax, jnp = _ex()
    st = cached_stepper(cls, D, N, order, kw)
    f = wrap_fn(st, wrap)
    fe = f if wrap == "step" else jax.jit(lambda x: f(x))          # primal evaluations for the difference quotients
    C = st.num_channels
    u = jnp.asarray(make_state(state, C, D, N, seed))
    rng = np.random.default_rng(seed + 1000003)
    v = rng.standard_normal(u.shape)
    v = jnp.asarray(v / np.max(np.abs(v)))
    out, jv = jax.jvp(f, (u,), (v,))
    tag = f"{cls} D={D} N={N} order={order} state={state} {wrap}"
    if not bool(jnp.all(jnp.isfinite(out))):
        return True, tag + ": the step itself is not finite (nothing to check)"
    if not bool(jnp.all(jnp.isfinite(jv))):
        return False, tag + ": forward-mode derivative (jax.jvp) w.r.t. the state is not finite although the step is finite"
    w = jnp.asarray(rng.standard_normal(out.shape))
    out2, pull = jax.vjp(f, u)
    (vj,) = pull(w)
    if not bool(jnp.all(jnp.isfinite(vj))):
        return False, tag + ": reverse-mode derivative (jax.vjp) w.r.t. the state is not finite although the step is finite"
    # dot test  <w, J v> = <J^T w, v>
    lhs, rhs = float(jnp.vdot(w, jv)), float(jnp.vdot(vj, v))
    scale = float(jnp.linalg.norm(w) * jnp.linalg.norm(jv) + jnp.linalg.norm(vj) * jnp.linalg.norm(v)) + 1e-300
    if abs(lhs - rhs) > 1e-10 * scale:
        return False, tag + f": vjp is not the adjoint of jvp: <w,Jv>={lhs!r} <J^T w,v>={rhs!r}"

    def fd(h):
        return (fe(u + h * v) - fe(u - h * v)) / (2 * h)
    tn = nrm(jv)
    floor = 1e-9 * (nrm(out) + tn) + 1e-300
    # central differences: accepted when some step of the ladder reaches 1e-6 of the tangent norm
    es = []
    for h in (1e-5, 1e-6, 1e-4):
        es.append(nrm(fd(h) - jv))
        if es[-1] <= 1e-6 * tn + floor:
            break
    else:
        return False, tag + f": jvp differs from central differences: max errors {['%.3e' % x for x in es]} for h=1e-5,1e-6,1e-4; tangent norm {tn:.3e}"
    e = es[-1]
    if not light:
        e1, e2 = nrm(fd(4e-3) - jv), nrm(fd(2e-3) - jv)
        if not e2 <= 0.35 * e1 + 30 * floor:
            return False, tag + f": central differences do not converge at rate h^2 to the jvp: error {e1:.3e} (h=4e-3) -> {e2:.3e} (h=2e-3)"
    if cls in registry.LINEAR or order == 0:
        lin = f(v)
        d = nrm(lin - jv)
        if not d <= 1e-11 * (nrm(lin) + 1e-300) + 1e-300:
            return False, tag + f": the Jacobian of a linear stepper is not the step itself: |J v - step(v)| = {d:.3e}"
    return True, tag + f": fd error {e:.2e} (tangent {tn:.2e}), dot test {abs(lhs-rhs)/scale:.1e}"


def coef_args(cls):
    """float-valued keyword arguments of the constructor: name -> default (float or tuple of floats)"""
    sig = inspect.signature(registry.classes()[cls].__init__)
    out = {}
    for n, p in sig.parameters.items():
        if n in SKIP_ARGS or n == "self" or p.default is inspect._empty:
            continue
        d = p.default
        if isinstance(d, bool) or isinstance(d, int):
            continue
        if isinstance(d, float):
            out[n] = d
        elif isinstance(d, tuple) and d and all(isinstance(x, float) for x in d):
            out[n] = d
    return out


def t_rollout_reverse(n, include_init):
    """reverse mode through rollout / repeat sees exactly the n steps that produce the returned states: a stepper whose (n+1)-th application
    overflows (exp iterated from 1: e, 15.2, 3.8e6, inf) must still have a finite gradient equal to the chain-rule value"""
    ex, jax, jnp = _ex()
    f = lambda u: jnp.exp(u)
    u0 = jnp.asarray([1.0])
    traj = ex.rollout(f, n, include_init=include_init)(u0)
    if not bool(jnp.all(jnp.isfinite(traj))):
        return False, f"trajectory itself is not finite: {traj}"
    g = jax.grad(lambda u: jnp.sum(ex.rollout(f, n, include_init=include_init)(u)))(u0)
    gr = jax.grad(lambda u: jnp.sum(ex.repeat(f, n)(u)))(u0)
    states, d, tot = [1.0], 1.0, (1.0 if include_init else 0.0)
    for _ in range(n):
        states.append(float(np.exp(states[-1]))); d *= states[-1]; tot += d
    if not (bool(jnp.all(jnp.isfinite(g))) and abs(float(g[0]) - tot) <= 1e-10 * abs(tot)):
        return False, f"grad of sum(rollout(exp, {n}, include_init={include_init})) is {float(g[0])}, chain rule gives {tot}"
    if not (bool(jnp.all(jnp.isfinite(gr))) and abs(float(gr[0]) - d) <= 1e-10 * abs(d)):
        return False, f"grad of repeat(exp, {n}) is {float(gr[0])}, chain rule gives {d}"
    return True, ""


def t_param(cls, D, N, order, wrap, seed, kw=None, L=None, only=None, full=True, state="generic"):
    """derivative w.r.t. dt and every float coefficient argument (stepper built inside the differentiated function):
    finite, forward mode (jvp in a sensitivity-balanced joint direction) vs central differences with h^2 convergence,
    reverse mode per entry vs forward mode per entry.  only=[arg, index] restricts the direction to one entry;
    full=False skips the separate jax.jvp call (jax.linearize is used for forward mode) and the convergence check."""
    ex, jax, jnp = _ex()
    kw = _kw(kw)
    args = coef_args(cls)
    names, p0 = [("dt", None)], [0.05]
    for a, d in args.items():
        cur = kw.get(a, d)
        if isinstance(d, tuple):
            cur = tuple(cur)
            for i, x in enumerate(cur):
                names.append((a, i)); p0.append(float(x))
        else:
            names.append((a, None)); p0.append(float(cur))
    fixed = {k: v for k, v in kw.items() if k not in args}
    st0 = make_stepper(cls, D, N, order, kw, L=L)
    C = st0.num_channels
    u = jnp.asarray(make_state(state, C, D, N, seed))

    def build(p):
        k2 = dict(fixed)
        j = 1
        for a, d in args.items():
            if isinstance(d, tuple):
                n = len(kw.get(a, d))
                k2[a] = tuple(p[j + i] for i in range(n)); j += n
            else:
                x = p[j]; j += 1
                k2[a] = x
        return make_stepper(cls, D, N, order, k2, L=L, dt=p[0])

    def fn(p):
        return wrap_fn(build(p), wrap)(u)
    p0 = jnp.asarray(p0)
    n = len(names)
    tag = f"{cls} D={D} N={N} order={order} {wrap} state={state} kw={kw} L={L}"
    label = lambda i: names[i][0] + ("" if names[i][1] is None else f"[{names[i][1]}]")
    out, lin = jax.linearize(fn, p0)
    if not bool(jnp.all(jnp.isfinite(out))):
        return True, tag + ": the step itself is not finite (nothing to check)"
    cols = [lin(jnp.zeros(n).at[i].set(1.0)) for i in range(n)]
    bad = [label(i) for i in range(n) if not bool(jnp.all(jnp.isfinite(cols[i])))]
    if bad:
        return False, tag + f": forward-mode derivative w.r.t. {bad} is not finite although the step is finite"
    cn = np.asarray([float(jnp.linalg.norm(c)) for c in cols])
    # an exactly vanishing derivative must mean that the output does not depend on that parameter (a Python-level branch on a concrete
    # coefficient value, a stop_gradient or a cast detaches a coefficient consistently in every AD mode: only a difference quotient sees it)
    for i in range(n):
        if cn[i] == 0.0:
            h = 1e-4 * max(1.0, abs(float(p0[i])))
            e = jnp.zeros(n).at[i].set(h)
            try:
                fd = (fn(p0 + e) - fn(p0 - e)) / (2 * h)
            except Exception:
                continue            # the perturbed value is not admissible (e.g. a guard): nothing to compare
            if bool(jnp.all(jnp.isfinite(fd))) and nrm(fd) > 1e-6 * (1.0 + nrm(out)):
                return False, tag + (f": the derivative w.r.t. {label(i)} is exactly zero in forward mode, but the output depends on it "
                                     f"(central difference {nrm(fd):.3e}): the parameter is detached from the computation graph")
    rng = np.random.default_rng(seed + 77)
    r = rng.uniform(0.5, 1.5, n) * rng.choice([-1.0, 1.0], n)
    wts = np.where(cn > 0, r / np.where(cn > 0, cn, 1.0), 0.0)
    if only is not None:
        sel = [i for i in range(n) if names[i][0] == only[0] and (names[i][1] == only[1] or only[1] is None)]
        wts = np.asarray([wts[i] if i in sel else 0.0 for i in range(n)])
    t = jnp.asarray(wts)
    jv = lin(t)
    if full:
        _, jv2 = jax.jvp(fn, (p0,), (t,))
        if not bool(jnp.all(jnp.isfinite(jv2))):
            return False, tag + ": jax.jvp w.r.t. (dt, coefficients) is not finite although the step is finite"
        if nrm(jv2 - jv) > 1e-11 * (nrm(jv) + 1e-300):
            return False, tag + f": jax.jvp and jax.linearize disagree by {nrm(jv2-jv):.3e}"
        jv = jv2
    # reverse mode, entry by entry, against forward mode
    cot = jnp.asarray(rng.standard_normal(out.shape))
    g = jax.grad(lambda p: jnp.vdot(cot, fn(p)))(p0)
    if not bool(jnp.all(jnp.isfinite(g))):
        return False, tag + f": reverse-mode gradient w.r.t. {[label(i) for i in range(n) if not np.isfinite(float(g[i]))]} is not finite"
    cnrm = float(jnp.linalg.norm(cot))
    for i in range(n):
        fwd = float(jnp.vdot(cot, cols[i]))
        if abs(fwd - float(g[i])) > 1e-10 * (cnrm * cn[i] + 1e-300) + 1e-300:
            return False, tag + f": reverse mode is not the adjoint of forward mode for {label(i)}: <w, J e_i> = {fwd!r}, grad_i = {float(g[i])!r}"
    if not np.any(wts):
        return True, tag + ": finite derivatives; the output does not depend on the selected parameters"
    # central differences along the joint direction; step from the relative sensitivity
    tn2, on2 = float(jnp.linalg.norm(jv)), float(jnp.linalg.norm(out))
    c = tn2 / max(on2, 1e-300)
    h = 1e-5 / max(c, 1e-12)
    hmax = 1e-3 * min((abs(float(p0[i])) + 1.0) / abs(wts[i]) for i in range(n) if wts[i] != 0)
    h = min(h, hmax)

    def fd(hh, tt=t):
        return (fn(p0 + hh * tt) - fn(p0 - hh * tt)) / (2 * hh)
    tn = nrm(jv)
    floor = 1e-9 * (nrm(out) * c + tn) + 1e-300
    # accepted when some step of the ladder h, h/8, h/64, 8h reaches 1e-6 of the tangent norm
    es, ok = [], False
    for hh in (h, h / 8, h / 64, 8 * h):
        es.append(nrm(fd(hh) - jv))
        if es[-1] <= 1e-6 * tn + floor:
            ok, h = True, hh
            break
    e = min(es)
    conv = ""
    if ok and full:
        e1, e2 = nrm(fd(16 * h) - jv), nrm(fd(8 * h) - jv)
        if not e2 <= 0.35 * e1 + 30 * floor:
            ok = False
            conv = f"; central differences do not converge at rate h^2: {e1:.3e} (16h) -> {e2:.3e} (8h)"
    if not ok:
        # localise: entry by entry
        per = []
        for i in range(n):
            if wts[i] == 0:
                continue
            ei = jnp.zeros(n).at[i].set(1.0)
            hi = min(1e-5 * float(on2) / max(cn[i], 1e-300), 1e-3 * (abs(float(p0[i])) + 1.0))
            di = nrm(fd(hi, ei) - cols[i]) / (nrm(cols[i]) + 1e-300)
            if di > 1e-6:
                per.append(f"{label(i)}@{float(p0[i])!r}: rel.err {di:.2e}")
        return False, tag + f": forward-mode derivative w.r.t. (dt, coefficients) differs from central differences: max error {e:.3e}, tangent norm {tn:.3e}, h={h:.2e}{conv}; entries: {per}"
    return True, tag + f": {n} parameters, fd error {e:.2e} (tangent {tn:.2e})"


def t_scalar_coef_traceable(cls, arg, D):
    """a scalar coefficient passed as a traced 0-d value (what jax.jvp / jax.grad w.r.t. a float argument do) is accepted and its
    derivative equals the derivative through the per-axis array form (where the class has one) and central differences"""
    ex, jax, jnp = _ex()
    N = NS[D]
    d = float(coef_args(cls)[arg])
    u = jnp.asarray(make_state("generic", registry.make(cls, D, N).num_channels, D, N, 0))
    kw0 = dict(order=2) if registry.has_order(cls) else {}
    f = lambda p: registry.make(cls, D, N, **{arg: p}, **kw0)(u)
    try:
        out, jv = jax.jvp(f, (d,), (1.0,))
        g = jax.grad(lambda p: jnp.vdot(out, f(p)))(d)
    except Exception as e:
        return False, f"{cls}({arg}=traced scalar) D={D}: {type(e).__name__}: {str(e)[:160]}"
    if not (bool(jnp.all(jnp.isfinite(jv))) and np.isfinite(float(g))):
        return False, f"{cls}({arg}=traced scalar) D={D}: derivative not finite"
    if abs(float(g) - float(jnp.vdot(out, jv))) > 1e-10 * float(jnp.linalg.norm(out) * jnp.linalg.norm(jv)) + 1e-300:
        return False, f"{cls}({arg}=traced scalar) D={D}: grad {float(g)!r} is not <w, jvp> {float(jnp.vdot(out, jv))!r}"
    h = 1e-6 * (abs(d) + 1.0) * min(1.0, 1e1 * float(jnp.linalg.norm(out)) / (float(jnp.linalg.norm(jv)) + 1e-300))
    fd = (f(d + h) - f(d - h)) / (2 * h)
    e = nrm(fd - jv)
    if not e <= 1e-6 * nrm(jv) + 1e-9 * nrm(out):
        return False, f"{cls}({arg}=traced scalar) D={D}: jvp differs from central differences by {e:.3e} (tangent {nrm(jv):.3e})"
    if (cls, arg) in SCALAR_OR_ARRAY:
        fa = lambda p: registry.make(cls, D, N, **{arg: p * jnp.ones(D)})(u)
        _, ja = jax.jvp(fa, (d,), (1.0,))
        if nrm(ja - jv) > 1e-11 * (nrm(jv) + 1e-300):
            return False, f"{cls}({arg}) D={D}: derivative through the scalar form differs from the per-axis array form by {nrm(ja-jv):.3e}"
    return True, f"{cls}({arg}=traced scalar) D={D}"


TESTS = dict(rollout_reverse=t_rollout_reverse, state=t_state, param=t_param, scalar_coef_traceable=t_scalar_coef_traceable)

# coefficient values at which the linear symbol vanishes exactly at some mode with a non-zero nonlinear term there
ZERO_SYMBOL = [
    ("GeneralPolynomialStepper", dict(linear_coefficients=[0.0, 0.0, 0.01], polynomial_coefficients=[0.0, 0.0, -1.0]), None),
    ("KuramotoSivashinsky", {}, 4 * np.pi),                 # k^2 - k^4 = 0 at |k| = 2 (wavenumber 1)
    ("AllenCahn", dict(first_order_coefficient=0.0), None),
    ("SwiftHohenberg", dict(reactivity=0.0, critical_number=1.0), 2 * np.pi),
    ("KuramotoSivashinsky", {}, 2 * np.pi),
    ("GeneralNonlinearStepper", dict(linear_coefficients=[0.0, 0.0, 0.01], nonlinear_coefficients=[-1.0, -1.0, 0.5]), None),
    ("GeneralGradientNormStepper", dict(linear_coefficients=[0.0, 0.0, 1.0, 0.0, -1.0]), 2 * np.pi),
    ("FisherKPP", dict(reactivity=0.0), None),
    ("NormalizedPolynomialStepper", dict(normalized_linear_coefficients=[0.0, 0.0, 1e-3], normalized_polynomial_coefficients=[0.0, 0.0, -0.01]), None),
    ("DifficultyPolynomialStepper", dict(linear_difficulties=[0.0, 0.0, 0.04608], polynomial_difficulties=[0.0, 0.0, -0.01]), None),
]


def witness(ctx):
    deep = ctx.deep
    names = sorted(registry.classes())
    seed = ctx.seed
    _check = ctx.check

    def check(test, params):
        ctx.count(f"witness_{test}_{params.get('wrap', '')}_{params.get('state', '')}".rstrip("_"))
        if params.get("D"):
            ctx.count(f"witness_D{params['D']}")
        if params.get("order") is not None:
            ctx.count(f"witness_order{params['order']}")
        return _check(test, params)
    orders_of = lambda n: (0, 1, 2, 3, 4) if registry.has_order(n) else (None,)
    # ---- derivative w.r.t. the state
    for i, name in enumerate(names):
        dims = registry.dims(name)
        ords = orders_of(name)
        rot = lambda j: ords[(i + seed + j) % len(ords)]
        for D in dims:
            N = NS[D]
            low = D == dims[0]
            if deep:
                todo = ords if low else (rot(D),)
            else:
                if not low and (i + seed) % 6 != D:
                    continue
                todo = (rot(D),)
                if todo == (0,) and low:          # order 0 never calls the nonlinear term: always add an order >= 1
                    todo = (0, ords[1 + (i + seed) % 4])
            special = {rot(D), rot(D + 2)} if deep else set(todo)
            for o in todo:
                check("state", dict(cls=name, D=D, N=N, order=o, state="generic", wrap="step", seed=seed))
                if o in special:
                    for sk in ("zero", "const", "harmonic"):
                        if deep or (low and (sk != "harmonic" or (i + seed) % 2 == 0)) or sk == "zero":
                            check("state", dict(cls=name, D=D, N=N, order=o, state=sk, wrap="step", seed=seed, light=not deep))
            if low and (deep or (i + seed) % 4 == 0):
                o = rot(1)
                wraps = (("rollout3", "generic"), ("repeat3", "generic"), ("rollout3", "zero"), ("repeated_stepper3", "const"), ("rollout3_init", "harmonic"))
                if not deep:
                    wraps = (wraps[((i + seed) // 4) % 5],)
                else:
                    wraps = (wraps[(i + seed) % 2], wraps[2 + (i + seed) % 3])
                for wr, sk in wraps:
                    check("state", dict(cls=name, D=D, N=N, order=o, state=sk, wrap=wr, seed=seed, light=sk != "generic"))
    # ---- symbols that vanish exactly at a mode (derivative w.r.t. the linear coefficients must still be right)
    for j, (name, kw, L) in enumerate(ZERO_SYMBOL):
        for o in (((1, 2, 3, 4) if j < 5 else (1 + (j + seed) % 4, 1 + (j + seed + 2) % 4)) if deep else (1 + (j + seed) % 4,)):
            if deep or j < 3 or j == 3 + seed % (len(ZERO_SYMBOL) - 3):
                check("param", dict(cls=name, D=1, N=12, order=o, wrap="step", seed=seed, kw=kw, L=L, full=deep and o == 2))
        if (deep and j < 4) or j == seed % 4:
            check("param", dict(cls=name, D=1, N=12, order=1 + (j + seed + 1) % 4, wrap="rollout3", seed=seed, kw=kw, L=L, full=False))
    # ---- derivative w.r.t. dt and the coefficients at the default values
    for i, name in enumerate(names):
        dims = registry.dims(name)
        ords = orders_of(name)
        D = dims[0]
        rot = lambda j: ords[(i + seed + j) % len(ords)]
        if deep:
            for o in (ords if (i + seed) % 3 == 0 else sorted({rot(0), rot(2)}, key=str)):
                check("param", dict(cls=name, D=D, N=NS[D], order=o, wrap="step", seed=seed, full=o == rot(0)))
            if (i + seed) % 2 == 0:
                check("param", dict(cls=name, D=D, N=NS[D], order=rot(1), wrap="rollout3", seed=seed, full=False))
            if (i + seed) % 2 == 1:
                check("param", dict(cls=name, D=D, N=NS[D], order=rot(2), wrap="step", seed=seed, full=False, state=("zero", "const", "harmonic")[((i + seed) // 2) % 3]))
            if (i + seed) % 3 == 0:
                check("param", dict(cls=name, D=D, N=NS[D], order=rot(2), wrap="repeat3", seed=seed, full=False))
            if len(dims) > 1 and (i + seed) % 3 == 1:
                check("param", dict(cls=name, D=2, N=NS[2], order=rot(3), wrap="step", seed=seed, full=False))
        else:
            # every class on every run (the derivative w.r.t. the coefficients is half of the property); full / rollout variants rotate
            k = i // 7 + seed
            o = ords[k % len(ords)]
            if o == 0 and len(ords) > 1:
                o = ords[1 + k % 4]           # order 0 has no ETDRK coefficients to differentiate
            special = (i + seed) % 7 == 0
            check("param", dict(cls=name, D=D, N=NS[D], order=o, wrap="rollout3" if (special and k % 3 == 0) else "step", seed=seed, full=special and k % 3 == 1))
    # ---- reverse mode through the trajectory utilities, and d/d(dt) through ForcedStepper(RepeatedStepper(...))
    for inc in (True, False):
        check("rollout_reverse", dict(n=3, include_init=inc))
    for j, name in enumerate(("Burgers", "Diffusion", "KortewegDeVries") if not deep else ("Burgers", "Diffusion", "KortewegDeVries", "KuramotoSivashinsky", "FisherKPP")):
        if deep or j == seed % 3:
            check("param", dict(cls=name, D=1, N=NS[1], order=2 if name != "Diffusion" else None, wrap="forced_repeated2", seed=seed, full=False, only=["dt", None]))
    # ---- scalar coefficients given as traced 0-d values (F8: the linear classes used to reject them)
    for name, a in SCALAR_OR_ARRAY:
        for D in ((1, 2, 3) if deep else (1 + (seed + len(a)) % 3,)):
            check("scalar_coef_traceable", dict(cls=name, arg=a, D=D))
    ctx.notes.append(f"witness: {len(names)} exported stepper classes swept ({'all orders' if deep else 'orders rotated by seed'}); "
                     f"{len(ZERO_SYMBOL)} configurations with an exactly vanishing linear symbol")
