"""C11 — dissipative and dispersive linear steppers never amplify any state."""
from fractions import Fraction

import numpy as np

from .. import core, symbols
from ..translate import linops as tr_linops

ID = "C11"
PROPS_FILE = "C11"
RULE = ("correspondence: the linear operator of every class vs the extracted symbol model at every stored mode (exact rationals; the sign / realness statements of the theorems are about this model), "
        "and the Wave transform per mode (shared suites of C01); witness on the real code: ||step u|| <= ||u|| (1 + 1e-12) for white-noise states incl. Nyquist content, all linear classes with "
        "non-amplifying coefficients (scalar / vector / SPD-matrix diffusivities with strong off-diagonals, both mixing flags), D = 1..3, odd/even N, dt in {1e-3..1e6}, several L, rollouts; "
        "strict decay of every non-constant single mode (also negative leading-axis wavenumbers) for diffusive classes; exact norm preservation of advection/dispersion on odd grids and Nyquist-free states; "
        "wave energy conservation for L from 1 to 1e5. Non-trivial: random states; distinct by input hash.")
TRUSTED_EXTRA = ["harness/translate/linops.py (the symbols of Advection / Dispersion / HyperDiffusion / Diffusion whose real parts are proved for the source text)"]
ASSUMPTIONS = ["|exp(z)| = exp(Re z) <= 1 for Re z <= 0 (real exponential)", "Parseval with the half-spectrum weights (checked numerically; conjugation-free version proved in C16)"]


def translate(ctx):
    """Gen/LinOps.v: the per-mode symbols of the source (theorem C11_code_symbols_do_not_amplify through Tie/LinOpsTie.v and
    Tie/NonAmplTie.v); on failure the file is replaced by a stub"""
    tr_linops.run()


def _ex():
    import jax
    jax.config.update("jax_enable_x64", True)
    import jax.numpy as jnp
    import exponax as ex
    return ex, jnp


def correspond(ctx):
    for D, N in ([(1, 7), (2, 5), (2, 6)] if ctx.quick else [(1, 7), (1, 8), (2, 5), (2, 6), (3, 4), (3, 5)]):
        symbols.compare(ctx, D, N, Fraction(9, 4), "c11", full=True)


def build(cls, D, L, N, dt, seed, flag=False):
    ex, jnp = _ex()
    import exponax.stepper.generic as G
    rng = np.random.default_rng(seed)
    S = ex.stepper
    v = rng.uniform(-2, 2, D)
    B = rng.uniform(-1, 1, (D, D))
    A = B @ B.T + 0.01 * np.eye(D)
    # strong off-diagonal SPD matrix
    if D >= 2:
        A = 0.3 * (np.eye(D) + 0.8 * (np.ones((D, D)) - np.eye(D)) * (1 if D == 2 else 0.45))
    if cls == "Advection":
        return S.Advection(D, L, N, dt, velocity=jnp.asarray(v))
    if cls == "Diffusion(scalar)":
        return S.Diffusion(D, L, N, dt, diffusivity=0.07)
    if cls == "Diffusion(vector)":
        return S.Diffusion(D, L, N, dt, diffusivity=jnp.asarray(np.abs(v) * 0.05 + 0.01))
    if cls == "Diffusion(matrix)":
        return S.Diffusion(D, L, N, dt, diffusivity=jnp.asarray(A))
    if cls == "AdvectionDiffusion":
        return S.AdvectionDiffusion(D, L, N, dt, velocity=jnp.asarray(v), diffusivity=jnp.asarray(A))
    if cls == "Dispersion":
        return S.Dispersion(D, L, N, dt, dispersivity=jnp.asarray(v * 0.1), advect_on_diffusion=flag)
    if cls == "HyperDiffusion":
        return S.HyperDiffusion(D, L, N, dt, hyper_diffusivity=0.003, diffuse_on_diffuse=flag)
    if cls == "GeneralLinear":
        return G.GeneralLinearStepper(D, L, N, dt, linear_coefficients=(-0.1, 0.4, 0.02, -0.3, -0.001))
    if cls == "GeneralLinear(odd)":         # purely odd orders: imaginary symbol, exactly unitary
        return G.GeneralLinearStepper(D, L, N, dt, linear_coefficients=(0.0, 0.7, 0.0, -1.0, 0.0, 0.05) if flag else (0.0, 0.0, 0.0, -1.0))
    if cls == "NormalizedLinear(odd)":
        return G.NormalizedLinearStepper(D, N, normalized_linear_coefficients=(0.0, -0.3 * dt, 0.0, -dt / 7.0))
    if cls == "DifficultyLinear(odd)":
        return G.DifficultyLinearStepper(D, N, linear_difficulties=(0.0, 0.4 * min(dt, 50.0), 0.0, -0.1 * min(dt, 1e4)))
    if cls == "DifficultyLinear(high order)":     # dissipative difficulties of order 6 / 8 on fine grids: the conversion factor N^j 2^(j-1) D is huge
        gam = (0.0,) * 6 + (0.01,) if flag else (0.0,) * 8 + (-0.01,)
        return G.DifficultyLinearStepper(D, N, linear_difficulties=gam)
    if cls == "Wave":
        return S.Wave(D, L, N, dt, speed_of_sound=1.4)
    raise KeyError(cls)


CLASSES = ["Advection", "Diffusion(scalar)", "Diffusion(vector)", "Diffusion(matrix)", "AdvectionDiffusion", "Dispersion", "HyperDiffusion", "GeneralLinear",
           "GeneralLinear(odd)", "NormalizedLinear(odd)", "DifficultyLinear(odd)"]
DISSIPATIVE = {"Diffusion(scalar)", "Diffusion(vector)", "Diffusion(matrix)", "AdvectionDiffusion", "HyperDiffusion"}
UNITARY = {"Advection", "Dispersion", "GeneralLinear(odd)", "NormalizedLinear(odd)", "DifficultyLinear(odd)"}


def l2(u):
    return float(np.sqrt(np.sum(np.asarray(u) ** 2)))


def t_no_growth(cls, D, N, L, dt, seed, flag=False, steps=1):
    ex, jnp = _ex()
    s = build(cls, D, L, N, dt, seed, flag)
    u = jnp.asarray(np.random.default_rng(seed + 1).standard_normal((1,) + (N,) * D))
    n0 = l2(u)
    v = u
    worst = 0.0
    for _ in range(steps):
        v = s(v)
        worst = max(worst, l2(v) / n0)
    ok = np.isfinite(worst) and worst <= 1 + 1e-12
    if ok and cls in UNITARY and (N % 2 == 1):
        ok = abs(l2(s(u)) / n0 - 1) < 1e-12
        return ok, f"{cls} D={D} N={N} (odd grid): norm ratio {l2(s(u))/n0:.15f}, expected exactly 1"
    return ok, f"{cls} D={D} N={N} L={L} dt={dt}: norm ratio {worst:.15f} > 1"


def t_mode_decay(cls, D, N, L, dt, k, seed, flag=False):
    """every non-constant single mode (incl. negative leading-axis wavenumbers) strictly shrinks under the diffusive classes"""
    ex, jnp = _ex()
    s = build(cls, D, L, N, dt, seed, flag)
    x = np.asarray(ex.make_grid(D, L, N))
    u = np.cos(sum(2 * np.pi * k[c] * x[c] / L for c in range(D)) + 0.3)[None]
    r = l2(s(jnp.asarray(u))) / l2(u)
    return r < 1 - 1e-9, f"{cls} D={D} N={N} k={k}: single-mode gain {r:.12f} (must be < 1)"


def t_nyquist_free_unitary(cls, D, N, L, dt, seed, flag=False):
    ex, jnp = _ex()
    from .c10 import nyqfree
    s = build(cls, D, L, N, dt, seed, flag)
    u = nyqfree(np.random.default_rng(seed).standard_normal((1,) + (N,) * D), D, N)
    r = l2(s(jnp.asarray(u))) / l2(u)
    return abs(r - 1) < 1e-12, f"{cls} D={D} N={N} Nyquist-free state: norm ratio {r:.15f}, expected exactly 1"


def t_wave_energy(D, N, L, dt, seed, steps):
    ex, jnp = _ex()
    from .c10 import nyqfree
    c = 1.4
    w = ex.stepper.Wave(D, L, N, dt, speed_of_sound=c)
    rng = np.random.default_rng(seed)
    u = nyqfree(rng.standard_normal((2,) + (N,) * D), D, N)
    dop = np.asarray(ex.spectral.build_derivative_operator(D, L, N))

    def energy(st):
        sh = np.asarray(ex.fft(jnp.asarray(st)))
        wgt = np.asarray(ex.spectral.build_scaling_array(D, N, mode="norm_compensation")) / np.asarray(ex.spectral.build_scaling_array(D, N, mode="reconstruction"))
        rho2 = np.sum(np.abs(dop) ** 2, axis=0)
        return float(np.sum(wgt[0] * (np.abs(sh[1]) ** 2 + c * c * rho2 * np.abs(sh[0]) ** 2)))
    e0 = energy(u)
    v = jnp.asarray(u)
    for _ in range(steps):
        v = w(v)
    e1 = energy(np.asarray(v))
    return abs(e1 - e0) <= 1e-10 * e0, f"Wave D={D} N={N} L={L}: energy {e0:.12e} -> {e1:.12e} after {steps} steps"


TESTS = dict(no_growth=t_no_growth, mode_decay=t_mode_decay, nyquist_free_unitary=t_nyquist_free_unitary, wave_energy=t_wave_energy)


def witness(ctx):
    import itertools
    deep = ctx.deep
    # high-order dissipative difficulties on fine 1D grids (order 6: N = 800, order 8: N = 128): white noise must not grow
    for flag, N in ((True, 800), (False, 128)) + (((True, 1024), (False, 256)) if deep else ()):
        ctx.check("no_growth", dict(cls="DifficultyLinear(high order)", D=1, N=N, L=1.0, dt=1.0, seed=ctx.seed, flag=flag, steps=2))
    dn = [(1, 9), (1, 10), (2, 6), (2, 7), (3, 4)] if not deep else [(1, 9), (1, 10), (1, 31), (2, 6), (2, 7), (2, 12), (3, 4), (3, 5)]
    for D, N in dn:
        for cls in CLASSES:
            for flag in ((False, True) if cls in ("Dispersion", "HyperDiffusion", "GeneralLinear(odd)") else (False,)):
                for (L, dt) in ([(2.0, 0.1), (7.0, 1e6)] if not deep else [(2.0, 1e-3), (2.0, 0.1), (7.0, 1e6), (0.5, 30.0), (100.0, 5.0)]):
                    ctx.check("no_growth", dict(cls=cls, D=D, N=N, L=L, dt=dt, seed=ctx.seed, flag=flag, steps=1 if not deep else 4))
            if cls in UNITARY:
                ctx.check("nyquist_free_unitary", dict(cls=cls, D=D, N=N, L=2.0, dt=0.37, seed=ctx.seed))
        half = (N - 1) // 2
        ks = [k for k in itertools.product(range(-half, half + 1), repeat=D) if any(k)]
        if len(ks) > (24 if not deep else 200):
            ks = [ks[i] for i in ctx.rng.choice(len(ks), 24 if not deep else 200, replace=False)]
        # mixed-sign wavevectors are always included (anti-diagonal, and components that cancel in sum k_i)
        fixed = [] if D == 1 else [k for k in ([(h, -h) + (0,) * (D - 2) for h in range(1, half + 1)] + [(-h, h) + (0,) * (D - 2) for h in range(1, half + 1)]
                                               + ([(-2, 1, 1), (1, -2, 1), (-1, -1, 2), (-1, 1, 0), (0, 1, -1)] if D == 3 and half >= 2 else [])
                                               + ([(-1, 1, 1), (1, -1, 0), (0, -1, 1), (1, 1, -1)] if D == 3 else []))]
        ks = [tuple(k) for k in fixed] + [k for k in ks if tuple(k) not in set(map(tuple, fixed))]
        for cls in sorted(DISSIPATIVE):
            for k in ks:
                ctx.check("mode_decay", dict(cls=cls, D=D, N=N, L=3.0, dt=0.05, k=list(k), seed=ctx.seed))
        for k in ks:
            ctx.check("mode_decay", dict(cls="HyperDiffusion", D=D, N=N, L=3.0, dt=0.05, k=list(k), seed=ctx.seed, flag=True))
        if N % 2 == 0:
            # the Nyquist modes of an even grid (checkerboard-type states) are non-constant modes too and must shrink under diffusion
            nyq = [tuple(N // 2 if c == a else 0 for c in range(D)) for a in range(D)] + ([tuple([N // 2] * D)] if D >= 2 else []) \
                + ([(N // 2, 1) + (0,) * (D - 2), (1, N // 2) + (0,) * (D - 2)] if D >= 2 else [])
            for cls in sorted(DISSIPATIVE):
                for k in nyq:
                    ctx.check("mode_decay", dict(cls=cls, D=D, N=N, L=3.0, dt=0.05, k=list(k), seed=ctx.seed))
        for L in ((2 * np.pi, 1e5) if not deep else (1.0, 2 * np.pi, 2e4, 1e5)):
            ctx.check("wave_energy", dict(D=D, N=N, L=L, dt=0.3, seed=ctx.seed, steps=3))
