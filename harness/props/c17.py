"""C17 — radial spectrum: every mode lands in its documented bin with Parseval weights."""
import itertools

import numpy as np

from .. import core, symbols
from ..translate import spectrum as tr_spectrum

ID = "C17"
PROPS_FILE = "C17"
RULE = ("correspondence: ex.get_spectrum (power/amplitude x sum/average binning) of random multi-channel states vs the extracted model fed with |rfftn(u)| at every stored mode "
        "(exact rationals on the float magnitudes), D = 1, 2, 3, odd/even N; bin membership of EVERY stored wavenumber vector vs the integer criterion; "
        "witness: a cos(k.x + phase) for every wavenumber vector of the grid contributes amplitude a to bin round(|k|) and nothing elsewhere; summed power = half the mean square of the part of the "
        "state inside the Nyquist sphere (full Parseval in 1D); average = sum / count; channels independent. Non-trivial: non-zero states; distinct by input hash.")
TRUSTED_EXTRA = ["harness/translate/spectrum.py (get_spectrum: structure compared as text, per-mode quantity, scaling modes and bin limits translated)"]
ASSUMPTIONS = ["|k| is compared with b +- 1/2 in floating point by the code; C17_bin_margin shows the comparison cannot sit on a boundary", "rfftn of C04"]


def translate(ctx):
    """Gen/SpectrumGen.v: what decides the values of get_spectrum, re-translated from the source (theorem
    C17_code_quantity_and_bins_are_model); on failure the file is replaced by a stub"""
    tr_spectrum.run()


def _ex():
    import jax
    jax.config.update("jax_enable_x64", True)
    import jax.numpy as jnp
    import exponax as ex
    return ex, jnp


def correspond(ctx):
    ex, jnp = _ex()
    rng = ctx.rng
    cases, meta = [], []
    grid = [(1, 8), (1, 9), (2, 6), (2, 7), (3, 4), (3, 5)] if ctx.quick else [(1, n) for n in (8, 9, 12, 13)] + [(2, n) for n in range(4, 13)] + [(3, n) for n in range(3, 8)]
    for D, N in grid:
        modes = symbols.wavenumbers(D, N)
        u = rng.standard_normal((2,) + (N,) * D)
        mag = np.abs(np.fft.rfftn(u, axes=tuple(range(1, D + 1))))
        for power, avg in itertools.product((True, False), repeat=2):
            spec = np.asarray(ex.get_spectrum(jnp.asarray(u), power=power, radial_binning="average" if avg else "sum"))
            for ch in range(2):
                args = [D, N, power, avg, len(modes)]
                for idx, k in modes:
                    args += list(k) + [float(mag[(ch,) + idx])]
                cases.append((1701, args)); meta.append((dict(suite="spectrum", D=D, N=N, power=power, average=avg, ch=ch), spec[ch]))
        if D >= 2:
            for idx, k in modes:
                for b in range(0, N // 2 + 1):
                    cases.append((1702, [b] + list(k)))
                    nk = np.linalg.norm(np.asarray(k, dtype=float))
                    meta.append((dict(suite="bin", D=D, N=N, b=b, k=k), bool((nk >= b - 0.5) and (nk < b + 0.5))))
    res = core.run_model(cases)
    for (desc, impl), mres in zip(meta, res):
        if desc["suite"] == "bin":
            ctx.case(desc, nontrivial=any(desc["k"]))
            ctx.count("bin")
            if bool(mres[0]) != impl:
                ctx.disagree("c17:bin", desc, bool(mres[0]), impl)
            continue
        ctx.case(desc)
        ctx.count("spectrum")
        vals = [float(x) for x in mres]
        if desc["D"] == 1:
            ok = core.close(np.asarray(impl), np.asarray(vals), 1e-11)
        else:
            cnt, val = np.asarray(vals[0::2]), np.asarray(vals[1::2])
            ok = impl.shape == val.shape
            if ok:
                for b in range(len(val)):
                    if desc["average"] and cnt[b] == 0:
                        ok &= bool(np.isnan(impl[b]))
                    else:
                        ok &= bool(abs(impl[b] - val[b]) <= 1e-11 * (1 + abs(val[b])))
        if not ok:
            ctx.disagree("c17:spectrum", desc, vals[:8], np.asarray(impl)[:8])


# --------------------------------------------------------------------------------------------------
def t_single_mode(D, N, k, phase):
    """a cos(k.x + phase): amplitude a in bin round(|k|) (if inside the Nyquist sphere), zero elsewhere; power a^2/4 there"""
    ex, jnp = _ex()
    L = 2 * np.pi
    x = np.asarray(ex.make_grid(D, L, N))
    a = 1.7
    u = a * np.cos(sum(k[c] * x[c] for c in range(D)) + phase)[None]
    amp = np.asarray(ex.get_spectrum(jnp.asarray(u), power=False))[0]
    pw = np.asarray(ex.get_spectrum(jnp.asarray(u), power=True))[0]
    nk = float(np.linalg.norm(k))
    nyq = N % 2 == 0 and any(abs(kc) == N // 2 for kc in k)
    exp_a = np.zeros(N // 2 + 1); exp_p = np.zeros(N // 2 + 1)
    if D == 1:
        b = abs(k[0])
    else:
        b = int(np.floor(nk + 0.5))
    if b <= N // 2 and not all(kc == 0 for kc in k):
        if nyq:
            # a cosine at a Nyquist wavenumber is sampled as a*cos(phase)*(-1)^j: effective amplitude |a cos(phase)| (self-conjugate mode)
            if all(abs(kc) in (0, N // 2) for kc in k):
                exp_a[b] = abs(a * np.cos(phase)); exp_p[b] = 0.5 * (a * np.cos(phase)) ** 2
            else:
                return True, "mixed Nyquist mode: amplitude depends on the phase (not a claim of the property)"
        else:
            exp_a[b] = a; exp_p[b] = a * a / 4
    elif all(kc == 0 for kc in k):
        exp_a[0] = abs(a * np.cos(phase)); exp_p[0] = 0.5 * (a * np.cos(phase)) ** 2
    ok = np.allclose(amp, exp_a, atol=1e-10) and np.allclose(pw, exp_p, atol=1e-10)
    return ok, f"D={D} N={N} k={k}: amplitude spectrum {np.round(amp, 6).tolist()} expected {exp_a.tolist()}; power {np.round(pw, 6).tolist()} expected {exp_p.tolist()}"


def t_parseval(D, N, C, seed):
    ex, jnp = _ex()
    rng = np.random.default_rng(seed)
    u = rng.standard_normal((C,) + (N,) * D)
    pw = np.asarray(ex.get_spectrum(jnp.asarray(u), power=True))
    # part of u inside the Nyquist sphere |k| < N//2 + 1/2
    uh = np.fft.fftn(u, axes=tuple(range(1, D + 1)))
    ks = np.fft.fftfreq(N, 1 / N)
    kn = np.sqrt(sum(np.meshgrid(*[ks**2] * D, indexing="ij"))) if D > 1 else np.abs(ks)
    uin = np.real(np.fft.ifftn(uh * (kn < N // 2 + 0.5), axes=tuple(range(1, D + 1))))
    exp = 0.5 * np.mean(uin**2, axis=tuple(range(1, D + 1)))
    ok = np.allclose(pw.sum(axis=-1), exp, rtol=1e-10)
    sm = np.asarray(ex.get_spectrum(jnp.asarray(u), power=True, radial_binning="sum"))
    av = np.asarray(ex.get_spectrum(jnp.asarray(u), power=True, radial_binning="average"))
    if D > 1:
        modes = symbols.wavenumbers(D, N)
        cnt = np.zeros(N // 2 + 1)
        for _, k in modes:
            b = int(np.floor(np.linalg.norm(k) + 0.5))
            if b <= N // 2:
                cnt[b] += 1
        ok &= np.allclose(av[:, cnt > 0] * cnt[cnt > 0], sm[:, cnt > 0], rtol=1e-10)
    # channels independent
    one = np.asarray(ex.get_spectrum(jnp.asarray(u[:1]), power=True))
    ok &= np.allclose(one[0], pw[0], rtol=1e-12)
    return bool(ok), f"D={D} N={N}: sum of power spectrum {pw.sum(axis=-1)} vs half mean square inside the Nyquist sphere {exp}"


def t_homogeneous(D, N, C, seed, a):
    """the spectrum of a u is |a| (amplitude) resp. a^2 (power) times the spectrum of u, for tiny and huge a alike (no absolute threshold),
    for both binning modes"""
    ex, jnp = _ex()
    u = np.random.default_rng(seed).standard_normal((C,) + (N,) * D)
    for power in (True, False):
        for rb in (("sum", "average") if D >= 2 else ("sum",)):
            kw = dict(power=power) if D == 1 else dict(power=power, radial_binning=rb)
            s1 = np.asarray(ex.get_spectrum(jnp.asarray(u), **kw))
            sa = np.asarray(ex.get_spectrum(jnp.asarray(a * u), **kw))
            fac = a * a if power else abs(a)
            if s1.shape != sa.shape or not np.allclose(sa, fac * s1, rtol=1e-9, atol=0.0):
                bad = int(np.argmax(np.abs(sa - fac * s1) / (np.abs(fac * s1) + 1e-300)))
                return False, f"get_spectrum({a} u, power={power}, binning={rb}) != {fac} get_spectrum(u): entry {bad}: {sa.reshape(-1)[bad]} vs {fac * s1.reshape(-1)[bad]}"
    return True, ""


TESTS = dict(single_mode=t_single_mode, parseval=t_parseval, homogeneous=t_homogeneous)


def witness(ctx):
    deep = ctx.deep
    # grid sizes for which N * (1/N) != 1 in double precision (49, 98, 103, 107): Nyquist recognition and shell centres must not depend on it
    for D, N in ((1, 98), (1, 49), (2, 49), (1, 103)) + (((2, 98), (1, 196), (1, 107), (3, 49)) if deep else ()):
        ctx.check("parseval", dict(D=D, N=N, C=1, seed=ctx.seed + N))
        for k in ([N // 2] if D == 1 else [3, N // 2 - 1, N // 2]):
            ctx.check("single_mode", dict(D=D, N=N, k=[0] * (D - 1) + [k], phase=0.4))
    for D, N in ([(1, 8), (1, 9), (2, 6), (2, 7), (2, 16), (3, 4), (3, 5)] if not deep else [(1, 8), (1, 9), (1, 13), (2, 6), (2, 7), (2, 12), (2, 15), (2, 16), (3, 4), (3, 5), (3, 6), (3, 12)]):
        half = N // 2
        ks = list(itertools.product(range(-half, half + 1), repeat=D))
        ks = [k for k in ks if k[-1] >= 0]
        limit = 36 if not deep else 400
        if len(ks) > limit:
            # keep the outer shells (thin shell N//2 < |k| < N//2 + 1/2, top modes) and a random sample of the rest
            outer = [k for k in ks if np.linalg.norm(k) > half - 0.5]
            rest = [k for k in ks if np.linalg.norm(k) <= half - 0.5]
            pick = [rest[i] for i in ctx.rng.choice(len(rest), min(limit // 2, len(rest)), replace=False)]
            oi = ctx.rng.choice(len(outer), min(limit // 2, len(outer)), replace=False)
            ks = pick + [outer[i] for i in oi]
        for k in ks:
            ctx.check("single_mode", dict(D=D, N=N, k=list(k), phase=0.4), nontrivial=any(k))
        ctx.check("parseval", dict(D=D, N=N, C=2, seed=ctx.seed))
        if N <= 9 or deep:
            for a in ((1e-7, 1e4) if not deep else (1e-7, 1e-12, 1e4, -3.0)):
                ctx.check("homogeneous", dict(D=D, N=N, C=2, seed=ctx.seed, a=a))
