"""C13 — specific, generic, normalized and difficulty interfaces give the same dynamics."""
from fractions import Fraction

import numpy as np

from .. import core, symbols
from ..translate import genutils as tr_genutils
from ..translate import wiring as tr_wiring
from ..translate import buildnl as tr_buildnl
from ..translate import nonlin as tr_nonlin

ID = "C13"
PROPS_FILE = "C13"
RULE = ("correspondence: (a) all 16 conversion functions of stepper/generic/_utils.py vs the extracted Gen/GenericUtils.v on random dyadic inputs (exact rationals vs float64), "
        "(b) the linear operator of every stepper class vs the hand-written symbol model at every stored mode for D=1..3, L = 2*pi*q; witness: one step of each "
        "(specific, generic) pair, general vs normalized vs difficulty steppers, orders 0-4, D=1..3, rescaling invariance. Non-trivial: non-DC modes / non-empty lists; distinct by input hash.")
TRUSTED_EXTRA = ["harness/translate/genutils.py (conversion functions) and harness/translate/wiring.py (keyword forwarding through the super().__init__ chains; Python default arguments evaluated in double precision), harness/translate/buildnl.py (the constructor call returned by every _build_nonlinear_fun)"]
ASSUMPTIONS = ["nonlinear-term scaling (beta_1 = b dt/L etc.) is checked on the real code (witness) and proved only at the level of the tableaux (h*N)",
               "the zeroth-order coefficient of generic steppers acts as D*a_0 (documented '1.nabla^0')"]
FUNS = ["normalize_coefficients", "denormalize_coefficients", "normalize_convection_scale", "denormalize_convection_scale",
        "normalize_gradient_norm_scale", "denormalize_gradient_norm_scale", "normalize_polynomial_scales", "denormalize_polynomial_scales",
        "reduce_normalized_coefficients_to_difficulty", "extract_normalized_coefficients_from_difficulty",
        "reduce_normalized_convection_scale_to_difficulty", "extract_normalized_convection_scale_from_difficulty",
        "reduce_normalized_gradient_norm_scale_to_difficulty", "extract_normalized_gradient_norm_scale_from_difficulty",
        "reduce_normalized_nonlinear_scales_to_difficulty", "extract_normalized_nonlinear_scales_from_difficulty"]


def translate(ctx):
    """Gen/GenericUtils.v (conversion functions) and Gen/Wiring.v (the super().__init__ chains of the Normalized* / Difficulty*
    constructors, theorem C13_code_constructor_wiring), Gen/BuildNL.v (`_build_nonlinear_fun` of every stepper class, theorem
    C13_code_nonlinear_wiring); all are always attempted"""
    errors = []
    for name, tr in (("genutils", tr_genutils), ("wiring", tr_wiring), ("buildnl", tr_buildnl), ("nonlin", tr_nonlin)):
        try:
            tr.run()
        except Exception as e:
            errors.append(f"{name}: {type(e).__name__}: {e}")
    if errors:
        raise RuntimeError("; ".join(errors))


def _ex():
    import jax
    jax.config.update("jax_enable_x64", True)
    import jax.numpy as jnp
    import exponax as ex
    return ex, jnp


def correspond(ctx):
    ex, jnp = _ex()
    import exponax.stepper.generic._utils as U
    rng = ctx.rng
    names = [n for n, _, _ in tr_genutils.generate()[1]]
    if names != FUNS:
        ctx.broken("correspondence:function-list", f"functions in _utils.py changed: {names}")
    cases, meta = [], []
    reps = 6 if ctx.quick else 40
    for fid, fn in enumerate(FUNS, start=1):
        f = getattr(U, fn)
        for _ in range(reps):
            L, dt = symbols.dy(rng, 0.25, 4), symbols.dy(rng, 0.125, 2)
            D, N, M = int(rng.integers(1, 4)), int(rng.integers(3, 40)), symbols.dy(rng, 0.25, 3)
            ln = int(rng.integers(1, 7))
            lst = [symbols.dy(rng, -3, 3) for _ in range(ln)]
            x = symbols.dy(rng, -3, 3)
            if fid <= 8:
                payload = lst if fid in (1, 2, 7, 8) else [x]
                args = [fid, L, dt] + payload
                got = f(tuple(payload) if len(payload) > 1 or fid in (1, 2, 7, 8) else payload[0], domain_extent=L, dt=dt)
            elif fid in (9, 10):
                args = [fid, D, N] + lst
                got = f(tuple(lst), num_spatial_dims=D, num_points=N)
            elif fid in (15, 16):
                l3 = lst[:3] + [0.5] * (3 - len(lst[:3]))
                args = [fid, D, N, M] + l3
                got = f(tuple(l3), num_spatial_dims=D, num_points=N, maximum_absolute=M)
            else:
                args = [fid, D, N, M, x]
                got = f(x, num_spatial_dims=D, num_points=N, maximum_absolute=M)
            cases.append((1301, args))
            meta.append((fn, args[1:], np.atleast_1d(np.asarray(got, dtype=float))))
    res = core.run_model(cases)
    for (fn, args, got), mres in zip(meta, res):
        desc = dict(suite="conversion", fn=fn, args=[float(a) for a in args])
        ctx.case(desc)
        ctx.count("conversion")
        m = np.asarray([float(x) for x in mres])
        if not core.close(got, m, 1e-13):
            ctx.disagree("c13:conversion", desc, m, got)
    grid = [(1, 8), (2, 5)] if ctx.quick else [(1, 8), (1, 9), (2, 5), (2, 6), (3, 4), (3, 5)]
    for D, N in grid:
        symbols.compare(ctx, D, N, Fraction(3, 2) if D < 3 else Fraction(1, 2), "c13", full=True)


# ----------------------------------------------------------------------------------------------
def _state(D, N, C, seed):
    import jax.numpy as jnp
    rng = np.random.default_rng(seed)
    return jnp.asarray(rng.standard_normal((C,) + (N,) * D) * 0.5)


def _same(a, b, tol=1e-11):
    a, b = np.asarray(a), np.asarray(b)
    ok = core.close(a, b, tol)
    return ok, "" if ok else f"steps differ by {np.max(np.abs(a - b)):.3e}"


def t_pair(pair, D, N, order, seed):
    """a concrete stepper vs the generic stepper with the equivalent coefficient list"""
    ex, jnp = _ex()
    import exponax.stepper.generic as G
    S, R = ex.stepper, ex.stepper.reaction
    L, dt = 2.5, 0.03
    rng = np.random.default_rng(seed)
    c, nu, xi, mu, b = 0.7, 0.05, 0.3, 0.002, 1.3
    kw = dict(order=order)
    if pair == "advection":
        s, g = S.Advection(D, L, N, dt, velocity=c), G.GeneralLinearStepper(D, L, N, dt, linear_coefficients=(0.0, -c))
    elif pair == "diffusion":
        s, g = S.Diffusion(D, L, N, dt, diffusivity=nu), G.GeneralLinearStepper(D, L, N, dt, linear_coefficients=(0.0, 0.0, nu))
    elif pair == "advection_diffusion":
        s, g = S.AdvectionDiffusion(D, L, N, dt, velocity=c, diffusivity=nu), G.GeneralLinearStepper(D, L, N, dt, linear_coefficients=(0.0, -c, nu))
    elif pair == "dispersion":
        s, g = S.Dispersion(D, L, N, dt, dispersivity=xi), G.GeneralLinearStepper(D, L, N, dt, linear_coefficients=(0.0, 0.0, 0.0, xi))
    elif pair == "hyper_diffusion":
        s, g = S.HyperDiffusion(D, L, N, dt, hyper_diffusivity=mu), G.GeneralLinearStepper(D, L, N, dt, linear_coefficients=(0.0, 0.0, 0.0, 0.0, -mu))
    elif pair in ("burgers", "burgers_single", "burgers_conservative"):
        fl = dict(single_channel=pair == "burgers_single", conservative=pair == "burgers_conservative")
        s = S.Burgers(D, L, N, dt, diffusivity=nu, convection_scale=b, **fl, **kw)
        g = G.GeneralConvectionStepper(D, L, N, dt, linear_coefficients=(0.0, 0.0, nu), convection_scale=b, **fl, **kw)
    elif pair == "kdv":
        s = S.KortewegDeVries(D, L, N, dt, convection_scale=-6.0, diffusivity=nu, dispersivity=xi, hyper_diffusivity=mu, **kw)
        g = G.GeneralConvectionStepper(D, L, N, dt, linear_coefficients=(0.0, 0.0, nu, -xi, -mu), convection_scale=-6.0, **kw)
    elif pair == "ks_conservative":
        s = S.KuramotoSivashinskyConservative(D, L, N, dt, convection_scale=b, second_order_scale=0.4, fourth_order_scale=0.01, **kw)
        g = G.GeneralConvectionStepper(D, L, N, dt, linear_coefficients=(0.0, 0.0, -0.4, 0.0, -0.01), convection_scale=b, conservative=True, **kw)
    elif pair == "ks":
        s = S.KuramotoSivashinsky(D, L, N, dt, gradient_norm_scale=b, second_order_scale=0.4, fourth_order_scale=0.01, **kw)
        g = G.GeneralGradientNormStepper(D, L, N, dt, linear_coefficients=(0.0, 0.0, -0.4, 0.0, -0.01), gradient_norm_scale=b, **kw)
    elif pair == "fisher":
        r = 0.8
        s = R.FisherKPP(D, L, N, dt, diffusivity=nu, reactivity=r, **kw)
        g = G.GeneralPolynomialStepper(D, L, N, dt, linear_coefficients=(r / D, 0.0, nu), polynomial_coefficients=(0.0, 0.0, -r), **kw)
    elif pair == "allen_cahn":
        s = R.AllenCahn(D, L, N, dt, diffusivity=nu, first_order_coefficient=0.9, third_order_coefficient=-1.1, **kw)
        g = G.GeneralPolynomialStepper(D, L, N, dt, linear_coefficients=(0.9 / D, 0.0, nu), polynomial_coefficients=(0.0, 0.0, 0.0, -1.1), dealiasing_fraction=0.5, **kw)
    elif pair == "swift_hohenberg":     # 1D only (in D >= 2 the squared Laplacian has mixed terms the generic symbol does not)
        r, kc, poly = 0.7, (0.6, 1.5, 1.0)[seed % 3], (0.0, 0.0, 1.0, -1.0)
        s = R.SwiftHohenberg(D, L, N, dt, reactivity=r, critical_number=kc, polynomial_coefficients=poly, **kw)
        g = G.GeneralPolynomialStepper(D, L, N, dt, linear_coefficients=(r - kc**2, 0.0, -2.0 * kc, 0.0, -1.0), polynomial_coefficients=poly,
                                       dealiasing_fraction=0.5, **kw)
    elif pair in ("nonlinear_quadratic", "nonlinear_convection", "nonlinear_gradient_norm", "fisher_nonlinear"):
        lin = (0.1 / D, 0.0, nu)
        if pair == "nonlinear_quadratic":
            s = G.GeneralNonlinearStepper(D, L, N, dt, linear_coefficients=lin, nonlinear_coefficients=(b, 0.0, 0.0), **kw)
            g = G.GeneralPolynomialStepper(D, L, N, dt, linear_coefficients=lin, polynomial_coefficients=(0.0, 0.0, b), **kw)
        elif pair == "nonlinear_convection":
            s = G.GeneralNonlinearStepper(D, L, N, dt, linear_coefficients=lin, nonlinear_coefficients=(0.0, b, 0.0), **kw)
            g = G.GeneralConvectionStepper(D, L, N, dt, linear_coefficients=lin, convection_scale=-b, single_channel=True, conservative=True, **kw)
        elif pair == "nonlinear_gradient_norm":
            s = G.GeneralNonlinearStepper(D, L, N, dt, linear_coefficients=lin, nonlinear_coefficients=(0.0, 0.0, b), **kw)
            g = G.GeneralGradientNormStepper(D, L, N, dt, linear_coefficients=lin, gradient_norm_scale=-b, **kw)
        else:
            r = 0.8
            s = R.FisherKPP(D, L, N, dt, diffusivity=nu, reactivity=r, **kw)
            g = G.GeneralNonlinearStepper(D, L, N, dt, linear_coefficients=(r / D, 0.0, nu), nonlinear_coefficients=(-r, 0.0, 0.0), **kw)
    elif pair == "deprecated_alias":     # DiffultyLinearStepperSimple (misspelt, deprecated) must build the same stepper
        import warnings
        with warnings.catch_warnings():
            warnings.simplefilter("ignore")
            s = G.DiffultyLinearStepperSimple(D, N, difficulty=-1.5, order=2)
        g = G.DifficultyLinearStepperSimple(D, N, difficulty=-1.5, order=2)
    elif pair == "ns_vorticity":
        s = S.NavierStokesVorticity(D, L, N, dt, diffusivity=nu, drag=-0.2, vorticity_convection_scale=b, **kw)
        g = G.GeneralVorticityConvectionStepper(D, L, N, dt, linear_coefficients=(-0.2 / D, 0.0, nu), vorticity_convection_scale=b, **kw)
    elif pair in ("kolmogorov_vorticity", "kolmogorov_vorticity_neg"):
        ga = 0.7 if pair == "kolmogorov_vorticity" else -0.45
        s = S.KolmogorovFlowVorticity(D, L, N, dt, diffusivity=nu, drag=-0.2, convection_scale=b, injection_mode=2, injection_scale=ga, **kw)
        g = G.GeneralVorticityConvectionStepper(D, L, N, dt, linear_coefficients=(-0.2 / D, 0.0, nu), vorticity_convection_scale=b, injection_mode=2, injection_scale=ga, **kw)
    else:
        raise KeyError(pair)
    if s.num_channels != g.num_channels:
        return False, f"channel counts differ: {s.num_channels} vs {g.num_channels}"
    u = _state(D, N, s.num_channels, seed)
    return _same(s(u), g(u))


LINEAR_PAIRS = ["advection", "diffusion", "advection_diffusion", "dispersion", "hyper_diffusion", "deprecated_alias"]
NONLIN_PAIRS = ["burgers", "burgers_single", "burgers_conservative", "kdv", "ks_conservative", "ks", "fisher", "allen_cahn",
                "nonlinear_quadratic", "nonlinear_convection", "nonlinear_gradient_norm", "fisher_nonlinear", "swift_hohenberg"]


def t_normalized(family, D, N, order, seed, s=1.0, t=1.0):
    """general (L, dt, a, b) vs normalized (alpha, beta) vs difficulty (gamma, delta); (s, t) rescale L and dt with the groups fixed"""
    ex, jnp = _ex()
    import exponax.stepper.generic as G
    import exponax.stepper.generic._utils as U
    L, dt = 2.0 * s, 0.04 * t
    a = (0.1, -0.3, 0.02, 0.01, -0.0005)
    a = tuple(aj * s**j / t for j, aj in enumerate(a))
    al = U.normalize_coefficients(a, domain_extent=L, dt=dt)
    ga = U.reduce_normalized_coefficients_to_difficulty(al, num_spatial_dims=D, num_points=N)
    M = (2.5, 0.4, 1.7)[seed % 3] if (s, t) == (1.0, 1.0) else 1.0          # maximum_absolute; the documented delta_1 = beta_1 M N D, delta_2 = beta_2 M N^2 D
    if family == "linear":
        gen, nor, dif = (G.GeneralLinearStepper(D, L, N, dt, linear_coefficients=a), G.NormalizedLinearStepper(D, N, normalized_linear_coefficients=al),
                         G.DifficultyLinearStepper(D, N, linear_difficulties=ga))
    elif family == "convection":
        b = 1.4 * s / t
        be = U.normalize_convection_scale(b, domain_extent=L, dt=dt)
        de = be * M * N * D           # documented formula, not the library's own reduce function (an inverse pair can be wrong consistently)
        fl = (dict(), dict(conservative=True), dict(single_channel=True), dict(single_channel=True, conservative=True))[seed % 4] if D >= 2 else \
            (dict(), dict(conservative=True))[seed % 2]
        gen = G.GeneralConvectionStepper(D, L, N, dt, linear_coefficients=a, convection_scale=b, order=order, **fl)
        nor = G.NormalizedConvectionStepper(D, N, normalized_linear_coefficients=al, normalized_convection_scale=be, order=order, **fl)
        dif = G.DifficultyConvectionStepper(D, N, linear_difficulties=ga, convection_difficulty=de, maximum_absolute=M, order=order, **fl)
    elif family == "gradient_norm":
        b = 0.9 * s * s / t
        be = U.normalize_gradient_norm_scale(b, domain_extent=L, dt=dt)
        de = be * M * N**2 * D
        gen = G.GeneralGradientNormStepper(D, L, N, dt, linear_coefficients=a, gradient_norm_scale=b, order=order)
        nor = G.NormalizedGradientNormStepper(D, N, normalized_linear_coefficients=al, normalized_gradient_norm_scale=be, order=order)
        dif = G.DifficultyGradientNormStepper(D, N, linear_difficulties=ga, gradient_norm_difficulty=de, maximum_absolute=M, order=order)
    elif family == "polynomial":
        c = tuple(x / t for x in (0.0, 0.3, -0.7, 0.2))
        cn = U.normalize_polynomial_scales(c, dt=dt)
        gen = G.GeneralPolynomialStepper(D, L, N, dt, linear_coefficients=a, polynomial_coefficients=c, order=order)
        nor = G.NormalizedPolynomialStepper(D, N, normalized_linear_coefficients=al, normalized_polynomial_coefficients=cn, order=order)
        dif = G.DifficultyPolynomialStepper(D, N, linear_difficulties=ga, polynomial_difficulties=cn, order=order)
    elif family == "nonlinear":
        b = (0.4 / t, -0.8 * s / t, 0.5 * s * s / t)
        bn = (b[0] * dt, U.normalize_convection_scale(b[1], domain_extent=L, dt=dt), U.normalize_gradient_norm_scale(b[2], domain_extent=L, dt=dt))
        bd = (bn[0], bn[1] * M * N * D, bn[2] * M * N**2 * D)
        gen = G.GeneralNonlinearStepper(D, L, N, dt, linear_coefficients=a, nonlinear_coefficients=b, order=order)
        nor = G.NormalizedNonlinearStepper(D, N, normalized_linear_coefficients=al, normalized_nonlinear_coefficients=bn, order=order)
        dif = G.DifficultyNonlinearStepper(D, N, linear_difficulties=ga, nonlinear_difficulties=bd, maximum_absolute=M, order=order)
    else:
        raise KeyError(family)
    u = _state(D, N, gen.num_channels, seed)
    ref = _state(D, N, gen.num_channels, seed)
    # reference with (s, t) = (1, 1): only the groups matter
    r0 = None
    if (s, t) != (1.0, 1.0):
        ok0, d0 = t_normalized(family, D, N, order, seed)
    g_out, n_out, d_out = gen(u), nor(u), dif(u)
    ok1, d1 = _same(g_out, n_out, 1e-10)
    ok2, d2 = _same(n_out, d_out, 1e-10)
    return ok1 and ok2, f"general vs normalized: {d1 or 'ok'}; normalized vs difficulty: {d2 or 'ok'}"


def t_rescale(family, D, N, order, seed):
    """(L, dt, a, b) -> (s L, t dt, rescaled) leaves the step unchanged"""
    ex, jnp = _ex()
    import exponax.stepper.generic as G
    outs = []
    for s, t in ((1.0, 1.0), (2.0, 0.5), (0.5, 4.0)):
        L, dt = 2.0 * s, 0.04 * t
        a = tuple(aj * s**j / t for j, aj in enumerate((0.1, -0.3, 0.02, 0.01, -0.0005)))
        if family == "linear":
            g = G.GeneralLinearStepper(D, L, N, dt, linear_coefficients=a)
        elif family == "convection":
            g = G.GeneralConvectionStepper(D, L, N, dt, linear_coefficients=a, convection_scale=1.4 * s / t, order=order)
        elif family == "gradient_norm":
            g = G.GeneralGradientNormStepper(D, L, N, dt, linear_coefficients=a, gradient_norm_scale=0.9 * s * s / t, order=order)
        else:
            g = G.GeneralPolynomialStepper(D, L, N, dt, linear_coefficients=a, polynomial_coefficients=tuple(x / t for x in (0.0, 0.3, -0.7, 0.2)), order=order)
        outs.append(np.asarray(g(_state(D, N, g.num_channels, seed))))
    ok = core.close(outs[0], outs[1], 1e-10) and core.close(outs[0], outs[2], 1e-10)
    return ok, "" if ok else f"rescaled steppers differ by {max(np.max(np.abs(outs[0]-outs[1])), np.max(np.abs(outs[0]-outs[2]))):.3e}"


def t_roundtrip(seed):
    import exponax.stepper.generic._utils as U
    rng = np.random.default_rng(seed)
    a = tuple(rng.uniform(-2, 2, 5)); L, dt, D, N, M = 3.7, 0.013, int(rng.integers(1, 4)), 33, 1.7
    al = U.normalize_coefficients(a, domain_extent=L, dt=dt)
    ok = np.allclose(U.denormalize_coefficients(al, domain_extent=L, dt=dt), a, rtol=1e-12)
    ok &= np.allclose(al, [c * dt / L**j for j, c in enumerate(a)], rtol=1e-13)
    ga = U.reduce_normalized_coefficients_to_difficulty(al, num_spatial_dims=D, num_points=N)
    ok &= np.allclose(U.extract_normalized_coefficients_from_difficulty(ga, num_spatial_dims=D, num_points=N), al, rtol=1e-12)
    ok &= np.allclose(ga, [al[0]] + [al[j] * N**j * 2 ** (j - 1) * D for j in range(1, 5)], rtol=1e-13)
    return bool(ok), "conversion round trip / documented formula violated"


TESTS = dict(pair=t_pair, normalized=t_normalized, rescale=t_rescale, roundtrip=t_roundtrip)


def witness(ctx):
    deep = ctx.deep
    dn = [(1, 12), (2, 7)] if not deep else [(1, 12), (1, 11), (2, 7), (2, 8), (3, 7), (3, 6)]
    for D, N in dn:
        for p in LINEAR_PAIRS:
            ctx.check("pair", dict(pair=p, D=D, N=N, order=0, seed=ctx.seed))
        for p in NONLIN_PAIRS:
            if (p == "ks_conservative" and D > 1 and not deep) or (p == "swift_hohenberg" and D > 1):
                continue
            for order in ((2,) if not deep else (1, 2, 3, 4)):
                ctx.check("pair", dict(pair=p, D=D, N=N, order=order, seed=ctx.seed))
        if D == 2:
            for p in ("ns_vorticity", "kolmogorov_vorticity", "kolmogorov_vorticity_neg"):
                for order in ((2,) if not deep else (1, 2, 3, 4)):
                    ctx.check("pair", dict(pair=p, D=D, N=N + 1, order=order, seed=ctx.seed))
        for fam in ("linear", "convection", "gradient_norm", "polynomial", "nonlinear"):
            for order in ((2,) if not deep else (0, 1, 2, 3, 4)):
                ctx.check("normalized", dict(family=fam, D=D, N=N, order=order, seed=ctx.seed))
        if D >= 2:      # every flag combination of the convection family (the flags select a different nonlinear term)
            for k in range(1, 4):
                ctx.check("normalized", dict(family="convection", D=D, N=N, order=2, seed=ctx.seed + k))
        for fam in ("linear", "convection", "gradient_norm", "polynomial"):
            ctx.check("rescale", dict(family=fam, D=D, N=N, order=2, seed=ctx.seed))
    for i in range(3):
        ctx.check("roundtrip", dict(seed=ctx.seed + i))
