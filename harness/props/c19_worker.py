"""C19 worker: evaluates a batch of cases on the REAL code inside ONE JAX session.

The precision of the session is fixed by the environment of the process (JAX_ENABLE_X64=0 -> float32 default,
JAX_ENABLE_X64=1 -> float64 default); this file never touches jax.config.  Usage:

    env JAX_ENABLE_X64=0 python -m harness.props.c19_worker < cases.json > results.json

stdin: JSON list of case dicts (see `run_case`), stdout: a marker followed by one JSON object {"session": dtype, "results": [...]}.
States are generated with NumPy only (so both sessions see bit-identical float32-representable inputs).
"""
import json
import sys

import numpy as np

FORCED = ("KolmogorovFlowVorticity", "KolmogorovFlowVelocity")


def make_state(C, D, N, kind, seed, amp):
    """float32-representable state of shape (C, N, ..., N): 'zero', 'noise' (white, O(amp)) or 'smooth' (band-limited, max = amp)"""
    shape = (C,) + (N,) * D
    if kind == "zero":
        return np.zeros(shape, dtype=np.float32)
    rng = np.random.default_rng([seed, C, D, N])
    if kind == "noise":
        return (amp * rng.standard_normal(shape)).astype(np.float32)
    x = np.arange(N) / N
    grids = np.meshgrid(*([x] * D), indexing="ij")
    u = np.zeros(shape)
    for c in range(C):
        for _ in range(5):
            k = rng.integers(0, 4, size=D)
            ph = rng.uniform(0, 2 * np.pi)
            u[c] += rng.standard_normal() * np.cos(2 * np.pi * sum(int(kd) * g for kd, g in zip(k, grids)) + ph)
    u *= amp / max(float(np.max(np.abs(u))), 1e-12)
    return u.astype(np.float32)


def cplx_list(v):
    v = np.asarray(v).astype(np.complex128).reshape(-1)
    return [[float(z.real), float(z.imag)] for z in v]


def build(c):
    from harness import registry
    kw = dict(c.get("kw") or {})
    for k, v in list(kw.items()):
        if isinstance(v, list):
            kw[k] = tuple(v)
    if c.get("order") is not None:
        kw["order"] = c["order"]
    return registry.make(c["cls"], c["D"], c["N"], L=c.get("L", 3.0), dt=c.get("dt", 0.01), **kw)


def integrator_arrays(stepper):
    integ = stepper._integrator
    out = {}
    for n in sorted(vars(integ)):
        if n.startswith("_coef_") or n in ("_exp_term", "_half_exp_term"):
            out[n] = getattr(integ, n)
    return out


def run_case(c):
    import jax.numpy as jnp
    import exponax as ex
    default = jnp.zeros(()).dtype
    kind = c["kind"]
    if kind == "coef":
        # ETDRKp coefficient arrays for a list of symbols; the linear operator is given in the session's complex dtype
        cdt = jnp.complex128 if default == jnp.float64 else jnp.complex64
        lam = np.asarray([complex(a, b) for a, b in c["lam"]])
        lin = jnp.asarray(lam, dtype=cdt)[None, :]
        integ = ex.etdrk.ETDRK0(c["dt"], lin) if c["p"] == 0 else getattr(ex.etdrk, f"ETDRK{c['p']}")(c["dt"], lin, lambda u: u)
        res = dict(default=str(default), arrays={}, zeff=cplx_list(np.asarray(lin * c["dt"])[0]))   # lambda*dt as the code forms it
        for n in sorted(vars(integ)):
            if n.startswith("_coef_") or n in ("_exp_term", "_half_exp_term"):
                v = np.asarray(getattr(integ, n))
                res["arrays"][n] = dict(dtype=str(v.dtype), finite=bool(np.all(np.isfinite(v))),
                                        nonfinite_at=[int(i) for i in np.nonzero(~np.isfinite(v[0]))[0][:5]],
                                        values=cplx_list(np.where(np.isfinite(v[0]), v[0], 0)))
        return res
    if kind == "step":
        # one stepper, several states (building the stepper dominates the cost)
        s = build(c)
        C, D, N = s.num_channels, s.num_spatial_dims, s.num_points
        arrs = integrator_arrays(s)
        res = dict(default=str(default), integrator=type(s._integrator).__name__, C=C,
                   arrays={n: dict(dtype=str(v.dtype), finite=bool(np.all(np.isfinite(np.asarray(v))))) for n, v in arrs.items()},
                   runs=[])
        for st in c["states"]:
            u_np = make_state(C, D, N, st["state"], st.get("seed", 0), st.get("amp", 1.0))
            u = jnp.asarray(u_np, dtype=default)
            out = s(u)
            o = np.asarray(out)
            r = dict(in_dtype=str(u.dtype), out_dtype=str(out.dtype), shape=list(o.shape), finite=bool(np.all(np.isfinite(o))),
                     in_norm=float(np.linalg.norm(u_np.astype(np.float64))), in_max=float(np.max(np.abs(u_np))) if u_np.size else 0.0)
            if r["finite"]:
                r["norm"] = float(np.linalg.norm(o.astype(np.float64)))
                r["maxabs"] = float(np.max(np.abs(o)))
            if st.get("ret"):
                r["out"] = [float(x) for x in o.astype(np.float64).reshape(-1)]
            res["runs"].append(r)
        return res
    if kind == "analytic":
        # linear equations are integrated exactly: one step of a single Fourier mode vs the analytic solution, in this session's precision
        D, N, L, dt, m = c["D"], c["N"], c["L"], c["dt"], c["mode"]
        grid = ex.make_grid(D, L, N)
        op = ex.spectral.build_derivative_operator(D, L, N)
        g = np.asarray(grid).astype(np.float64)
        kap = [2 * np.pi * m / L if d == D - 1 else 2 * np.pi * 2 / L for d in range(D)]     # mode m along the rfft axis, 2 along the others
        phase = sum(k * g[d] for d, k in enumerate(kap))[None]
        u0 = jnp.asarray(np.sin(phase), dtype=default)
        ph = phase                                       # analytic solution from the exact phase (input rounding is part of the error)
        nu, vel, xi = 0.01, 1.0, 1e-4
        k2, k1, k3 = sum(k * k for k in kap), sum(kap), sum(k ** 3 for k in kap)
        res = dict(default=str(default), grid_dtype=str(grid.dtype), op_dtype=str(op.dtype), errs={}, out_dtypes={})
        outs = {
            "Diffusion": (ex.stepper.Diffusion(D, L, N, dt, diffusivity=nu)(u0), np.exp(-nu * k2 * dt) * np.sin(ph)),
            "Advection": (ex.stepper.Advection(D, L, N, dt, velocity=vel)(u0), np.sin(ph - vel * dt * k1)),
            "Dispersion": (ex.stepper.Dispersion(D, L, N, dt, dispersivity=xi)(u0), np.sin(ph - xi * dt * k3)),
        }
        # wave equation h_tt = c^2 Lap h from (h, v) = (sin, 0.3 w cos): h = sin(ph) cos(w t) + 0.3 cos(ph) sin(w t), v = h_t
        cs = 1.3
        om = cs * np.sqrt(k2)
        w0 = jnp.asarray(np.concatenate([np.sin(ph), 0.3 * om * np.cos(ph)]), dtype=default)
        wave = ex.stepper.Wave(D, L, N, dt, speed_of_sound=cs)(w0)
        outs["Wave"] = (wave, np.concatenate([np.sin(ph) * np.cos(om * dt) + 0.3 * np.cos(ph) * np.sin(om * dt),
                                             om * (-np.sin(ph) * np.sin(om * dt) + 0.3 * np.cos(ph) * np.cos(om * dt))]) )
        # states whose dtype is not the session default (an integer-valued profile; in an x64 session also a float32 array): the result
        # carries the SESSION's floating dtype
        prof = np.round(2 * np.sin(ph)).astype(np.int32)
        res["foreign"] = {}
        for tag, arr in (("int32", jnp.asarray(prof)),) + ((("float32", jnp.asarray(np.sin(ph), dtype=jnp.float32)),) if str(default) == "float64" else ()):
            for nm, st in (("Diffusion", ex.stepper.Diffusion(D, L, N, dt, diffusivity=nu)), ("Burgers", ex.stepper.Burgers(D, L, N, dt, single_channel=True, order=2))):
                o = st(arr)
                ref = st(jnp.asarray(np.asarray(arr), dtype=default))
                res["foreign"][f"{nm}/{tag}"] = dict(dtype=str(o.dtype), dev=float(np.max(np.abs(np.asarray(o, dtype=np.float64) - np.asarray(ref, dtype=np.float64)))))
        for n, (got, want) in outs.items():
            o = np.asarray(got)
            res["out_dtypes"][n] = str(o.dtype)
            res["errs"][n] = float(np.max(np.abs(o.astype(np.float64) - want)) / max(1.0, np.max(np.abs(want)))) if np.all(np.isfinite(o)) else float("inf")
        return res
    raise KeyError(kind)


def run_batch(cases):
    import jax.numpy as jnp
    results = []
    for c in cases:
        try:
            results.append(run_case(c))
        except Exception as e:      # a crash on a legitimate configuration is reported to the caller, which fails the test
            results.append(dict(error=f"{type(e).__name__}: {e}"[:500]))
    return dict(session=str(jnp.zeros(()).dtype), results=results)


MARK = "@@C19-RESULT@@"

if __name__ == "__main__":
    import os
    if os.environ.get("C19_LATE_X64") == "1":
        # double precision switched on AFTER the library was imported (jax.config.update, the other documented switch): anything the
        # library evaluates at import time must not freeze the single-precision default
        import exponax  # noqa: F401
        import jax
        jax.config.update("jax_enable_x64", True)
    cases = json.load(sys.stdin)
    real_stdout = sys.stdout
    sys.stdout = sys.stderr          # the library prints warnings (e.g. KS conservative in 2D); keep them out of the result
    res = run_batch(cases)
    real_stdout.write("\n" + MARK + json.dumps(res) + "\n")
    real_stdout.flush()
