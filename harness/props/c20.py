"""C20 — malformed states and unsupported configurations are rejected, not accepted."""
import itertools

import numpy as np

from .. import core, registry
from ..translate import guards as tr_guards

ID = "C20"
PROPS_FILE = "C20"
RULE = ("correspondence: raise / no-raise of the real code vs the extracted guard predicates (Gen/Guards.v) for every exported stepper class x admissible D x "
        "a family of well- and mal-formed state shapes (wrong channel count, extra batch axis, missing axis, unequal axis lengths, wrong N), RepeatedStepper, "
        "Poisson, operator parities, dimension restrictions, option validation; witness: the property itself (ValueError on every malformed shape, "
        "well-formed shapes accepted with the same output shape). Non-trivial: every case (both accept and reject paths are exercised); distinct by input hash.")
ASSUMPTIONS = ["only shapes/flags are modelled; array contents are irrelevant to the guards",
               "Python IndexError on a rank-0 input is not modelled (nth with default)"]
MODES = tr_guards.MODES


def translate(ctx):
    tr_guards.run()


def _ex():
    import jax
    jax.config.update("jax_enable_x64", True)
    import jax.numpy as jnp
    import exponax as ex
    return ex, jnp


def shapes_for(C, D, N):
    good = (C,) + (N,) * D
    out = [good, (C + 1,) + (N,) * D, (1,) + good, good[:-1], good + (N,), (C,) + (N,) * (D - 1) + (N + 1,), (C,) + (N + 2,) * D]
    if D >= 2:
        out.append((C, N + 1) + (N,) * (D - 1))
    if C > 1:
        out.append((C - 1,) + (N,) * D)
    return [s for s in dict.fromkeys(out) if len(s) >= 1]


def raises(fn, exc=(ValueError,)):
    try:
        fn()
    except exc:
        return True
    except TypeError as e:     # a broadcast failure deep inside is not a documented rejection
        return "TypeError"
    return False


def correspond(ctx):
    ex, jnp = _ex()
    cases, impl, descs = [], [], []

    def add(mid, args, got, desc):
        cases.append((mid, args)); impl.append(got); descs.append(desc)

    names = sorted(registry.classes())
    if ctx.quick:
        names = names[ctx.seed % 3::3] + ["Burgers", "NavierStokesVelocity", "KolmogorovFlowVorticity", "GrayScott"]
        names = sorted(set(names))
    N = 6
    for name in names:
        for D in registry.dims(name):
            if ctx.quick and D == 3 and name not in ("NavierStokesVelocity", "KolmogorovFlowVelocity", "Burgers"):
                continue
            s = registry.make(name, D, N)
            C = s.num_channels
            rs = ex.RepeatedStepper(s, 2)
            for sh in shapes_for(C, D, N):
                u = jnp.ones(sh)
                add(2001, [C, D, N] + list(sh), raises(lambda: s(u)), dict(call="stepper", cls=name, D=D, N=N, shape=list(sh)))
                if name in ("Burgers", "Diffusion", "GrayScott", "NavierStokesVorticity"):
                    add(2002, [C, D, N] + list(sh), raises(lambda: rs(u)), dict(call="repeated", cls=name, D=D, N=N, shape=list(sh)))
    for D in (1, 2, 3):
        p = ex.poisson.Poisson(D, 2.0, N)
        for C in (1, 2):
            for sh in shapes_for(C, D, N) + [(N,) * D]:
                add(2003, [D, N] + list(sh), raises(lambda: p(jnp.ones(sh))), dict(call="poisson", D=D, N=N, shape=list(sh)))
    dop = {D: ex.spectral.build_derivative_operator(D, 1.0, N) for D in (1, 2, 3)}
    for order in range(0, 8):
        add(2004, [order], raises(lambda: ex.spectral.build_laplace_operator(dop[2], order=order)), dict(call="laplace", order=order))
        for D in (1, 2, 3):
            for vl in (D, D + 1, 1):
                add(2005, [order, D, vl], raises(lambda: ex.spectral.build_gradient_inner_product_operator(dop[D], jnp.ones(vl), order=order)),
                    dict(call="gip", order=order, D=D, vlen=vl))
    for D in (2, 3):
        for C in (1, 2, 3, 4):
            sh = (C,) + (N,) * D
            add(2006, list(sh), raises(lambda: ex.spectral.make_incompressible(jnp.ones(sh))), dict(call="make_incompressible", shape=list(sh)))
    for D in (1, 2, 3):
        sh = (1,) + (N,) * (D - 1) + (N // 2 + 1,)
        for dn, nn in itertools.product((False, True), repeat=2):
            kw = {}
            if not dn:
                kw["num_spatial_dims"] = D
            if not nn:
                kw["num_points"] = N
            add(2007, [D, dn, nn] + list(sh), raises(lambda: ex.ifft(jnp.ones(sh, dtype=complex), **kw)), dict(call="ifft", D=D, D_none=dn, N_none=nn))
    for zm, so, mo in itertools.product((False, True), repeat=3):
        add(2008, [zm, so, mo], raises(lambda: ex.ic.GaussianRandomField(1, zero_mean=zm, std_one=so, max_one=mo)),
            dict(call="ic_options", zero_mean=zm, std_one=so, max_one=mo))
        for D in (1, 2):
            for oz in (True, False):
                add(2015, [D, oz, so, mo], raises(lambda: ex.ic.RandomSineWaves1d(D, offset_range=(0.0, 0.0) if oz else (0.5, 1.0), std_one=so, max_one=mo)),
                    dict(call="random_sine", D=D, offset_zero=oz, std_one=so, max_one=mo))
    u = jnp.ones((1, N))
    for mode in ("absolute", "normalized", "symmetric"):
        for ref in (None, u * 2):
            add(2009, [ref is None, MODES[mode]], raises(lambda: ex.metrics.spatial_norm(u, ref, mode=mode)), dict(call="spatial_norm", mode=mode, ref_none=ref is None))
            if mode != "symmetric":
                add(2010, [ref is None, MODES[mode]], raises(lambda: ex.metrics.fourier_norm(u, ref, mode=mode)), dict(call="fourier_norm", mode=mode, ref_none=ref is None))
    for ln in (0, 1, 2, 3, 4):
        add(2011, [ln], raises(lambda: ex.nonlin_fun.GeneralNonlinearFun(1, N, derivative_operator=dop[1], dealiasing_fraction=2 / 3, scale_list=(0.1,) * ln)),
            dict(call="general_nonlin", len=ln))
        add(2012, [ln], raises(lambda: ex.stepper.generic.GeneralNonlinearStepper(1, 1.0, N, 0.1, nonlinear_coefficients=(0.1,) * ln)), dict(call="general_nonlin_stepper", len=ln))
    dimcls = ["NavierStokesVorticity", "KolmogorovFlowVorticity", "GeneralVorticityConvectionStepper", None, "NavierStokesVelocity", "KolmogorovFlowVelocity", None]
    for which, name in enumerate(dimcls):
        for D in (1, 2, 3):
            if name:
                f = lambda: registry.make(name, D, N)
            elif which == 3:
                f = lambda: ex.nonlin_fun.VorticityConvection2d(D, N, derivative_operator=dop[D], dealiasing_fraction=2 / 3)
            else:
                f = lambda: ex.nonlin_fun.ProjectedConvection3d(D, N, derivative_operator=dop[D], dealiasing_fraction=2 / 3)
            add(2013, [which, D], raises(f), dict(call="dimension_guard", which=name or ("VorticityConvection2d" if which == 3 else "ProjectedConvection3d"), D=D))
    for D in (1, 2, 3):
        for cons in (True, False):
            nl = ex.nonlin_fun.ConvectionNonlinearFun(D, N, derivative_operator=dop[D], conservative=cons)
            for C in (1, 2, 3, 4):
                sh = (C,) + (N,) * (D - 1) + (N // 2 + 1,)
                add(2014, [0 if cons else 1, D] + list(sh), raises(lambda: nl(jnp.ones(sh, dtype=complex))), dict(call="convection_channels", conservative=cons, D=D, C=C))
    for T in (1, 3, 4):
        for T2 in (T, T + 1):
            for m in (1, T, T + 1):
                add(2016, [m, T, T2], raises(lambda: ex.stack_sub_trajectories((jnp.ones((T, 2)), jnp.ones((T2,))), m)), dict(call="stack_sub", sub_len=m, lens=[T, T2]))
    res = core.run_model(cases)
    for (mid, args), got, desc, mres in zip(cases, impl, descs, res):
        ctx.case(desc)
        ctx.count(desc["call"])
        exp = bool(mres[0])
        if got != exp:
            ctx.disagree("c20:" + desc["call"], desc, "raises" if exp else "accepts", got)


# ---------------------------------------------------------------------------------------------------
def t_order_rejected(cls, D, order):
    """the ETDRK order must be one of 0..4: everything else (negative orders included) is rejected at construction"""
    ex, jnp = _ex()
    r = raises(lambda: registry.make(cls, D, 8, order=order), exc=(ValueError, NotImplementedError))
    ok = (r is True) if order not in (0, 1, 2, 3, 4) else (r is False)
    return ok, f"{cls}(D={D}, order={order}): {'rejected' if r is True else 'accepted' if r is False else r}"


def t_stepper_shapes(cls, D, N, opts=None):
    """every malformed shape raises ValueError; the well-formed one is accepted and returns the same shape; opts: non-default boolean flags
    (a single-channel flag changes the expected number of channels: 1 instead of D)"""
    ex, jnp = _ex()
    s = registry.make(cls, D, N, **dict(opts or {}))
    C = s.num_channels
    if (opts or {}).get("single_channel") and C != 1:
        return False, f"{cls}(single_channel=True) in D={D} expects {C} channels, documented: 1"
    if "single_channel" in (opts or {}) and not opts["single_channel"] and cls != "KuramotoSivashinskyConservative" and C != D:
        return False, f"{cls}(single_channel=False) in D={D} expects {C} channels, documented: {D}"
    good = (C,) + (N,) * D
    out = s(jnp.ones(good) * 0.1)
    if out.shape != good:
        return False, f"well-shaped state {good} returned shape {out.shape}"
    for wrapped in (s, ex.RepeatedStepper(s, 2)):
        for sh in shapes_for(C, D, N)[1:]:
            r = raises(lambda: wrapped(jnp.ones(sh) * 0.1))
            if r is not True:
                return False, f"{type(wrapped).__name__}({cls}) with C={C}, D={D}, N={N} did not raise ValueError for shape {sh} ({r})"
    # the rejection must not depend on the calling context: traced states (jit, vmap over an outer batch, rollout) are validated too
    import jax
    import equinox as eqx
    bads = shapes_for(C, D, N)[1:]
    for sh in (bads[0], bads[-1]) if len(bads) > 1 else bads:
        bad = jnp.ones(sh) * 0.1
        for what, call in (("eqx.filter_jit", lambda: eqx.filter_jit(s)(bad)), ("jax.jit", lambda: jax.jit(lambda v: s(v))(bad)),
                           ("jax.vmap", lambda: jax.vmap(s)(jnp.stack([bad, bad]))), ("rollout", lambda: ex.rollout(s, 2)(bad))):
            r = raises(call)
            if r is not True:
                return False, f"{cls} with C={C}, D={D}, N={N}: a state of shape {sh} is not rejected under {what} ({r})"
    return True, ""


def t_poisson_shapes(D, N):
    ex, jnp = _ex()
    p = ex.poisson.Poisson(D, 2.0, N)
    good = (1,) + (N,) * D
    if p(jnp.ones(good)).shape != good:
        return False, "Poisson changed the shape of a well-formed input"
    bad = [(N,) * D, (2, 1) + (N,) * D, (1,) + (N,) * (D - 1) + (N + 1,), (1,) + (N,) * (D + 1), (1,) + (N,) * (D - 1)]
    for sh in bad:
        if len(sh) < 1:
            continue
        r = raises(lambda: p(jnp.ones(sh)))
        if r is not True:
            return False, f"Poisson(D={D}, N={N}) accepted shape {sh} ({r})"
    return True, ""


def t_dimension(cls, D):
    ok_dims = registry.dims(cls)
    r = raises(lambda: registry.make(cls, D, 8))
    want = D not in ok_dims
    return (r is True) == want and r != "TypeError", f"{cls}(D={D}) raised={r}, expected raise={want}"


def t_nonlin_dimension(which, D):
    ex, jnp = _ex()
    dop = ex.spectral.build_derivative_operator(D, 1.0, 8)
    cls, ok = {"VorticityConvection2d": (ex.nonlin_fun.VorticityConvection2d, 2), "VorticityConvection2dKolmogorov": (ex.nonlin_fun.VorticityConvection2dKolmogorov, 2),
               "ProjectedConvection3d": (ex.nonlin_fun.ProjectedConvection3d, 3), "ProjectedConvection3dKolmogorov": (ex.nonlin_fun.ProjectedConvection3dKolmogorov, 3)}[which]
    kw = dict(derivative_operator=dop, dealiasing_fraction=2 / 3)
    if "Kolmogorov" in which:
        kw.update(injection_mode=1, injection_scale=1.0)
    r = raises(lambda: cls(D, 8, **kw))
    return (r is True) == (D != ok), f"{which}(D={D}) raised={r}"


def t_generator_options(gen, D, lo, hi, std_one, max_one):
    """documented-invalid normalisation options of the generators are rejected, valid ones accepted: a non-zero mean (offset range other than
    exactly (0, 0), zero_mean=False) cannot be combined with std_one; std_one and max_one exclude each other"""
    ex, jnp = _ex()
    nonzero = not (lo == 0 and hi == 0)
    if gen == "RandomTruncatedFourierSeries":
        mk = lambda: ex.ic.RandomTruncatedFourierSeries(D, offset_range=(lo, hi), std_one=std_one, max_one=max_one)
    elif gen == "RandomSineWaves1d":
        mk = lambda: ex.ic.RandomSineWaves1d(1, offset_range=(lo, hi), std_one=std_one, max_one=max_one)
    elif gen == "GaussianRandomField":
        mk = lambda: ex.ic.GaussianRandomField(D, zero_mean=not nonzero, std_one=std_one, max_one=max_one)
    elif gen == "DiffusedNoise":
        mk = lambda: ex.ic.DiffusedNoise(D, zero_mean=not nonzero, std_one=std_one, max_one=max_one)
    else:
        mk = lambda: ex.ic.RandomDiscontinuities(D, zero_mean=not nonzero, std_one=std_one, max_one=max_one)
    want = (nonzero and std_one) or (std_one and max_one)
    got = raises(mk)
    if got == "TypeError":
        return False, f"{gen}: TypeError instead of a documented rejection / acceptance"
    return got == want, f"{gen}(D={D}, offset/mean range ({lo}, {hi}), std_one={std_one}, max_one={max_one}): {'rejected' if got else 'accepted'}, documented: {'invalid' if want else 'valid'}"


def t_convection_channels(D, N, conservative):
    """the multi-channel convection term needs exactly D channels: every other count (1 included) is rejected, also through step_fourier"""
    ex, jnp = _ex()
    dop = ex.spectral.build_derivative_operator(D, 3.0, N)
    nl = ex.nonlin_fun.ConvectionNonlinearFun(D, N, derivative_operator=dop, dealiasing_fraction=2 / 3, scale=1.0, single_channel=False, conservative=conservative)
    shape_hat = (N,) * (D - 1) + (N // 2 + 1,)
    for C in sorted({1, D - 1, D + 1, 2 * D} - {D, 0}):
        r = raises(lambda: nl(jnp.ones((C,) + shape_hat, dtype=complex)))
        if r is not True:
            return False, f"ConvectionNonlinearFun(D={D}, single_channel=False, conservative={conservative}) accepts {C} channels ({r})"
        st = ex.stepper.Burgers(D, 3.0, N, 0.1, conservative=conservative)
        r = raises(lambda: st.step_fourier(jnp.ones((C,) + shape_hat, dtype=complex)))
        if r is not True:
            return False, f"Burgers(D={D}, conservative={conservative}).step_fourier accepts {C} channels ({r})"
    good = nl(jnp.ones((D,) + shape_hat, dtype=complex))
    return good.shape == (D,) + shape_hat, f"well-shaped input returned {good.shape}"


TESTS = dict(order_rejected=t_order_rejected, convection_channels=t_convection_channels, generator_options=t_generator_options, stepper_shapes=t_stepper_shapes, poisson_shapes=t_poisson_shapes, dimension=t_dimension, nonlin_dimension=t_nonlin_dimension)


def witness(ctx):
    names = sorted(registry.classes())
    for name in names:
        for D in (1, 2, 3):
            ctx.check("dimension", dict(cls=name, D=D))
        if ctx.quick and not ctx.deep and (hash(name) + ctx.seed) % 4:
            continue
        for D in registry.dims(name):
            if D == 3 and not ctx.deep and name not in ("NavierStokesVelocity", "KolmogorovFlowVelocity"):
                continue
            ctx.check("stepper_shapes", dict(cls=name, D=D, N=6))
    for gen in ("RandomTruncatedFourierSeries", "RandomSineWaves1d", "GaussianRandomField", "DiffusedNoise", "RandomDiscontinuities"):
        ranges = ((0.0, 0.0), (0.0, 1.0), (0, 3), (-1.0, 0.0), (-1.0, 1.0), (0.5, 0.5)) if gen in ("RandomTruncatedFourierSeries", "RandomSineWaves1d") else ((0.0, 0.0), (0.0, 1.0))
        for lo, hi in ranges:
            for so, mo in ((False, False), (True, False), (False, True), (True, True)):
                ctx.check("generator_options", dict(gen=gen, D=1 + (ctx.seed + len(gen)) % 3 if gen != "RandomSineWaves1d" else 1, lo=lo, hi=hi, std_one=so, max_one=mo))
    for D in (2, 3):
        for cons in (False, True):
            ctx.check("convection_channels", dict(D=D, N=6, conservative=cons))
    for name in names:
        for opts in registry.flag_variants(name):
            if "single_channel" in opts:
                for D in ((2,) if not ctx.deep else (2, 3)):
                    if D in registry.dims(name):
                        ctx.check("stepper_shapes", dict(cls=name, D=D, N=6, opts=opts))
    for j, name in enumerate([n for n in names if registry.has_order(n) and n != "DifficultyLinearStepperSimple"]):      # (there `order` is the derivative order)
        if ctx.deep or (j + ctx.seed) % 5 == 0 or name in ("Burgers", "KuramotoSivashinsky"):
            for order in (-1, -2, -3, -4, 5, 7):
                ctx.check("order_rejected", dict(cls=name, D=registry.dims(name)[0], order=order))
            ctx.check("order_rejected", dict(cls=name, D=registry.dims(name)[0], order=3))
    for D in (1, 2, 3):
        ctx.check("poisson_shapes", dict(D=D, N=6))
        for which in ("VorticityConvection2d", "VorticityConvection2dKolmogorov", "ProjectedConvection3d", "ProjectedConvection3dKolmogorov"):
            ctx.check("nonlin_dimension", dict(which=which, D=D))
