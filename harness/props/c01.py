"""C01 — linear steppers advance band-limited states by the exact PDE solution."""
import itertools
from fractions import Fraction

import numpy as np

from .. import core, symbols
from ..translate import etdrk as tr_etdrk
from ..translate import linops as tr_linops
from ..translate import wave as tr_wave

ID = "C01"
PROPS_FILE = "C01"
RULE = ("translator: every _build_linear_operator under exponax/stepper (Wave excluded) and the two operator builders of _spectral.py are re-translated to Gen/LinOps.v "
        "and proved equal to the symbol model for all arguments; correspondence: (a) _build_linear_operator of every stepper class vs the extracted symbol model at every stored mode (exact rationals, L = 2 pi q), "
        "(b) _exp_term vs exp(dt*lambda) for the linear classes, (c) Wave.step_fourier vs the extracted wave_mode at every stored mode; witness: stepper(u) vs the analytic "
        "solution of the DOCUMENTED PDE for single modes and superpositions below Nyquist (symbols recomputed in Python from the docstring formulas), n-fold vs n*dt, -dt round trip, "
        "dt up to 1e3. Non-trivial: non-constant modes; distinct by input hash.")
TRUSTED_EXTRA = ["harness/translate/linops.py (kinds / broadcasting / einsum reading of every _build_linear_operator) and harness/translate/etdrk.py (coefficient integrands, stage programs, BaseStepper plumbing as text), harness/translate/wave.py (Wave.step_fourier for one mode)"]
ASSUMPTIONS = ["jnp.exp is the exponential; rfftn/irfftn are the DFT pair of C04", "symbol calculus for exponentials (d/dx e^{ikx} = ik e^{ikx})"]


def translate(ctx):
    """Gen/ETDRK.v and Gen/LinOps.v (the per-mode linear symbols of every stepper class, tied to Spectral/Symbols.v by
    Tie/LinOpsTie.v and the theorem C01_code_symbols_are_model_symbols), Gen/WaveGen.v (Wave.step_fourier for one mode, theorem
    C01_code_wave_step_is_model); all are always attempted"""
    errors = []
    for name, tr in (("etdrk", tr_etdrk), ("linops", tr_linops), ("wave", tr_wave)):
        try:
            tr.run()
        except Exception as e:
            errors.append(f"{name}: {type(e).__name__}: {e}")
    if errors:
        raise tr_linops.TranslationError("; ".join(errors))


def _ex():
    import jax
    jax.config.update("jax_enable_x64", True)
    import jax.numpy as jnp
    import exponax as ex
    return ex, jnp


def correspond(ctx):
    ex, jnp = _ex()
    grid = [(1, 8), (1, 7), (2, 6)] if ctx.quick else [(1, 8), (1, 9), (2, 5), (2, 6), (3, 4), (3, 5)]
    for D, N in grid:
        symbols.compare(ctx, D, N, Fraction(3, 4) if D == 2 else Fraction(5, 2), "c01", full=True)
    # (b) exponential term of the linear classes
    rng = ctx.rng
    for D, N in [(1, 8), (2, 5)]:
        L = 2.5
        dop = ex.spectral.build_derivative_operator(D, L, N)
        for name, stepper, code, params, ch in symbols.cases(rng, D, N, L / (2 * np.pi)):
            if not type(stepper).__name__ in ("Advection", "Diffusion", "AdvectionDiffusion", "Dispersion", "HyperDiffusion", "GeneralLinearStepper"):
                continue
            lop = np.asarray(stepper._build_linear_operator(dop))
            E = np.asarray(stepper._integrator._exp_term)
            ctx.case(dict(suite="exp_term", cls=name, D=D, N=N))
            z = stepper.dt * lop
            with np.errstate(all="ignore"):
                ref = np.exp(z)
                fin = np.isfinite(ref)
                ok = np.array_equal(fin, np.isfinite(E)) and np.all(np.abs(E[fin] - ref[fin]) <= 1e-14 * (1 + np.abs(z[fin])) * np.abs(ref[fin]) + 1e-300)
            if type(stepper._integrator).__name__ != "ETDRK0" or not ok:
                ctx.disagree("c01:exp_term", dict(cls=name, D=D, N=N), "exp(dt*lambda)", "differs")
    # (c) wave stepper mode by mode
    cases, meta = [], []
    s = float(1 / np.sqrt(2))
    for D, N in ([(1, 7), (2, 4)] if ctx.quick else [(1, 7), (1, 8), (2, 4), (2, 5), (3, 3), (3, 4)]):
        L, c, dt = 2 * np.pi * (0.75 if (D + N) % 2 else 3.0), 1.5, 0.3
        w = ex.stepper.Wave(D, L, N, dt, speed_of_sound=c)
        u_hat = (rng.integers(-8, 9, (2,) + (N,) * (D - 1) + (N // 2 + 1,)) + 1j * rng.integers(-8, 9, (2,) + (N,) * (D - 1) + (N // 2 + 1,))) / 8.0
        out = np.asarray(w.step_fourier(jnp.asarray(u_hat)))
        rho_arr = np.asarray(w.wavenumber_norm)[0]
        for idx, k in symbols.wavenumbers(D, N):
            rho = float(rho_arr[idx])
            Ep, Em = np.exp(1j * c * rho * dt), np.exp(-1j * c * rho * dt)
            h, v = u_hat[(0,) + idx], u_hat[(1,) + idx]
            cases.append((102, [s, c, rho, dt, Ep.real, Ep.imag, Em.real, Em.imag, not any(k), h.real, h.imag, v.real, v.imag]))
            meta.append((dict(suite="wave_mode", D=D, N=N, k=k), np.asarray([out[(0,) + idx], out[(1,) + idx]])))
    res = core.run_model(cases)
    for (desc, impl), mres in zip(meta, res):
        ctx.case(desc, nontrivial=any(desc["k"]))
        ctx.count("wave_mode")
        m = np.asarray(core.to_cx(mres))
        if not core.close(impl, m, 1e-12):
            ctx.disagree("c01:wave_mode", desc, m, impl)


# ------------------------------------------------------------------------------------------------------
# analytic oracle from the documented PDEs
def doc_symbol(cls, p, kap):
    """eigenvalue of the documented right-hand side on exp(i kap.x); kap real vector"""
    ik = 1j * np.asarray(kap, dtype=float)
    D = len(kap)
    if cls == "Advection":
        return -np.dot(p["v"], ik)
    if cls == "Diffusion":
        return ik @ np.asarray(p["A"]) @ ik
    if cls == "AdvectionDiffusion":
        return -np.dot(p["v"], ik) + ik @ np.asarray(p["A"]) @ ik
    if cls == "Dispersion":
        return np.dot(p["xi"], ik) * np.sum(ik**2) if p["flag"] else np.dot(p["xi"], ik**3)
    if cls == "HyperDiffusion":
        return -p["mu"] * (np.sum(ik**2) ** 2 if p["flag"] else np.sum(ik**4))
    if cls == "General":
        return sum(a * np.sum(ik**j) for j, a in enumerate(p["a"]))
    raise KeyError(cls)


def build(cls, p, D, L, N, dt):
    ex, jnp = _ex()
    import exponax.stepper.generic as G
    S = ex.stepper
    if cls == "Advection":
        return S.Advection(D, L, N, dt, velocity=jnp.asarray(p["v"]))
    if cls == "Diffusion":
        return S.Diffusion(D, L, N, dt, diffusivity=jnp.asarray(p["A"]))
    if cls == "AdvectionDiffusion":
        return S.AdvectionDiffusion(D, L, N, dt, velocity=jnp.asarray(p["v"]), diffusivity=jnp.asarray(p["A"]))
    if cls == "Dispersion":
        return S.Dispersion(D, L, N, dt, dispersivity=jnp.asarray(p["xi"]), advect_on_diffusion=p["flag"])
    if cls == "HyperDiffusion":
        return S.HyperDiffusion(D, L, N, dt, hyper_diffusivity=p["mu"], diffuse_on_diffuse=p["flag"])
    if cls == "General":
        return G.GeneralLinearStepper(D, L, N, dt, linear_coefficients=tuple(p["a"]))
    raise KeyError(cls)


def params(cls, D, seed, flag=False):
    rng = np.random.default_rng(seed)
    B = rng.uniform(-0.3, 0.3, (D, D))
    A = (B @ B.T + 0.02 * np.eye(D)).tolist()
    return dict(v=rng.uniform(-1, 1, D).tolist(), A=A, xi=rng.uniform(-0.2, 0.2, D).tolist(), mu=0.003, flag=flag,
                a=[-0.05, -0.4, 0.03, 0.02, -0.001])


def modes_below_nyquist(D, N):
    kmax = (N - 1) // 2
    return [k for k in itertools.product(range(-kmax, kmax + 1), repeat=D)]


def field_of(modes, coefs, x, L, lam_t=None):
    u = 0.0
    for m, c in zip(modes, coefs):
        ph = sum(2 * np.pi * m[d] / L * x[d] for d in range(len(m)))
        g = c * np.exp(1j * ph) * (1.0 if lam_t is None else lam_t[m])
        u = u + np.real(g)
    return u


def t_exact(cls, D, N, L, dt, seed, flag=False, nmodes=3, steps=1):
    ex, jnp = _ex()
    rng = np.random.default_rng(seed)
    p = params(cls, D, seed, flag)
    s = build(cls, p, D, L, N, dt)
    x = np.asarray(ex.make_grid(D, L, N))
    allm = modes_below_nyquist(D, N)
    pick = [allm[i] for i in rng.choice(len(allm), size=min(nmodes, len(allm)), replace=False)]
    if nmodes >= len(allm):
        pick = allm
    coefs = rng.standard_normal(len(pick)) + 1j * rng.standard_normal(len(pick))
    lam = {m: doc_symbol(cls, p, [2 * np.pi * mm / L for mm in m]) for m in pick}
    if max(np.real(l) for l in lam.values()) * dt * steps > 30:
        return True, "skipped: growing mode would overflow"
    u0 = field_of(pick, coefs, x, L)[None]
    u = jnp.asarray(u0)
    for _ in range(steps):
        u = s(u)
    ref = field_of(pick, coefs, x, L, {m: np.exp(lam[m] * dt * steps) for m in pick})[None]
    err = np.max(np.abs(np.asarray(u) - ref)) / (1e-300 + max(1.0, np.max(np.abs(ref))))
    ok = err < 1e-9 * max(1.0, abs(dt) * steps * max(abs(l) for l in lam.values()))
    return ok, f"{cls} D={D} N={N} L={L} dt={dt} modes={pick[:4]}: deviation from the analytic solution {err:.3e}"


def t_semigroup(cls, D, N, dt, n, seed):
    ex, jnp = _ex()
    p = params(cls, D, seed)
    L = 3.0
    s1, sn, sm = build(cls, p, D, L, N, dt), build(cls, p, D, L, N, n * dt), build(cls, p, D, L, N, -dt)
    rng = np.random.default_rng(seed)
    u = rng.standard_normal((1,) + (N,) * D)
    if N % 2 == 0:   # below Nyquist
        uh = np.fft.rfftn(u, axes=tuple(range(1, D + 1))) * np.asarray(ex.spectral.oddball_filter_mask(D, N))
        u = np.fft.irfftn(uh, s=(N,) * D, axes=tuple(range(1, D + 1)))
    u = jnp.asarray(u)
    a = u
    for _ in range(n):
        a = s1(a)
    ok1 = core.close(np.asarray(a), np.asarray(sn(u)), 1e-10)
    back = sm(s1(u))
    ok2 = core.close(np.asarray(back), np.asarray(u), 1e-9) if cls in ("Advection", "Dispersion") else True
    return ok1 and ok2, f"{cls} D={D} N={N}: n-fold==n*dt {ok1}, -dt undoes dt {ok2}"


def t_wave(D, N, L, dt, seed, c=1.3):
    ex, jnp = _ex()
    rng = np.random.default_rng(seed)
    w = ex.stepper.Wave(D, L, N, dt, speed_of_sound=c)
    x = np.asarray(ex.make_grid(D, L, N))
    allm = [m for m in modes_below_nyquist(D, N)]
    pick = [allm[i] for i in rng.choice(len(allm), size=min(3, len(allm)), replace=False)] + [tuple([0] * D)]
    h0 = v0 = h1 = v1 = 0.0
    for m in pick:
        kap = np.asarray([2 * np.pi * mm / L for mm in m])
        om = c * np.linalg.norm(kap)
        A, B, ph = rng.standard_normal(), rng.standard_normal(), rng.uniform(0, 6)
        ca, cb = np.cos(sum(kap[d] * x[d] for d in range(D))), np.cos(sum(kap[d] * x[d] for d in range(D)) + ph)
        h0 = h0 + A * ca; v0 = v0 + B * cb
        if om == 0:
            h1 = h1 + A * ca + dt * B * cb; v1 = v1 + B * cb
        else:
            h1 = h1 + A * np.cos(om * dt) * ca + B / om * np.sin(om * dt) * cb
            v1 = v1 - A * om * np.sin(om * dt) * ca + B * np.cos(om * dt) * cb
    out = np.asarray(w(jnp.asarray(np.stack([h0, v0]))))
    err = np.max(np.abs(out - np.stack([h1, v1])))
    return err < 1e-9 * (1 + abs(dt) * 10), f"Wave D={D} N={N} L={L} dt={dt} c={c}: deviation from the analytic solution {err:.3e}"


TESTS = dict(exact=t_exact, semigroup=t_semigroup, wave=t_wave)
CLASSES = ["Advection", "Diffusion", "AdvectionDiffusion", "Dispersion", "HyperDiffusion", "General"]


def witness(ctx):
    deep = ctx.deep
    dn = [(1, 9), (1, 10), (2, 5), (2, 6), (3, 4)] if not deep else [(1, 9), (1, 10), (1, 17), (2, 5), (2, 6), (2, 9), (3, 4), (3, 5)]
    for (D, N) in dn:
        for cls in CLASSES:
            for flag in ((False, True) if cls in ("Dispersion", "HyperDiffusion") else (False,)):
                for (L, dt) in ([(2.0, 0.1), (7.3, 50.0)] if not deep else [(2.0, 0.1), (7.3, 50.0), (0.5, 1e3), (2 * np.pi, -0.2)]):
                    # all modes below Nyquist at once on the smallest grids, random superpositions otherwise
                    nm = 10**6 if N**D <= 36 else 4
                    ctx.check("exact", dict(cls=cls, D=D, N=N, L=L, dt=dt, seed=ctx.seed + D, flag=flag, nmodes=nm))
            ctx.check("semigroup", dict(cls=cls, D=D, N=N, dt=0.07, n=3, seed=ctx.seed))
        # domain extents on both sides of 2 pi (scaled wavenumbers 2 pi |m| / L below and above 1)
        for (L, dt) in [(2.0, 0.1), (5.0, 40.0), (20.0, 0.7), (100.0, 3.0)] + ([(2 * np.pi, 0.3), (1e3, 10.0)] if deep else []):
            ctx.check("wave", dict(D=D, N=N, L=L, dt=dt, seed=ctx.seed))
        ctx.check("wave", dict(D=D, N=N, L=3.0, dt=-0.4, seed=ctx.seed + 1, c=0.6))          # backwards in time
        ctx.check("wave", dict(D=D, N=N, L=9.0, dt=0.4, seed=ctx.seed + 2, c=-2.1))          # negative speed of sound: the same equation
