"""C02 — ETDRK steppers realise the order-p exponential Runge-Kutta scheme exactly."""
import numpy as np

from .. import core
from ..translate import etdrk as tr_etdrk

ID = "C02"
PROPS_FILE = "C02"
RULE = ("correspondence: (a) every coefficient array of exponax.etdrk.ETDRKp vs the extracted Gen integrands averaged over the contour in exact "
        "Gaussian-rational arithmetic on the same float inputs (moderate z so that the rationals stay small), (b) step_fourier of orders 0-4 with a "
        "user-defined polynomial nonlinearity vs the extracted stage programs fed with the implementation's own coefficient arrays, (c) order dispatch; "
        "witness: step_fourier vs an independent NumPy phi-function tableau over a cover of z (real axis to -1e9, imaginary axis, left half plane, z=0, "
        "|z| = contour radius) and dt-halving convergence rates. Non-trivial: z != 0 or order >= 1; distinct by input hash.")
ASSUMPTIONS = ["contour quadrature error (16 points, radius 1) is measured, not proved", "jnp.exp is the exponential",
               "O(dt^p) convergence follows from Hochbruck-Ostermann once the scheme is the tableau (cited, rates measured)"]
COEFS = {1: [1], 2: [1, 2], 3: [1, 2, 3, 4, 5], 4: [1, 2, 3, 4, 5, 6]}


def translate(ctx):
    tr_etdrk.run()


def _ex():
    import jax
    jax.config.update("jax_enable_x64", True)
    import jax.numpy as jnp
    import exponax as ex
    return ex, jnp


def test_nl(u):
    import jax.numpy as jnp
    return u * u + jnp.roll(u, -1, axis=-1)


def z_cover(rng, n_rand, stiff):
    zs = [0.0, 1e-8, -1e-8, 1e-3j, -1.0, 1.0, 1j, -1j, -0.5, 0.25j, -2 + 1j, -0.3 - 2j, 3j, -7.0, 2.0]
    # full and half periods of the propagator: exp(z) = 1 resp. exp(z/2) = -1 with z != 0 (a coefficient derived by dividing by exp(z/2) + 1
    # or exp(z) - 1 instead of the contour mean is 0/0 there)
    zs += [2j * np.pi, -2j * np.pi, 6j * np.pi, 4j * np.pi, 2j * np.pi * (1 + 1e-9)]
    # points where an un-shifted 16-point contour of radius 1 would pass through the origin
    zs += [-np.exp(2j * np.pi * k / 16) for k in (1, 3, 6)]
    for _ in range(n_rand):
        kind = rng.integers(0, 4)
        m = 10 ** rng.uniform(-3, 1.3)
        zs.append({0: -m, 1: 1j * m * rng.choice([-1, 1]), 2: -m * rng.uniform(0.1, 1) + 1j * m * rng.uniform(-1, 1), 3: m * 0.3}[int(kind)])
    if stiff:
        zs += [-10.0 ** e for e in (2, 3, 5, 7, 9)] + [1j * 10.0 ** e for e in (2, 4)] + [-1e4 + 1e4j, 20.0, -30.0, 30j]
    return [complex(z) for z in zs]


def correspond(ctx):
    ex, jnp = _ex()
    rng = ctx.rng
    cases, meta = [], []
    # (a1) integrands observed one contour point at a time: num_circle_points=1 puts the single point at lr = z - r
    #      (root exp(i*pi) = -1).  z on a dyadic grid keeps the exact rationals small; e, eh are the float exponentials.
    nz = 12 if ctx.quick else 80
    zs = [complex(a, b) for a, b in zip(rng.integers(-40, 17, nz) / 8.0, rng.integers(-32, 33, nz) / 8.0)]
    zs += [complex(x, 0) for x in (-3.0, 0.5, -0.125)] + [complex(0, y) for y in (2.0, -0.75)]
    dt = 0.375
    for p in (1, 2, 3, 4):
        for r in ((1.0,) if ctx.quick else (1.0, 0.5)):
            zz = np.asarray([z for z in zs if abs(z - r) > 1e-3])
            lam = zz / dt
            zp = lam * dt          # the code forms L_dt = lam*dt in floating point; use the same value
            integ = getattr(ex.etdrk, f"ETDRK{p}")(dt, jnp.asarray(lam)[None, :], test_nl, num_circle_points=1, circle_radius=r)
            for j in COEFS[p]:
                impl = np.asarray(getattr(integ, f"_coef_{j}"))[0]
                for i, z in enumerate(zp):
                    lr = r * np.exp(2j * np.pi * 0.5) + z
                    e, eh = np.exp(lr), np.exp(lr / 2)
                    cases.append((201, [p, j, dt, 0.0, lr.real, lr.imag, e.real, e.imag, eh.real, eh.imag]))
                    meta.append((dict(suite="integrand", p=p, j=j, r=r, z=[z.real, z.imag]), impl[i]))
    # (a2) the contour mean itself (M = 2, 4; larger M makes the exact rationals explode) on a few symbols
    for M in (2, 4):
        roots = np.exp(2j * np.pi * (np.arange(1, M + 1) - 0.5) / M)
        zs2 = [complex(-1.5, 0.5), complex(0, 0)] if ctx.quick else \
            [complex(-1.5, 0.5), complex(0, 0), complex(0.25, -2), complex(-6, 0), complex(0, 3), complex(-0.5, 0)]
        lam = np.asarray(zs2) / dt
        for p in (1, 2, 3, 4):
            integ = getattr(ex.etdrk, f"ETDRK{p}")(dt, jnp.asarray(lam)[None, :], test_nl, num_circle_points=M, circle_radius=1.0)
            for j in COEFS[p]:
                if (p, j) in ((4, 2), (4, 3)) or (ctx.quick and M == 4 and j not in (1, COEFS[p][-1])):
                    continue
                impl = np.asarray(getattr(integ, f"_coef_{j}"))[0]
                for i, z in enumerate(lam * dt):
                    lr = roots + z
                    e, eh = np.exp(lr), np.exp(lr / 2)
                    args = [p, j, dt, 0.0]
                    for a, b, c in zip(lr, e, eh):
                        args += [a.real, a.imag, b.real, b.imag, c.real, c.imag]
                    cases.append((201, args))
                    meta.append((dict(suite="contour_mean", M=M, p=p, j=j, z=[z.real, z.imag]), impl[i]))
    res = core.run_model(cases)
    for (desc, impl), mres in zip(meta, res):
        ctx.case(desc, nontrivial=True)
        ctx.count(desc["suite"] + "_p%d" % desc["p"])
        m = core.to_cx(mres)[0]
        if not (np.isfinite(impl) and abs(impl - m) <= 1e-11 * (dt + abs(m))):
            ctx.disagree("c02:coefficient", desc, m, impl)
    # (b) stage programs
    cases, meta = [], []
    n = 5
    for p in (0, 1, 2, 3, 4):
        for rep in range(2 if ctx.quick else 8):
            lam_s = (rng.uniform(-3, 0.5, n) + 1j * rng.uniform(-3, 3, n)) * rng.choice([0, 1, 1, 1], n)
            dts = float(rng.choice([0.125, 0.5, 1.0]))
            if p == 0:
                integ = ex.etdrk.ETDRK0(dts, jnp.asarray(lam_s)[None, :])
            else:
                integ = getattr(ex.etdrk, f"ETDRK{p}")(dts, jnp.asarray(lam_s)[None, :], test_nl)
            u = (rng.integers(-8, 9, n) + 1j * rng.integers(-8, 9, n)) / 8.0
            arrs = [np.asarray(integ._exp_term)[0]]
            if p >= 3:
                arrs.append(np.asarray(integ._half_exp_term)[0])
            for j in COEFS.get(p, []):
                arrs.append(np.asarray(getattr(integ, f"_coef_{j}"))[0].astype(complex))
            arrs.append(u)
            args = [p, n]
            for a in arrs:
                args += core.cx_args(a)
            cases.append((202, args))
            impl = np.asarray(integ.step_fourier(jnp.asarray(u)[None, :]))[0]
            meta.append((dict(suite="step", p=p, dt=dts, lam=[[z.real, z.imag] for z in lam_s], u=[[z.real, z.imag] for z in u]), impl))
    res = core.run_model(cases)
    for (desc, impl), mres in zip(meta, res):
        ctx.case(desc, nontrivial=desc["p"] >= 1)
        ctx.count("step_p%d" % desc["p"])
        m = np.asarray(core.to_cx(mres))
        if not core.close(impl, m, 1e-12):
            ctx.disagree("c02:step_fourier", desc, m, impl)
    # (c) order dispatch through BaseStepper
    orders = list(range(-1, 7))
    res = core.run_model([(203, [o]) for o in orders])
    for o, mres in zip(orders, res):
        try:
            s = ex.stepper.Burgers(1, 1.0, 8, 0.1, order=o)
            got = int(type(s._integrator).__name__[5:])
        except NotImplementedError:
            got = -1
        ctx.case(dict(suite="dispatch", order=o))
        if got != int(mres[0]):
            ctx.disagree("c02:dispatch", dict(order=o), int(mres[0]), got)


# ------------------------------------------------------------------------------------------------
# independent phi-function reference
def phis(z):
    """phi1, phi2, phi3 at complex z (array), stable for small |z| (Taylor) and large |z| (closed form)"""
    z = np.asarray(z, dtype=complex)
    small = np.abs(z) < 0.6
    zz = np.where(small, 1.0, z)
    e = np.exp(zz)
    p1 = (e - 1) / zz
    p2 = (e - 1 - zz) / zz**2
    p3 = (e - 1 - zz - zz**2 / 2) / zz**3
    import math
    zs = np.where(small, z, 0.0)
    t1 = sum(zs**k / math.factorial(k + 1) for k in range(24))
    t2 = sum(zs**k / math.factorial(k + 2) for k in range(24))
    t3 = sum(zs**k / math.factorial(k + 3) for k in range(24))
    return np.where(small, t1, p1), np.where(small, t2, p2), np.where(small, t3, p3)


def ref_step(p, h, lam, N, u):
    z = h * lam
    E, Eh = np.exp(z), np.exp(z / 2)
    p1, p2, p3 = phis(z)
    p1h = phis(z / 2)[0]
    if p == 0:
        return E * u
    if p == 1:
        return E * u + h * p1 * N(u)
    if p == 2:
        a = E * u + h * p1 * N(u)
        return E * u + h * ((p1 - p2) * N(u) + p2 * N(a))
    if p == 3:
        a = Eh * u + h * 0.5 * p1h * N(u)
        b = E * u + h * (-p1 * N(u) + 2 * p1 * N(a))
        return E * u + h * ((p1 - 3 * p2 + 4 * p3) * N(u) + (4 * p2 - 8 * p3) * N(a) + (-p2 + 4 * p3) * N(b))
    a = Eh * u + h * 0.5 * p1h * N(u)
    b = Eh * u + h * 0.5 * p1h * N(a)
    c = Eh * a + h * 0.5 * p1h * (2 * N(b) - N(u))
    return E * u + h * ((p1 - 3 * p2 + 4 * p3) * N(u) + (2 * p2 - 4 * p3) * (N(a) + N(b)) + (-p2 + 4 * p3) * N(c))


def t_phi_step(p, z, dt, seed, radius=1.0, M=16):
    """one mode with symbol z/dt (plus two bystander modes): step_fourier vs the phi-tableau; radius / M: non-default contour
    (circle_radius, num_circle_points) - the coefficients must not depend on the contour beyond its quadrature error"""
    ex, jnp = _ex()
    rng = np.random.default_rng(seed)
    lam = np.asarray([complex(*z) / dt, -0.7 / dt, 0.3j / dt])
    u = rng.standard_normal(3) + 1j * rng.standard_normal(3)
    nl_np = lambda v: v * v + np.roll(v, -1)
    if p == 0:
        integ = ex.etdrk.ETDRK0(dt, jnp.asarray(lam)[None, :])
    else:
        integ = getattr(ex.etdrk, f"ETDRK{p}")(dt, jnp.asarray(lam)[None, :], test_nl, num_circle_points=M, circle_radius=radius)
    got = np.asarray(integ.step_fourier(jnp.asarray(u)[None, :]))[0]
    exp = ref_step(p, dt, lam, nl_np, u)
    if not np.all(np.isfinite(got)):
        return False, f"non-finite step result {got}"
    err = np.max(np.abs(got - exp)) / (1 + np.max(np.abs(exp)))
    return err < 2e-10, f"order {p}, z={complex(*z)}, circle_radius={radius}, num_circle_points={M}: deviation from the phi-tableau {err:.3e}"


def _problem(name, order, dt):
    ex, jnp = _ex()
    import exponax.stepper.generic as G
    if name == "burgers":
        return ex.stepper.Burgers(1, 2 * np.pi, 48, dt, diffusivity=0.05, order=order), 1
    if name == "kdv":
        return ex.stepper.KortewegDeVries(1, 20.0, 64, dt, order=order, hyper_diffusivity=0.0), 1
    if name == "gen_conv_odd":
        return G.GeneralConvectionStepper(1, 10.0, 48, dt, linear_coefficients=(0.0, -0.5, 0.02, -0.05), convection_scale=1.0, order=order), 1
    if name == "ks":
        return ex.stepper.KuramotoSivashinsky(1, 30.0, 48, dt, order=order), 1
    if name == "burgers2d":
        return ex.stepper.Burgers(2, 3.0, 16, dt, diffusivity=0.05, order=order), 2
    if name == "fisher":
        return ex.stepper.reaction.FisherKPP(1, 10.0, 32, dt, order=order), 1
    raise KeyError(name)


def t_rate(name, order, T):
    ex, jnp = _ex()
    import jax
    s0, C = _problem(name, 4, T / 1024)
    D, N = s0.num_spatial_dims, s0.num_points
    u0 = ex.ic.RandomTruncatedFourierSeries(D, cutoff=3, max_one=True)(N, key=jax.random.PRNGKey(1))
    u0 = jnp.concatenate([u0 * (0.5 + 0.3 * c) for c in range(C)], axis=0) if C > 1 else 0.5 * u0 + (0.4 if name == "fisher" else 0.0)
    ref = ex.repeat(s0, 1024)(u0)
    errs = []
    for n in (8, 16, 32):
        s, _ = _problem(name, order, T / n)
        errs.append(float(jnp.linalg.norm(ex.repeat(s, n)(u0) - ref)))
    if errs[-1] < 1e-11:      # converged to rounding already: rate not measurable, not a failure
        return True, f"errors {errs} at rounding level"
    rates = [np.log2(errs[i] / errs[i + 1]) for i in range(2)]
    ok = min(rates) > order - 0.35
    return ok, f"{name} order {order}: errors {errs}, observed rates {[round(float(x), 2) for x in rates]}"


def t_stepper_order(name, D, N, order, seed):
    """every exported stepper class that takes `order`: one call equals the order-p phi-tableau applied to the class's OWN linear operator
    and nonlinear function (rebuilt through its _build_* methods) - i.e. the requested order reaches the integrator, order 0 is the pure
    linear propagation"""
    ex, jnp = _ex()
    from .. import registry
    s = registry.make(name, D, N, order=order)
    dop = ex.spectral.build_derivative_operator(D, s.domain_extent, s.num_points)
    lam = np.asarray(s._build_linear_operator(dop))
    nf = s._build_nonlinear_fun(dop)
    rng = np.random.default_rng(seed)
    C = s.num_channels
    import jax
    u = jnp.stack([ex.ic.RandomTruncatedFourierSeries(D, cutoff=2, max_one=True)(N, key=jax.random.PRNGKey(seed + 7 * c)) [0] * (0.4 + 0.2 * c) for c in range(C)])
    uh = np.asarray(ex.spectral.fft(u, num_spatial_dims=D))
    nl = lambda v: np.asarray(nf(jnp.asarray(v)))
    exp_hat = ref_step(order, s.dt, lam, nl, uh)
    exp = np.asarray(ex.spectral.ifft(jnp.asarray(exp_hat), num_spatial_dims=D, num_points=N))
    got = np.asarray(s(u))
    if not np.all(np.isfinite(got)):
        return False, f"{name} D={D} order={order}: non-finite step"
    err = float(np.max(np.abs(got - exp)) / (1e-300 + np.max(np.abs(exp))))
    return err < 1e-8, f"{name} D={D} N={N} order={order}: one call deviates from the order-{order} phi-tableau of its own operators by {err:.3e}"


TESTS = dict(phi_step=t_phi_step, rate=t_rate, stepper_order=t_stepper_order)


def witness(ctx):
    zs = z_cover(ctx.rng, 6 if not ctx.deep else 60, stiff=True)
    for p in (0, 1, 2, 3, 4):
        for z in zs:
            ctx.check("phi_step", dict(p=p, z=[z.real, z.imag], dt=0.25, seed=ctx.seed), nontrivial=(z != 0 or p > 0))
    # non-default contours (moderate |z|: a larger or smaller circle changes the quadrature error only at rounding level with enough points)
    for p in (1, 2, 3, 4):
        for radius, M in ((2.0, 32), (0.5, 32)) + (((1.5, 64), (3.0, 64)) if ctx.deep else ()):
            for z in (complex(-0.8, 0.0), complex(0.0, 1.3), complex(-0.3, -2.1), 0j):
                ctx.check("phi_step", dict(p=p, z=[z.real, z.imag], dt=0.25, seed=ctx.seed, radius=radius, M=M))
    from .. import registry
    NS = {1: 16, 2: 8, 3: 6}
    for j, name in enumerate(sorted(registry.classes())):
        if not registry.has_order(name):
            continue
        ds = registry.dims(name)
        for D in (ds if ctx.deep else (ds[(j + ctx.seed) % len(ds)],)):
            orders = (0, 1, 2, 3, 4) if ctx.deep else ((0, 1, 3, 4)[(j + ctx.seed) % 4], (0, 1, 3, 4)[(j + ctx.seed + 2) % 4])
            for o in orders:
                ctx.check("stepper_order", dict(name=name, D=D, N=NS[D], order=o, seed=ctx.seed))
    probs = [("kdv", 0.1), ("burgers", 0.2)] if not ctx.deep else \
        [("kdv", 0.1), ("burgers", 0.2), ("gen_conv_odd", 0.1), ("ks", 0.5), ("burgers2d", 0.1), ("fisher", 0.5)]
    for name, T in probs:
        for order in (1, 2, 3, 4):
            ctx.check("rate", dict(name=name, order=order, T=T))
