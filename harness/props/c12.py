"""C12 — forcing terms inject exactly the documented field."""
import itertools
from fractions import Fraction

import numpy as np

from .. import core, symbols
from ..translate import spectral as tr_spectral
from ..translate import nonlin as tr_nonlin

ID = "C12"
PROPS_FILE = "C12"
RULE = ("correspondence (exact rationals, L = 2 pi q): every element of the injection arrays of VorticityConvection2dKolmogorov and ProjectedConvection3dKolmogorov vs the extracted "
        "injection model, N odd/even, every admissible injection_mode, several q; witness: KolmogorovFlowVorticity / KolmogorovFlowVelocity / GeneralVorticityConvectionStepper with injection "
        "started from rest vs the laminar solution of the documented forced equation (orders 1-4, several L incl. L != 2 pi, N, injection modes incl. modes above the dealiasing cutoff, scales, "
        "step counts); ForcedStepper with zero forcing = unforced stepper and with forcing f = unforced step of u + dt f. Non-trivial: non-zero forcing; distinct by input hash.")
TRUSTED_EXTRA = ["harness/translate/spectral.py (the constructors of the two Kolmogorov nonlinear functions executed symbolically; contracts as for C04 plus jnp.sign = Z.sgn, jnp.imag, jnp.where / concatenate on complex arrays)"]
ASSUMPTIONS = ["the injection is added after the (dealiased) convection term, so it is not subject to the dealiasing mask", "rfftn/irfftn of C04"]


def translate(ctx):
    """Gen/InjectionGen.v (and the layout functions of Gen/SpectralGen.v it is tied through): gen_injection2d / gen_injection3d, the forcing arrays of the Kolmogorov nonlinear functions re-translated from the
    source (tied to Nonlin/Injection.v by Tie/InjectionTie.v and the theorem C12_code_injection_is_model_injection)"""
    errors = []
    for name, fn in (("spectral", tr_spectral.run), ("injection", tr_spectral.run_injection), ("nonlin", tr_nonlin.run)):
        try:
            fn()
        except Exception as e:
            errors.append(f"{name}: {type(e).__name__}: {e}")
    if errors:
        raise RuntimeError("; ".join(errors))


def _ex():
    import jax
    jax.config.update("jax_enable_x64", True)
    import jax.numpy as jnp
    import exponax as ex
    return ex, jnp


def correspond(ctx):
    ex, jnp = _ex()
    cases, meta = [], []
    gam = 0.75
    for N in ((6, 7, 9) if ctx.quick else (5, 6, 7, 8, 9, 12)):
        for q in ((Fraction(3, 4),) if ctx.quick else (Fraction(3, 4), Fraction(1, 1), Fraction(5, 1))):
            L = 2 * np.pi * float(q)
            for kinj in range(1, (N - 1) // 2 + 1):
                dop = ex.spectral.build_derivative_operator(2, L, N)
                nl = ex.nonlin_fun.VorticityConvection2dKolmogorov(2, N, injection_mode=kinj, injection_scale=gam, derivative_operator=dop, dealiasing_fraction=2 / 3)
                inj = np.asarray(nl.injection)
                for idx, k in symbols.wavenumbers(2, N):
                    cases.append((1201, [1 / q, gam, N, kinj, *k])); meta.append((dict(op="injection2d", N=N, q=str(q), kinj=kinj, k=k), inj[(0,) + idx]))
        if N <= (7 if ctx.quick else 9):
            L = 2 * np.pi * 0.75
            for kinj in range(1, (N - 1) // 2 + 1):
                dop = ex.spectral.build_derivative_operator(3, L, N)
                nl = ex.nonlin_fun.ProjectedConvection3dKolmogorov(3, N, injection_mode=kinj, injection_scale=gam, derivative_operator=dop, dealiasing_fraction=2 / 3)
                inj = np.asarray(nl.injection)
                for idx, k in symbols.wavenumbers(3, N):
                    for ch in range(3):
                        cases.append((1202, [gam, N, kinj, ch, *k])); meta.append((dict(op="injection3d", N=N, kinj=kinj, ch=ch, k=k), inj[(ch,) + idx]))
    res = core.run_model(cases)
    for (desc, impl), mres in zip(meta, res):
        ctx.case(desc, nontrivial=True)
        ctx.count(desc["op"])
        m = core.to_cx(mres)[0]
        if abs(complex(impl) - m) > 1e-11 * (1 + abs(m)):
            ctx.disagree("c12:" + desc["op"], desc, m, complex(impl))


# ---------------------------------------------------------------------------------------------------
def t_laminar2d(cls, N, L, kinj, gamma, order, nsteps, nu=0.05, drag=-0.1, dt=0.1, b=1.0, a0=0.0, j0=1):
    """from the laminar state a0 cos(2 pi j0 x_1 / L) (rest if a0 = 0), with convection scale b: the convection term vanishes on the laminar
    subspace, so every mode follows u' = sigma_j u + f_j exactly (the result must not depend on b)"""
    ex, jnp = _ex()
    import exponax.stepper.generic as G
    if cls == "KolmogorovFlowVorticity":
        s = ex.stepper.KolmogorovFlowVorticity(2, L, N, dt, diffusivity=nu, drag=drag, convection_scale=b, injection_mode=kinj, injection_scale=gamma, order=order)
    else:
        s = G.GeneralVorticityConvectionStepper(2, L, N, dt, linear_coefficients=(drag / 2, 0.0, nu), vorticity_convection_scale=b,
                                                injection_mode=kinj, injection_scale=gamma, order=order)
    g = np.asarray(ex.make_grid(2, L, N))
    k0 = 2 * np.pi * j0 / L
    u = ex.repeat(s, nsteps)(jnp.asarray(a0 * np.cos(k0 * g[1:2]) + 0.0 * g[0:1]))
    kk = 2 * np.pi * kinj / L
    sigma = drag - nu * kk**2
    amp = (np.exp(sigma * nsteps * dt) - 1) / sigma
    doc = -kk * gamma * np.cos(kk * g[1:2]) * amp + a0 * np.exp((drag - nu * k0**2) * nsteps * dt) * np.cos(k0 * g[1:2])
    err = float(np.max(np.abs(np.asarray(u) - doc))) / (1e-300 + abs(kk * gamma * amp) + abs(a0))
    return err < 1e-9, f"{cls} N={N} L={L} k={kinj} gamma={gamma} b={b} a0={a0} order={order} n={nsteps}: relative deviation from the laminar solution {err:.3e}"


def t_laminar3d(N, L, kinj, gamma, order, nsteps, nu=0.05, drag=-0.1, dt=0.1):
    ex, jnp = _ex()
    s = ex.stepper.KolmogorovFlowVelocity(3, L, N, dt, diffusivity=nu, drag=drag, injection_mode=kinj, injection_scale=gamma, order=order)
    u = np.asarray(ex.repeat(s, nsteps)(jnp.zeros((3, N, N, N))))
    g = np.asarray(ex.make_grid(3, L, N))
    kk = 2 * np.pi * kinj / L
    sigma = drag - nu * kk**2
    amp = (np.exp(sigma * nsteps * dt) - 1) / sigma
    doc = gamma * np.sin(kk * g[1]) * amp
    err = max(float(np.max(np.abs(u[0] - doc))), float(np.max(np.abs(u[1:])))) / (1e-300 + abs(gamma * amp))
    return err < 1e-9, f"KolmogorovFlowVelocity N={N} L={L} k={kinj} gamma={gamma} order={order} n={nsteps}: relative deviation from the laminar solution {err:.3e}"


def t_forced_stepper(name, D, N, order, seed):
    ex, jnp = _ex()
    from .c14 import _mk, _state
    s = _mk(name, D, N, 0.02, order)
    u = _state(D, N, s.num_channels, seed, nyquist_free=False)
    f = _state(D, N, s.num_channels, seed + 1, nyquist_free=False)
    fs = ex.ForcedStepper(s)
    a = core.close(np.asarray(fs(u, jnp.zeros_like(u))), np.asarray(s(u)), 1e-12)
    b = core.close(np.asarray(fs(u, f)), np.asarray(s(u + s.dt * f)), 1e-12)
    uh, fh = ex.fft(u), ex.fft(f)
    c = core.close(np.asarray(fs.step_fourier(uh, fh)), np.asarray(s.step_fourier(uh + s.dt * fh)), 1e-12)
    return a and b and c, f"ForcedStepper({name}): zero forcing={a}, u+dt*f={b}, fourier={c}"


TESTS = dict(laminar2d=t_laminar2d, laminar3d=t_laminar3d, forced_stepper=t_forced_stepper)


def witness(ctx):
    deep = ctx.deep
    for cls in ("KolmogorovFlowVorticity", "GeneralVorticityConvectionStepper"):
        for (N, L, kinj) in ([(12, 2 * np.pi, 2), (12, 1.0, 4), (9, 5.0, 3), (16, 3.0, 5)] if not deep else
                             [(12, 2 * np.pi, 2), (12, 1.0, 4), (9, 5.0, 3), (16, 3.0, 5), (15, 0.7, 6), (8, 10.0, 1), (11, 2.0, 5)]):
            for order in ((2, 4) if not deep else (1, 2, 3, 4)):
                ctx.check("laminar2d", dict(cls=cls, N=N, L=L, kinj=kinj, gamma=0.7, order=order, nsteps=3))
        ctx.check("laminar2d", dict(cls=cls, N=12, L=3.0, kinj=2, gamma=-1.3, order=2, nsteps=1 if not deep else 7))
        # forcing at the Nyquist wavenumber of an even grid (the sampled cosine is +-1; its coefficient is N^D a, not N^D a / 2)
        for N, kinj in ((12, 6), (8, 4)) + (((10, 5), (16, 8)) if deep else ()):
            ctx.check("laminar2d", dict(cls=cls, N=N, L=2.0, kinj=kinj, gamma=0.6, order=2 + (N // 4) % 3, nsteps=2))
        # convection scale != 1 and a non-zero laminar initial state: the forcing amplitude and the solution must not depend on b
        for b, a0, j0 in ((2.5, 0.0, 1), (-1.0, 0.6, 1), (0.25, -0.4, 3)) if not deep else ((2.5, 0.0, 1), (-1.0, 0.6, 1), (0.25, -0.4, 3), (3.0, 1.1, 2), (1.0, 0.5, 2)):
            ctx.check("laminar2d", dict(cls=cls, N=12, L=3.0, kinj=2, gamma=0.7, order=3, nsteps=2, b=b, a0=a0, j0=j0))
    for (N, L, kinj) in ([(8, 2 * np.pi, 1), (12, 3.0, 4), (9, 1.0, 2)] if not deep else [(8, 2 * np.pi, 1), (12, 3.0, 4), (9, 1.0, 2), (12, 5.0, 5), (10, 2.0, 3)]):
        for order in ((2, 4) if not deep else (1, 2, 3, 4)):
            ctx.check("laminar3d", dict(N=N, L=L, kinj=kinj, gamma=0.7, order=order, nsteps=2))
    for name, D, N, order in [("Burgers", 1, 10, 2), ("KdV", 1, 12, 4), ("Diffusion", 2, 6, 0), ("KS", 1, 16, 1)] + ([("Burgers", 2, 8, 3), ("Advection", 3, 4, 0)] if deep else []):
        ctx.check("forced_stepper", dict(name=name, D=D, N=N, order=order, seed=ctx.seed))
