"""C04 — grid, FFT and Fourier-coefficient conventions are mutually consistent."""
import itertools

import numpy as np

from .. import core, symbols
from ..translate import spectral as tr_spectral
from ..translate import spectrum as tr_spectrum

ID = "C04"
PROPS_FILE = "C04"
RULE = ("correspondence (exact, exhaustive over every array element): build_wavenumbers (ij/xy), wavenumber_shape, low-pass masks (axis-separate and radial, all cutoffs), "
        "oddball mask, the three scaling arrays (ij/xy), get_modes_slices as index sets, wrap_bc, make_grid, vs the extracted integer layout model; "
        "witness (float): ifft(fft(u)) = u on white noise, a sampled cosine with EVERY wavenumber vector of the layout x phases appears in exactly the named stored mode(s) with the "
        "promised magnitude/phase (brute-force expectation), get_fourier_coefficients in all modes, derivative / interpolation / incompressible projection run with indexing='xy'. "
        "Non-trivial: every element (both values of each mask are hit); distinct by input hash.")
TRUSTED_EXTRA = ["harness/translate/spectral.py: symbolic execution of the layout functions of exponax/_spectral.py (contracts: fftfreq/rfftfreq values, meshgrid ij/xy axis order, [x]*m+[y] and [::-1] on lists, integer form of norm<=cutoff, Python //, % and slice semantics)"]
ASSUMPTIONS = ["jnp.fft.rfftn/irfftn = DFT with exp(-2 pi i/N) restricted to the half spectrum; jnp.fft.fftfreq/rfftfreq, meshgrid, linspace, pad(mode='wrap') as documented by NumPy"]
MODES = {"norm_compensation": 10, "reconstruction": 11, "coef_extraction": 12}


def translate(ctx):
    """Gen/SpectralGen.v: the layout functions of exponax/_spectral.py re-translated from the source (tied to Layout/Freq.v by
    Tie/SpectralTie.v and the theorems C04_code_layout_is_model_layout / C04_code_scaling_and_slices_are_model); on failure the file
    is replaced by a stub, so that the proof cannot use a stale text.  harness/translate/spectrum.py compares fft / ifft /
    get_fourier_coefficients with their expected text (axes = space_indices, output shape = spatial_shape, the D >= 2 inference of
    num_points from axis -2, division by the scaling array of the requested mode); both are always attempted"""
    errors = []
    for name, fn in (("spectral", tr_spectral.run), ("spectrum (fft / ifft / get_fourier_coefficients)", tr_spectrum.check_transforms)):
        try:
            fn()
        except Exception as e:
            errors.append(f"{name}: {type(e).__name__}: {e}")
    if errors:
        raise RuntimeError("; ".join(errors))


def _ex():
    import jax
    jax.config.update("jax_enable_x64", True)
    import jax.numpy as jnp
    import exponax as ex
    return ex, jnp


def correspond(ctx):
    ex, jnp = _ex()
    sp = ex.spectral
    cases, impl, descs = [], [], []

    def add(mid, args, got, desc):
        cases.append((mid, args)); impl.append(got); descs.append(desc)

    # 49, 98, 103, 107: grid sizes for which N * (1 / N) != 1 in double precision (integer wavenumbers must still be exact)
    grid = [(1, 5), (1, 6), (2, 4), (2, 5), (3, 3), (3, 4), (1, 49), (1, 98)] if ctx.quick else \
        [(1, n) for n in range(3, 13)] + [(2, n) for n in range(3, 11)] + [(3, n) for n in range(3, 8)] + [(1, 49), (1, 98), (1, 103), (1, 107), (2, 49)]
    for D, N in grid:
        shape = (N,) * (D - 1) + (N // 2 + 1,)
        add(409, [D, N], list(sp.wavenumber_shape(D, N)), dict(fn="wavenumber_shape", D=D, N=N))
        idxs = list(itertools.product(*[range(s) for s in shape]))
        for xy in (False, True):
            wn = np.asarray(sp.build_wavenumbers(D, N, indexing="xy" if xy else "ij"))
            for a in range(D):
                add(402, [xy, D, N, a], [wn.shape[1 + a]], dict(fn="wn_axis_len", xy=xy, D=D, N=N, axis=a))
            if wn.shape[1:] == shape:
                for idx in idxs:
                    for c in range(D):
                        add(401, [xy, D, N, c] + list(idx), [int(round(float(wn[(c,) + idx])))], dict(fn="wavenumber", xy=xy, D=D, N=N, c=c, idx=list(idx)))
            for mode, code in MODES.items():
                sc = np.asarray(sp.build_scaling_array(D, N, mode=mode, indexing="xy" if xy else "ij"))
                if sc.shape[1:] != shape:
                    ctx.disagree("c04:scaling_shape", dict(D=D, N=N, xy=xy, mode=mode), list(shape), list(sc.shape))
                    continue
                for idx in idxs:
                    v = float(sc[(0,) + idx])
                    h = np.log2(N**D / v)
                    add(405, [D, N, code] + list(idx), [int(round(h))] if abs(h - round(h)) < 1e-9 else [float("nan")],
                        dict(fn="scaling", xy=xy, D=D, N=N, mode=mode, idx=list(idx)))
        cutoffs = range(0, N // 2 + 2) if (not ctx.quick or N > 20) and D == 1 else (0, 1, N // 2 - 1, N // 2, N // 2 + 1)
        if not ctx.quick and D > 1 and N <= 12:
            cutoffs = range(0, N // 2 + 2)
        for cut in sorted(set(cutoffs)):
            if cut < 0:
                continue
            for radial in (False, True):
                m = np.asarray(sp.low_pass_filter_mask(D, N, cutoff=cut, axis_separate=not radial))
                for idx in idxs:
                    add(403, [radial, D, N, cut] + list(idx), [int(bool(m[(0,) + idx]))], dict(fn="low_pass", radial=radial, D=D, N=N, cutoff=cut, idx=list(idx)))
        ob = np.asarray(sp.oddball_filter_mask(D, N))
        for idx in idxs:
            add(404, [D, N] + list(idx), [int(bool(ob[(0,) + idx]))], dict(fn="oddball", D=D, N=N, idx=list(idx)))
        # mode slices: membership of every index of a larger array (len m) in each block built for grid size n
        for M in ((N, N + 1, N + 3) if not ctx.quick else (N, N + 1)) if N <= 20 else ():
            sl = sp.get_modes_slices(D, N)
            big = (M,) * (D - 1) + (M // 2 + 1,)
            member = np.zeros((len(sl),) + big, dtype=bool)
            for b, block in enumerate(sl):
                z = np.zeros((1,) + big, dtype=bool)
                z[block] = True
                member[b] = z[0]
            if len(sl) != 2 ** (D - 1):
                ctx.disagree("c04:num_blocks", dict(D=D, N=N), 2 ** (D - 1), len(sl))
                continue
            for b in range(len(sl)):
                # block b: product(*slices_)[b] reversed: decode which of (left,right) was used per leading axis
                choice = list(itertools.product(*([[2]] + [[0, 1]] * (D - 1))))[b]
                per_axis = list(reversed(choice))          # per array axis: 0 left, 1 right, 2 last
                for a in range(D):
                    ln = big[a]
                    for j in range(ln):
                        # marginal membership along axis a (other axes at an index that is inside the block, if any)
                        others = np.any(member[b], axis=tuple(x for x in range(D) if x != a)) if D > 1 else member[b]
                        add(406, [N, ln, per_axis[a], j], [int(bool(others[j]))], dict(fn="mode_slice", D=D, N=N, M=M, block=b, axis=a, j=j))
        u = np.arange(2 * N**D, dtype=float).reshape((2,) + (N,) * D)
        w = np.asarray(ex.wrap_bc(jnp.asarray(u)))
        for j in range(N + 1):
            add(407, [N, j], [int(w[(0,) + (0,) * (D - 1) + (j,)])], dict(fn="wrap_bc", D=D, N=N, j=j))
    res = core.run_model(cases)
    for (mid, args), got, desc, mres in zip(cases, impl, descs, res):
        ctx.case(desc)
        ctx.count(desc["fn"])
        exp = [int(x) for x in mres]
        if desc["fn"] == "wrap_bc":
            exp = [exp[0]]   # the wrapped entry equals entry wrap_index (values were arange on the last axis of channel 0)
            exp = [int(u[(0,) + (0,) * (desc["D"] - 1) + (exp[0],)])] if False else exp
            got = [got[0] - int(got[0] // 1) + got[0]] if False else got
            # u[0,0,..,j] = j for the leading zeros, so the expected value is the wrapped index itself
        if got != exp:
            ctx.disagree("c04:" + desc["fn"], desc, exp, got)
    # make_grid: exact index -> coordinate map (float comparison with j*L/N)
    for D, N in grid[:6]:
        for full, zc, xy in itertools.product((False, True), repeat=3):
            L = 3.7
            g = np.asarray(ex.make_grid(D, L, N, full=full, zero_centered=zc, indexing="xy" if xy else "ij"))
            n1 = N + 1 if full else N
            ctx.case(dict(fn="make_grid", D=D, N=N, full=full, zero_centered=zc, xy=xy))
            ok = g.shape == (D,) + (n1,) * D
            if ok:
                for idx in itertools.product(range(n1), repeat=D):
                    for c in range(D):
                        a = c if not (xy and D >= 2) else {0: 1, 1: 0}.get(c, c)
                        exp = idx[a] * L / N - (L / 2 if zc else 0.0)
                        ok &= abs(g[(c,) + idx] - exp) < 1e-12
            if not ok:
                ctx.disagree("c04:make_grid", dict(D=D, N=N, full=full, zero_centered=zc, xy=xy), "x_j = j L / N along mesh_axis", "differs")


# ------------------------------------------------------------------------------------------------
def brute_rfftn(u):
    """O(N^{2D}) DFT of a real D-dim array restricted to the half spectrum (independent of any FFT)"""
    D, N = u.ndim, u.shape[0]
    out = np.zeros((N,) * (D - 1) + (N // 2 + 1,), dtype=complex)
    grid = np.indices(u.shape)
    for idx in itertools.product(*[range(s) for s in out.shape]):
        ph = sum(idx[c] * grid[c] for c in range(D))
        out[idx] = np.sum(u * np.exp(-2j * np.pi * ph / N))
    return out


def t_roundtrip(D, N, C, seed):
    ex, jnp = _ex()
    u = np.random.default_rng(seed).standard_normal((C,) + (N,) * D)
    uh = ex.fft(jnp.asarray(u))
    back = np.asarray(ex.ifft(uh, num_spatial_dims=D, num_points=N))
    ok = core.close(back, u, 1e-12) and core.close(np.asarray(uh)[0], brute_rfftn(u[0]), 1e-11)
    if not ok:
        return ok, "ifft(fft(u)) != u or fft(u) is not the DFT of u"
    # the documented defaults: num_spatial_dims / num_points inferred (odd N must come back with N points on every axis)
    # (in 1D num_points cannot be inferred from N//2+1 coefficients and the library documents that it must be given)
    for kw in ((dict(), dict(num_spatial_dims=D), dict(num_points=N)) if D >= 2 else (dict(num_points=N),)):
        try:
            b2 = np.asarray(ex.ifft(uh, **kw))
        except Exception as e:
            return False, f"ifft(fft(u), {kw}) raises {type(e).__name__}: {e}"
        if b2.shape != u.shape or not core.close(b2, u, 1e-12):
            return False, f"ifft(fft(u), {kw}) has shape {b2.shape} (state {u.shape}) or differs from u"
        uh2 = np.asarray(ex.fft(jnp.asarray(u), **({} if "num_spatial_dims" not in kw else dict(num_spatial_dims=D))))
        if not core.close(uh2, np.asarray(uh), 1e-12):
            return False, f"fft(u, {kw}) differs from fft(u)"
    return True, ""


def t_single_mode(D, N, k, phase, L, xy):
    """a cos(2 pi k.x/L + phase) appears exactly where the wavenumber array names k (and -k), with N^D * a e^{i phase}/2"""
    ex, jnp = _ex()
    ix = "xy" if xy else "ij"
    x = np.asarray(ex.make_grid(D, L, N, indexing=ix))
    wn = np.asarray(ex.spectral.build_wavenumbers(D, N, indexing=ix))
    a = 1.3
    th = sum(2 * np.pi * k[c] * x[c] / L for c in range(D)) + phase
    u = a * np.cos(th)[None]
    uh = np.asarray(ex.fft(jnp.asarray(u)))[0]
    if wn.shape[1:] != uh.shape:
        return False, f"wavenumber array shape {wn.shape[1:]} does not fit the transform {uh.shape} for indexing={ix}"
    c = a * np.exp(1j * phase) / 2
    exp = np.zeros_like(uh)
    kk = np.asarray(k)
    plus = np.all([((wn[d] - kk[d]) % N) == 0 for d in range(D)], axis=0)
    minus = np.all([((wn[d] + kk[d]) % N) == 0 for d in range(D)], axis=0)
    exp = exp + np.where(plus, N**D * c, 0) + np.where(minus, N**D * np.conj(c), 0)
    if plus.sum() > 1 or minus.sum() > 1:
        return False, f"wavenumber vector {k} is named by more than one stored entry"
    ok = core.close(uh, exp, 1e-11)
    # read-off through the documented scaling: reconstruction mode gives amplitude a at the stored representative
    rec = np.asarray(ex.spectral.get_fourier_coefficients(jnp.asarray(u), scaling_compensation_mode="reconstruction", round=None, indexing=ix))[0]
    sel = plus | minus
    if sel.any() and not np.all(plus == minus):
        amp = np.abs(rec[sel])
        nyq = (N % 2 == 0) and any(abs(kc) == N // 2 for kc in k)
        if not nyq and not np.allclose(amp, a, atol=1e-10):
            last = -1
            stored_last = wn[D - 1 if not (xy and D == 2) else 0][sel]
            if np.all(stored_last != 0) and not np.allclose(amp, a, atol=1e-10):
                return False, f"reconstruction-scaled coefficient has magnitude {amp}, expected {a} for k={k}"
    return ok, f"spectrum of a cos(k.x+phase), k={k}, indexing={ix}: deviation {np.max(np.abs(uh-exp)):.2e}"


def t_coef_extraction(D, N, ks, seed):
    """product of cosines prod_c cos(2 pi ks[c] x_c): coef_extraction returns the tensor-product amplitude at (|ks|)"""
    ex, jnp = _ex()
    x = np.asarray(ex.make_grid(D, 2 * np.pi, N))
    a = 0.7
    u = a * np.prod([np.cos(ks[c] * x[c]) for c in range(D)], axis=0)[None]
    co = np.asarray(ex.spectral.get_fourier_coefficients(jnp.asarray(u), scaling_compensation_mode="coef_extraction", round=None))[0]
    idx = tuple(ks[c] % N if c < D - 1 else ks[c] for c in range(D))
    ok = abs(co[idx] - a) < 1e-10
    return ok, f"coef_extraction at {idx}: {co[idx]} vs amplitude {a}"


def t_xy_pipeline(D, N, seed):
    """derivative / coefficient extraction / projection with indexing='xy' agree with the 'ij' results on the transposed field"""
    ex, jnp = _ex()
    rng = np.random.default_rng(seed)
    L = 2.3
    def nyqfree(a):
        ah = np.fft.fftn(a, axes=tuple(range(1, D + 1)))
        if N % 2 == 0:
            for ax in range(1, D + 1):
                sl = [slice(None)] * (D + 1); sl[ax] = N // 2
                ah[tuple(sl)] = 0
        return np.real(np.fft.ifftn(ah, axes=tuple(range(1, D + 1))))
    u = nyqfree(rng.standard_normal((1,) + (N,) * D))
    perm = (0, 2, 1) + tuple(range(3, D + 1))
    d_ij = np.asarray(ex.derivative(jnp.asarray(u), L, indexing="ij"))
    d_xy = np.asarray(ex.derivative(jnp.asarray(np.transpose(u, perm)), L, indexing="xy"))
    # derivative along grid component c: with xy the first two array axes are exchanged, components keep their names
    exp = np.transpose(d_ij, perm)
    ok = core.close(d_xy, exp, 1e-10)
    v = nyqfree(rng.standard_normal((D,) + (N,) * D))
    p_ij = np.asarray(ex.spectral.make_incompressible(jnp.asarray(v), indexing="ij"))
    vt = np.transpose(v, perm)
    p_xy = np.asarray(ex.spectral.make_incompressible(jnp.asarray(vt), indexing="xy"))
    ok2 = core.close(p_xy, np.transpose(p_ij, perm), 1e-10)
    return ok and ok2, f"xy pipeline: derivative consistent={ok}, make_incompressible consistent={ok2}"


def t_masks(D, N):
    """low-pass masks with integer cutoffs and the Nyquist mask select exactly the documented modes; wavenumbers are the integers"""
    ex, jnp = _ex()
    sp = ex.spectral
    modes = symbols.wavenumbers(D, N)
    wn = np.asarray(sp.build_wavenumbers(D, N))
    for idx, k in modes:
        if any(float(wn[(c,) + idx]) != k[c] for c in range(D)):
            return False, f"build_wavenumbers({D},{N}){idx} = {[float(wn[(c,)+idx]) for c in range(D)]}, expected the integers {k}"
    for cut in sorted({0, 1, N // 4, N // 2 - 1, N // 2, 11} & set(range(0, N // 2 + 1))):
        m = np.asarray(sp.low_pass_filter_mask(D, N, cutoff=cut))[0]
        mr = np.asarray(sp.low_pass_filter_mask(D, N, cutoff=cut, axis_separate=False))[0]
        for idx, k in modes:
            if bool(m[idx]) != all(abs(kc) <= cut for kc in k):
                return False, f"low_pass_filter_mask({D},{N},cutoff={cut}) at wavenumber {k}: {bool(m[idx])}"
            if bool(mr[idx]) != (sum(kc * kc for kc in k) <= cut * cut) and abs(sum(kc * kc for kc in k) - cut * cut) > 0:
                return False, f"radial low_pass_filter_mask({D},{N},cutoff={cut}) at wavenumber {k}: {bool(mr[idx])}"
    # a negative cutoff (as in the band-pass idiom low - 1 with low = 0) selects nothing, per axis and radially; fractional cutoffs
    for cut in (-1, -2.5, 0.5, 1.5, (N // 2) - 0.5):
        m = np.asarray(sp.low_pass_filter_mask(D, N, cutoff=cut))[0]
        mr = np.asarray(sp.low_pass_filter_mask(D, N, cutoff=cut, axis_separate=False))[0]
        for idx, k in modes:
            if bool(m[idx]) != all(abs(kc) <= cut for kc in k):
                return False, f"low_pass_filter_mask({D},{N},cutoff={cut}) at wavenumber {k}: {bool(m[idx])}"
            r2 = sum(kc * kc for kc in k)
            if bool(mr[idx]) != (cut >= 0 and r2 <= cut * cut) and abs(r2 - cut * cut) > 1e-9:
                return False, f"radial low_pass_filter_mask({D},{N},cutoff={cut}) at wavenumber {k}: {bool(mr[idx])}"
    ob = np.asarray(sp.oddball_filter_mask(D, N))[0]
    for idx, k in modes:
        if bool(ob[idx]) != (not (N % 2 == 0 and any(abs(kc) == N // 2 for kc in k))):
            return False, f"oddball_filter_mask({D},{N}) at wavenumber {k}: {bool(ob[idx])}"
    for mode, (dr, do) in dict(norm_compensation=(1, 1), reconstruction=(2, 1), coef_extraction=(2, 2)).items():
        sc = np.asarray(sp.build_scaling_array(D, N, mode=mode))[0]
        for idx, k in modes:
            e = 1.0
            for c, kc in enumerate(k):
                plain = kc == 0 or (N % 2 == 0 and abs(kc) == N // 2)
                e *= N if plain else N / (dr if c == D - 1 else do)
            if abs(sc[idx] - e) > 1e-9 * e:
                return False, f"build_scaling_array({D},{N},{mode}) at wavenumber {k}: {sc[idx]} vs {e}"
    return True, ""


def t_shape_helpers(D, N):
    """space_indices, spatial_shape, wavenumber_shape agree with the arrays the library builds"""
    ex, jnp = _ex()
    sp = ex.spectral
    if tuple(sp.space_indices(D)) != tuple(range(-D, 0)):
        return False, f"space_indices({D}) = {sp.space_indices(D)}"
    if tuple(sp.spatial_shape(D, N)) != (N,) * D or tuple(sp.wavenumber_shape(D, N)) != (N,) * (D - 1) + (N // 2 + 1,):
        return False, f"spatial_shape / wavenumber_shape: {sp.spatial_shape(D, N)}, {sp.wavenumber_shape(D, N)}"
    u = jnp.zeros((1,) + (N,) * D)
    if tuple(np.asarray(ex.fft(u)).shape[1:]) != tuple(sp.wavenumber_shape(D, N)) or tuple(np.asarray(sp.build_wavenumbers(D, N)).shape[1:]) != tuple(sp.wavenumber_shape(D, N)):
        return False, "wavenumber_shape differs from the shape of fft(u) / build_wavenumbers"
    return True, ""


def t_grid_sizes(L, lo, hi):
    """make_grid returns exactly N points (N + 1 with full=True), the last one below L, for EVERY N in [lo, hi) and this L: a float
    step (arange(0, L, L/N)) would give N + 1 points for particular (L, N)"""
    ex, jnp = _ex()
    for N in range(lo, hi):
        for full in (False, True):
            g = np.asarray(ex.make_grid(1, L, N, full=full))
            n = N + 1 if full else N
            if g.shape != (1, n):
                return False, f"make_grid(1, {L}, {N}, full={full}) has shape {g.shape}, expected (1, {n})"
            if not np.allclose(g[0], np.arange(n) * L / N, rtol=0, atol=1e-12 * L):
                return False, f"make_grid(1, {L}, {N}, full={full}) is not j L / N"
            if not full and not g[0, -1] < L:
                return False, f"make_grid(1, {L}, {N}) contains the right boundary"
    return True, ""


def t_grid(D, N, L, full, zero_centered, xy):
    """make_grid: left-inclusive, right-exclusive (inclusive with full=True) equidistant grid on [0, L) resp. [-L/2, L/2); a cosine sampled on
    it has the documented Fourier coefficient (phase shifted by the grid origin)"""
    ex, jnp = _ex()
    g = np.asarray(ex.make_grid(D, L, N, full=full, zero_centered=zero_centered, indexing="xy" if xy else "ij"))
    n = N + 1 if full else N
    if g.shape != (D,) + (n,) * D:
        return False, f"grid shape {g.shape}"
    x0 = -L / 2 if zero_centered else 0.0
    for c in range(D):
        ax = (1 - c if (xy and D >= 2 and c < 2) else c)
        line = np.moveaxis(g[c], ax, 0).reshape(n, -1)
        if not np.allclose(line, (x0 + np.arange(n) * L / N)[:, None], rtol=0, atol=1e-13 * L):
            return False, f"coordinate {c}: first points {line[:3, 0]}, expected {x0 + np.arange(3) * L / N}"
    if not full and not xy:
        k = [1 + (c % max(1, (N - 1) // 2)) for c in range(D)] if N >= 3 else [0] * D
        u = np.cos(sum(2 * np.pi * k[c] * g[c] / L for c in range(D)) + 0.4)[None]
        uh = np.asarray(ex.fft(jnp.asarray(u)))[0]
        idx = tuple(k)
        exp = 0.5 * N**D * np.exp(1j * (0.4 + sum(2 * np.pi * k[c] * x0 / L for c in range(D))))
        if N >= 3 and 2 * max(k) < N and abs(uh[idx] - exp) > 1e-9 * N**D:
            return False, f"coefficient of cos on the {'zero-centred ' if zero_centered else ''}grid at {k}: {uh[idx]}, expected {exp}"
    return True, ""


TESTS = dict(shape_helpers=t_shape_helpers, grid_sizes=t_grid_sizes, grid=t_grid, masks=t_masks, roundtrip=t_roundtrip, single_mode=t_single_mode, coef_extraction=t_coef_extraction, xy_pipeline=t_xy_pipeline)


def witness(ctx):
    deep = ctx.deep
    dn = [(1, 6), (1, 7), (2, 4), (2, 5), (3, 3), (3, 4)] if not deep else [(1, n) for n in range(3, 12)] + [(2, n) for n in range(3, 9)] + [(3, n) for n in range(3, 7)]
    for D, N in dn + [(1, 49), (1, 98), (1, 103), (2, 49)]:
        ctx.check("masks", dict(D=D, N=N))
    for L in (1.0, 3.0, 5.0, 2 * np.pi, 2.9) + ((0.1, 10.0, 7.0, 100.0) if deep else ()):
        ctx.check("grid_sizes", dict(L=L, lo=2, hi=131 if not deep else 300))
    for D, N in dn:
        ctx.check("shape_helpers", dict(D=D, N=N))
        for full, zc in itertools.product((False, True), repeat=2):
            for xy in ((False, True) if D >= 2 else (False,)):
                ctx.check("grid", dict(D=D, N=N, L=2.9, full=full, zero_centered=zc, xy=xy))
        ctx.check("roundtrip", dict(D=D, N=N, C=2, seed=ctx.seed))
        half = N // 2
        ks = list(itertools.product(range(-half, half + 1), repeat=D))
        if len(ks) > 60 and not deep:
            ks = [ks[i] for i in ctx.rng.choice(len(ks), 60, replace=False)]
        for k in ks:
            for xy in ((False, True) if D >= 2 else (False,)):
                ctx.check("single_mode", dict(D=D, N=N, k=list(k), phase=0.7 if sum(k) % 2 else -1.1, L=2.9, xy=xy), nontrivial=any(k))
        for kk in itertools.product(range(0, (N - 1) // 2 + 1), repeat=D):
            if all(kk) or deep:
                ctx.check("coef_extraction", dict(D=D, N=N, ks=list(kk), seed=ctx.seed))
        if D >= 2:
            ctx.check("xy_pipeline", dict(D=D, N=N, seed=ctx.seed))
