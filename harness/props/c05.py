"""C05 — spectral differential operators are exact on band-limited fields."""
import itertools
from fractions import Fraction

import numpy as np

from .. import core, symbols
from ..translate import guards as tr_guards
from ..translate import spectral as tr_spectral
from ..translate import linops as tr_linops

ID = "C05"
PROPS_FILE = "C05"
RULE = ("correspondence (exact rationals, L = 2 pi q): build_laplace_operator for orders 0,2,4,6 and build_gradient_inner_product_operator for orders 1,3,5 at every stored mode; "
        "Poisson._inv_operator / step_fourier for orders 2 and 4 at every stored mode; ex.derivative's spectral multiplier (orders 1..6) on single stored modes; "
        "witness: ex.derivative of random Nyquist-free trigonometric polynomials (D=1..3, C=1..3, odd/even N, random L) vs the analytic derivative, Poisson vs the analytic "
        "zero-mean solution, parity guards. Non-trivial: non-constant modes; distinct by input hash.")
TRUSTED_EXTRA = ["harness/translate/spectral.py (build_derivative_operator / build_scaled_wavenumbers; same contracts as for C04) and harness/translate/guards.py"]
ASSUMPTIONS = ["symbol calculus for exponentials; rfftn/irfftn of C04"]


def translate(ctx):
    """Gen/Guards.v and Gen/SpectralGen.v (the derivative operator of _spectral.py, tied to the layout by Tie/SpectralTie.v and the
    theorem C05_code_derivative_operator_is_model); both are always attempted"""
    errors = []
    for name, fn in (("guards", tr_guards.run), ("spectral", tr_spectral.run), ("linops", tr_linops.run),
                     ("poisson", lambda: tr_linops.run_operators(require=("poisson",)))):
        try:
            fn()
        except Exception as e:
            errors.append(f"{name}: {type(e).__name__}: {e}")
    if errors:
        raise RuntimeError("; ".join(errors))


def _ex():
    import jax
    jax.config.update("jax_enable_x64", True)
    import jax.numpy as jnp
    import exponax as ex
    return ex, jnp


def correspond(ctx):
    ex, jnp = _ex()
    rng = ctx.rng
    cases, meta = [], []
    grid = [(1, 8), (2, 5), (2, 6), (3, 4)] if ctx.quick else [(1, 8), (1, 9), (2, 5), (2, 6), (2, 7), (3, 4), (3, 5)]
    for D, N in grid:
        q = Fraction(5, 4)
        L = 2 * np.pi * float(q)
        dop = ex.spectral.build_derivative_operator(D, L, N)
        modes = symbols.wavenumbers(D, N)
        for order in (0, 2, 4, 6):
            arr = np.asarray(ex.spectral.build_laplace_operator(dop, order=order))
            arr = np.broadcast_to(arr, (1,) + tuple(np.asarray(dop).shape[1:]))
            for idx, k in modes:
                cases.append((101, [20, D, 1 / q, *k, order])); meta.append((dict(op="laplace", order=order, D=D, N=N, k=k), arr[(0,) + idx]))
        v = [symbols.dy(rng) for _ in range(D)]
        for order in (1, 3, 5):
            arr = np.asarray(ex.spectral.build_gradient_inner_product_operator(dop, jnp.asarray(v), order=order))
            for idx, k in modes:
                cases.append((101, [21, D, 1 / q, *k, order, *v])); meta.append((dict(op="gip", order=order, D=D, N=N, k=k, v=v), arr[(0,) + idx]))
        for order, Lp in ((2, L), (4, L), (2, 2 * np.pi * 2e4), (4, 2 * np.pi * 2e4), (4, 2 * np.pi * 1e-3)):
            P = ex.poisson.Poisson(D, Lp, N, order=order)
            lap = np.asarray(ex.spectral.build_laplace_operator(ex.spectral.build_derivative_operator(D, Lp, N), order=order))
            f_hat = (rng.integers(-8, 9, np.asarray(dop).shape[1:]) + 1j * rng.integers(-8, 9, np.asarray(dop).shape[1:])) / 8.0
            out = np.asarray(P.step_fourier(jnp.asarray(f_hat)[None]))[0]
            for idx, k in modes:
                lam = lap[(0,) + idx]
                cases.append((501, [lam.real, lam.imag, f_hat[idx].real, f_hat[idx].imag])); meta.append((dict(op="poisson", order=order, D=D, N=N, k=k), out[idx]))
    res = core.run_model(cases)
    for (desc, impl), mres in zip(meta, res):
        ctx.case(desc, nontrivial=any(desc["k"]))
        ctx.count(desc["op"])
        m = core.to_cx(mres)[0]
        if not (np.isfinite(impl) and abs(impl - m) <= 1e-11 * (1 + abs(m))):
            ctx.disagree("c05:" + desc["op"], desc, m, complex(impl))


# -----------------------------------------------------------------------------------------------
def trig_poly(D, N, C, L, rng, nmodes=4):
    """random Nyquist-free real trigonometric polynomial: list per channel of (k vector, complex coefficient)"""
    kmax = (N - 1) // 2
    allm = [k for k in itertools.product(range(-kmax, kmax + 1), repeat=D)]
    out = []
    for _ in range(C):
        pick = [allm[i] for i in rng.choice(len(allm), size=min(nmodes, len(allm)), replace=False)]
        out.append([(m, complex(rng.standard_normal(), rng.standard_normal())) for m in pick])
    return out


def eval_poly(poly, x, L, mult=None):
    res = []
    for ch in poly:
        u = 0.0
        for m, c in ch:
            kap = [2 * np.pi * mm / L for mm in m]
            ph = sum(kap[d] * x[d] for d in range(len(m)))
            u = u + np.real((1.0 if mult is None else mult(kap)) * c * np.exp(1j * ph))
        res.append(u + 0 * x[0])
    return np.stack(res)


def t_derivative(D, N, C, L, order, seed):
    ex, jnp = _ex()
    rng = np.random.default_rng(seed)
    poly = trig_poly(D, N, C, L, rng)
    x = np.asarray(ex.make_grid(D, L, N))
    u = eval_poly(poly, x, L)
    got = np.asarray(ex.derivative(jnp.asarray(u), L, order=order))
    exp = np.stack([eval_poly(poly, x, L, mult=lambda kap, c=c: (1j * kap[c]) ** order) for c in range(D)], axis=1)   # (C, D, ...)
    if C == 1:
        exp = exp[0]
    if got.shape != exp.shape:
        return False, f"derivative output shape {got.shape}, expected {exp.shape} (gradient axis after the channel axis)"
    scale = (2 * np.pi * ((N - 1) // 2) / L) ** order
    err = np.max(np.abs(got - exp)) / (1 + scale * np.max(np.abs(u)))
    return err < 1e-10, f"derivative order {order}, D={D} N={N} C={C} L={L}: deviation {err:.3e}"


def t_poisson(D, N, L, order, seed):
    ex, jnp = _ex()
    rng = np.random.default_rng(seed)
    poly = trig_poly(D, N, 1, L, rng, nmodes=5)
    poly[0].append((tuple([0] * D), complex(0.8, 0.0)))       # non-zero mean of the right-hand side
    x = np.asarray(ex.make_grid(D, L, N))
    f = eval_poly(poly, x, L)
    u = np.asarray(ex.poisson.Poisson(D, L, N, order=order)(jnp.asarray(f)))

    def inv(kap):
        s = sum((1j * kc) ** order for kc in kap)
        return 0.0 if abs(s) == 0 else -1.0 / s
    exp = eval_poly(poly, x, L, mult=inv)
    err = np.max(np.abs(u - exp)) / (1 + np.max(np.abs(exp)))
    ok = err < 1e-10 and abs(np.mean(u)) < 1e-12 * (1 + np.max(np.abs(u)))
    return ok, f"Poisson order {order}, D={D} N={N} L={L}: deviation {err:.3e}, mean {np.mean(u):.2e}"


def t_operator_symbols(D, N, L, seed):
    """build_laplace_operator (orders 0..8) and build_gradient_inner_product_operator (orders 1..9) at every stored mode against an
    independent evaluation of sum_c (i kappa_c)^order resp. sum_c v_c (i kappa_c)^order"""
    ex, jnp = _ex()
    rng = np.random.default_rng(seed)
    dop = ex.spectral.build_derivative_operator(D, L, N)
    wn = np.asarray(ex.spectral.build_wavenumbers(D, N)) * (2 * np.pi / L)
    v = rng.uniform(-1.5, 1.5, D)
    for order in (0, 2, 4, 6, 8):
        got = np.asarray(ex.spectral.build_laplace_operator(dop, order=order))[0]
        exp = sum((1j * wn[c]) ** order for c in range(D)) if order > 0 else np.ones_like(wn[0], dtype=complex)
        if np.max(np.abs(got - exp)) > 1e-11 * (1 + np.max(np.abs(exp))):
            return False, f"build_laplace_operator(order={order}) D={D} N={N} L={L}: deviation {np.max(np.abs(got - exp)):.3e}"
    for order in (1, 3, 5, 7, 9):
        got = np.asarray(ex.spectral.build_gradient_inner_product_operator(dop, jnp.asarray(v), order=order))[0]
        exp = sum(v[c] * (1j * wn[c]) ** order for c in range(D))
        if np.max(np.abs(got - exp)) > 1e-11 * (1 + np.max(np.abs(exp))):
            return False, f"build_gradient_inner_product_operator(order={order}) D={D} N={N} L={L}: deviation {np.max(np.abs(got - exp)):.3e}"
    return True, ""


def t_parity(order):
    ex, jnp = _ex()
    dop = ex.spectral.build_derivative_operator(2, 1.0, 6)
    def raises(f):
        try:
            f(); return False
        except ValueError:
            return True
    a = raises(lambda: ex.spectral.build_laplace_operator(dop, order=order)) == (order % 2 != 0)
    b = raises(lambda: ex.spectral.build_gradient_inner_product_operator(dop, jnp.ones(2), order=order)) == (order % 2 != 1)
    return a and b, f"parity guard for order {order}: laplace ok={a}, gradient inner product ok={b}"


TESTS = dict(operator_symbols=t_operator_symbols, derivative=t_derivative, poisson=t_poisson, parity=t_parity)


def witness(ctx):
    deep = ctx.deep
    dn = [(1, 9), (1, 10), (2, 5), (2, 6), (3, 4)] if not deep else [(1, 9), (1, 10), (1, 16), (2, 5), (2, 6), (2, 8), (3, 4), (3, 5)]
    for D, N in dn:
        for C in ((1, 2) if not deep else (1, 2, 3)):
            for order in ((1, 2, 3, 6) if not deep else range(1, 7)):
                ctx.check("derivative", dict(D=D, N=N, C=C, L=float(ctx.rng.choice([1.0, 2.7, 6.5])), order=order, seed=ctx.seed + order))
        for Lp in (2.7, 1.0):
            ctx.check("operator_symbols", dict(D=D, N=N, L=Lp, seed=ctx.seed))
        for order in (2, 4):
            for Lp in (3.3, 1.0e5, 1.0e-3):
                ctx.check("poisson", dict(D=D, N=N, L=Lp, order=order, seed=ctx.seed))
    for order in range(0, 8):
        ctx.check("parity", dict(order=order))
