"""C08 — steppers commute with the symmetries of the periodic box."""
import itertools

import numpy as np

from .. import core, registry
from ..translate import etdrk as tr_etdrk
from ..translate import nonlin as tr_nonlin

ID = "C08"
PROPS_FILE = "C08"
RULE = ("correspondence: shared exact suites (every nonlinear term vs the extracted convolution model, C03; every linear symbol vs the extracted symbol model, C01) - the theorems of this property are "
        "about those models; here the model's prediction 'T step = step T' is checked on the real code: translation by whole grid cells for EVERY exported stepper class x admissible D x orders x "
        "white-noise states x random and exhaustive (small N) shifts (Kolmogorov forcing: shifts along the invariant direction only); axis permutations for the isotropic steppers with velocity "
        "channels permuted along (vorticity: pseudo-scalar sign; odd-order symbols: Nyquist-free states on even grids); 1D embedding along every axis with the corresponding coefficients. "
        "Grid sizes include N where the dealiasing cutoff is fractional (32) and odd N. Non-trivial: random states, non-zero shifts; distinct by input hash.")
TRUSTED_EXTRA = ["harness/translate/etdrk.py (stage programs) and harness/translate/nonlin.py (the nonlinear terms whose permutation equivariance is proved for the source text)"]
ASSUMPTIONS = ["rfftn/irfftn of C04; jnp.roll is the grid translation"]


def translate(ctx):
    """Gen/ETDRK.v (stage programs) and Gen/NonlinFuns.v (the nonlinear terms of the source, theorem
    C08_code_terms_commute_with_axis_permutations through Tie/NonlinTie.v); both are always attempted"""
    errors = []
    for name, tr in (("etdrk", tr_etdrk), ("nonlin", tr_nonlin)):
        try:
            tr.run()
        except Exception as e:
            errors.append(f"{name}: {type(e).__name__}: {e}")
    if errors:
        raise RuntimeError("; ".join(errors))


def _ex():
    import jax
    jax.config.update("jax_enable_x64", True)
    import jax.numpy as jnp
    import exponax as ex
    return ex, jnp


def correspond(ctx):
    # one exact suite so that the tie of the underlying models is re-established in this check as well
    from . import c03
    cases, meta = [], []
    for (name, D, N) in [("conv_sc_cons", 1, 12), ("conv_mc_noncons", 2, 9), ("gradient_norm", 2, 6), ("polynomial", 1, 16)]:
        fkey = "1/2" if name in c03.CUBIC else "2/3"
        args, impl, oob, band, stored, nout = c03.run_case(name, D, N, fkey, ctx.seed + N)
        cases.append((301, args)); meta.append((dict(term=name, D=D, N=N), impl, band, nout))
    for (desc, impl, band, nout), mres in zip(meta, core.run_model(cases)):
        ctx.case(desc)
        m = np.asarray(core.to_cx(mres)).reshape(nout, len(band))[:, [i for i, k in enumerate(band) if k[-1] >= 0]]
        if not core.close(impl, m, 1e-10):
            ctx.disagree("c08:term", desc, "model", "differs")


# ------------------------------------------------------------------------------------------------------
def nyqfree(a, D, N):
    from .c10 import nyqfree as f
    return f(a, D, N)


def t_translation(cls, D, N, order, shift, seed, opts=None):
    ex, jnp = _ex()
    kw = dict(order=order) if registry.has_order(cls) and cls != "DifficultyLinearStepperSimple" else {}
    kw.update(dict(opts or {}))
    s = registry.make(cls, D, N, dt=0.02, **kw)
    u = jnp.asarray(0.4 * np.random.default_rng(seed).standard_normal((s.num_channels,) + (N,) * D))
    T = lambda v: jnp.roll(v, tuple(shift), axis=tuple(range(1, D + 1)))
    a, b = np.asarray(s(T(u))), np.asarray(T(s(u)))
    err = np.max(np.abs(a - b)) / (1 + np.max(np.abs(b)))
    return err < 1e-11, f"{cls}{opts or ''} D={D} N={N} order={order} shift={shift}: |step(T u) - T step(u)| = {err:.3e}"


ISO_SCALAR = ["Diffusion", "HyperDiffusion", "KuramotoSivashinsky", "AllenCahn", "CahnHilliard", "FisherKPP", "SwiftHohenberg", "GrayScott", "GeneralLinearStepper",
              "GeneralGradientNormStepper", "GeneralPolynomialStepper", "GeneralNonlinearStepper", "Wave", "Advection", "Dispersion"]
ISO_VECTOR = ["Burgers", "KortewegDeVries", "GeneralConvectionStepper"]


def t_permutation(cls, D, N, order, perm, seed, opts=None):
    """permuting the spatial axes (and the velocity channels with them) permutes the result; opts: non-default constructor flags
    (conservative / single_channel forms of the convective steppers)"""
    ex, jnp = _ex()
    opts = dict(opts or {})
    kw = dict(order=order) if registry.has_order(cls) else {}
    s = registry.make(cls, D, N, dt=0.02, **kw, **opts)
    rng = np.random.default_rng(seed)
    u = 0.4 * rng.standard_normal((s.num_channels,) + (N,) * D)
    u = nyqfree(u, D, N)          # odd-order symbols need Nyquist-free states on even grids; harmless otherwise
    vec = (cls in ISO_VECTOR or cls in ("NavierStokesVelocity", "KolmogorovFlowVelocity", "KuramotoSivashinskyConservative")) and s.num_channels == D
    sign = -1.0 if (cls in ("NavierStokesVorticity", "GeneralVorticityConvectionStepper") and _parity(perm) == 1) else 1.0

    def P(v):
        v = np.transpose(v, (0,) + tuple(p + 1 for p in perm))
        if vec:
            v = v[list(perm)]
        return sign * v
    a, b = np.asarray(s(jnp.asarray(P(u)))), P(np.asarray(s(jnp.asarray(u))))
    err = np.max(np.abs(a - b)) / (1 + np.max(np.abs(b)))
    return err < 1e-11, f"{cls}{opts or ''} D={D} N={N} order={order} perm={perm}: |step(P u) - P step(u)| = {err:.3e}"


def _parity(perm):
    p, inv = list(perm), 0
    for i in range(len(p)):
        for j in range(i + 1, len(p)):
            inv += p[i] > p[j]
    return inv % 2


def t_embedding(name, D, N, axis, seed):
    """a D-dimensional stepper on a state that is constant along all but one axis reproduces the 1D stepper (zeroth-order coefficients divided by D)"""
    ex, jnp = _ex()
    import exponax.stepper.generic as G
    S, R = ex.stepper, ex.stepper.reaction
    L, dt = 3.0, 0.02
    mk = {"Diffusion": lambda d: S.Diffusion(d, L, N, dt, diffusivity=0.05), "Dispersion": lambda d: S.Dispersion(d, L, N, dt, dispersivity=0.2),
          "Burgers_single_channel": lambda d: S.Burgers(d, L, N, dt, single_channel=True, order=2),
          "KuramotoSivashinsky": lambda d: S.KuramotoSivashinsky(d, L, N, dt, order=3),
          "FisherKPP": lambda d: R.FisherKPP(d, L, N, dt, order=2),
          "GeneralLinear": lambda d: G.GeneralLinearStepper(d, L, N, dt, linear_coefficients=(-0.3 / d, 0.2, 0.01, -0.05)),
          # 2D vorticity with drag on a state constant along one axis: the convection vanishes, what remains is the 1D drag + diffusion
          "NavierStokesVorticity_drag": lambda d: (G.GeneralLinearStepper(1, L, N, dt, linear_coefficients=(-0.3, 0.0, 0.05)) if d == 1 else
                                                   S.NavierStokesVorticity(2, L, N, dt, diffusivity=0.05, drag=-0.3, order=2)),
          "GeneralNonlinear": lambda d: G.GeneralNonlinearStepper(d, L, N, dt, linear_coefficients=(0.1 / d, 0.0, 0.02), nonlinear_coefficients=(0.3, -0.7, 0.2), order=4)}[name]
    rng = np.random.default_rng(seed)
    v1 = 0.4 * rng.standard_normal((1, N))
    r1 = np.asarray(mk(1)(jnp.asarray(v1)))
    shape = [1] * D; shape[axis] = N
    ud = np.broadcast_to(v1.reshape((1,) + tuple(shape)), (1,) + (N,) * D)
    ref = np.broadcast_to(r1.reshape((1,) + tuple(shape)), (1,) + (N,) * D)
    got = np.asarray(mk(D)(jnp.asarray(ud)))
    err = np.max(np.abs(got - ref)) / (1 + np.max(np.abs(ref)))
    return err < 1e-11, f"{name} embedded in D={D} along axis {axis}, N={N}: deviation from the 1D stepper {err:.3e}"


TESTS = dict(translation=t_translation, permutation=t_permutation, embedding=t_embedding)


def witness(ctx):
    deep = ctx.deep
    rng = ctx.rng
    names = sorted(registry.classes())
    for cls in names:
        for D in registry.dims(cls):
            if not deep and D == 3 and cls not in ("NavierStokesVelocity", "KolmogorovFlowVelocity", "Burgers"):
                continue
            N = {1: 9, 2: 7, 3: 7}[D] if (hash(cls) + ctx.seed) % 2 else {1: 10, 2: 8, 3: 6}[D]
            orders = ((2,) if not deep else (1, 2, 3, 4)) if registry.has_order(cls) and cls != "DifficultyLinearStepperSimple" else (0,)
            for order in orders:
                for _ in range(1 if not deep else 3):
                    sh = [int(x) for x in rng.integers(1, N, size=D)]
                    if "Kolmogorov" in cls or (cls == "GeneralVorticityConvectionStepper"):
                        sh = [0 if a == 1 else sh[a] for a in range(D)]      # forcing varies along axis 1 only
                    ctx.check("translation", dict(cls=cls, D=D, N=N, order=order, shift=sh, seed=ctx.seed))
    # every boolean constructor flag flipped (all combinations in the thorough tier)
    for j, cls in enumerate(names):
        for opts in registry.flag_variants(cls, single=not deep):
            ds = registry.dims(cls)
            for D in (ds if deep else (ds[(j + ctx.seed) % len(ds)],)):
                N = {1: 10, 2: 8, 3: 6}[D] if (j + ctx.seed) % 2 else {1: 9, 2: 7, 3: 7}[D]
                ctx.check("translation", dict(cls=cls, D=D, N=N, order=2, shift=[int(x) for x in rng.integers(1, N, size=D)], seed=ctx.seed, opts=opts))
    # Kolmogorov forcing with injection modes that are sums of two squares (5 = 3^2 + 4^2 in magnitude, 10, 13): only the mode (0, k)
    # may be forced, so shifts along x_0 must still commute
    for cls, D in (("KolmogorovFlowVorticity", 2), ("GeneralVorticityConvectionStepper", 2), ("KolmogorovFlowVelocity", 3)):
        for kinj, N in ((5, 16), (10, 24)) if D == 2 else ((5, 12),):
            if deep or kinj == 5:
                sh = [int(rng.integers(1, N))] + [0] * (D - 1) if D == 2 else [int(rng.integers(1, N)), 0, int(rng.integers(1, N))]
                ctx.check("translation", dict(cls=cls, D=D, N=N, order=2, shift=sh, seed=ctx.seed, opts=dict(injection_mode=kinj, injection_scale=0.8)))
    # exhaustive shifts on a small grid for two nonlinear steppers, and a grid with fractional dealiasing cutoff
    for sh in (itertools.product(range(6), repeat=2) if deep else [(1, 0), (0, 5), (3, 2), (5, 5)]):
        ctx.check("translation", dict(cls="Burgers", D=2, N=6, order=2, shift=list(sh), seed=ctx.seed), nontrivial=any(sh))
    ctx.check("translation", dict(cls="KuramotoSivashinsky", D=2, N=32, order=2, shift=[5, 17], seed=ctx.seed))
    perms2, perms3 = [(1, 0)], [(1, 2, 0), (1, 0, 2), (2, 1, 0), (0, 2, 1), (2, 0, 1)]
    for cls in ISO_SCALAR + ISO_VECTOR:
        for (D, N) in ([(2, 7), (2, 32)] if cls in ("Burgers", "KuramotoSivashinsky") else [(2, 7)]) + ([(3, 7 if ctx.seed % 2 else 6)] if deep or cls in ("Burgers", "Diffusion", "KuramotoSivashinsky", "GeneralGradientNormStepper") else []) + ([(2, 8), (2, 11)] if deep else []):
            for perm in (perms2 if D == 2 else perms3):
                ctx.check("permutation", dict(cls=cls, D=D, N=N, order=2, perm=list(perm), seed=ctx.seed))
    # non-default forms of the convective steppers (conservative multi-channel, single-channel), all axis permutations in 3D
    all3 = [(0, 2, 1), (1, 0, 2), (1, 2, 0), (2, 0, 1), (2, 1, 0)]
    variants = [("Burgers", dict(conservative=True)), ("Burgers", dict(single_channel=True)), ("Burgers", dict(single_channel=True, conservative=True)),
                ("KortewegDeVries", dict(conservative=True)), ("KortewegDeVries", dict(single_channel=True)),
                ("GeneralConvectionStepper", dict(conservative=True)), ("GeneralConvectionStepper", dict(single_channel=True)),
                ("KuramotoSivashinskyConservative", {}), ("KuramotoSivashinskyConservative", dict(single_channel=True))]
    for j, (cls, opts) in enumerate(variants):
        ctx.check("permutation", dict(cls=cls, D=2, N=7 if (j + ctx.seed) % 2 else 8, order=2, perm=[1, 0], seed=ctx.seed, opts=opts))
        for perm in (all3 if deep or "conservative" in opts or cls == "KuramotoSivashinskyConservative" else [all3[(j + ctx.seed) % 5]]):
            ctx.check("permutation", dict(cls=cls, D=3, N=6 if (j + ctx.seed) % 2 else 7, order=2, perm=list(perm), seed=ctx.seed, opts=opts))
    ctx.check("permutation", dict(cls="NavierStokesVorticity", D=2, N=7, order=2, perm=[1, 0], seed=ctx.seed))
    for perm in perms3:
        ctx.check("permutation", dict(cls="NavierStokesVelocity", D=3, N=6 + ctx.seed % 2, order=2, perm=list(perm), seed=ctx.seed))
    for axis in (0, 1):
        for N in (8, 11):
            ctx.check("embedding", dict(name="NavierStokesVorticity_drag", D=2, N=N, axis=axis, seed=ctx.seed))
    for name in ("Diffusion", "Dispersion", "Burgers_single_channel", "KuramotoSivashinsky", "FisherKPP", "GeneralLinear", "GeneralNonlinear"):
        for D in (2, 3):
            for axis in range(D):
                for N in ((8, 11) if D == 2 else (6,)) + ((32,) if D == 2 and name in ("Burgers_single_channel", "KuramotoSivashinsky") else ()):
                    ctx.check("embedding", dict(name=name, D=D, N=N, axis=axis, seed=ctx.seed))
