"""C18 — initial-condition generators honour their documented contract."""
import itertools
from fractions import Fraction

import numpy as np

from .. import core, symbols
from ..translate import guards as tr_guards
from ..translate import icgen as tr_icgen

ID = "C18"
PROPS_FILE = "C18"
RULE = ("correspondence: (a) shape / rejection of gen(N, key) and existence of the function form for every public generator of exponax.ic x D=1..3 x N odd/even x "
        "nestings of ScaledICGenerator / ClampingICGenerator / RandomMultiChannelICGenerator vs the extracted gen_shape / supports_fun; (b) every constructor / call "
        "guard vs the translated predicates (Gen/Guards.v) over all flag combinations; (c) normalize_ic, ClampingICGenerator, ScaledICGenerator / ScaledIC on dyadic "
        "input (through a fixed base generator) vs the extracted model in exact rationals (un-rooted pieces where a square root occurs); (d) DC coefficient and mean of "
        "RandomTruncatedFourierSeries, the kept modes, the model's D-dimensional inverse DFT vs numpy ifftn, the squared GaussianRandomField amplitude at every "
        "stored mode, the Discontinuity shape. witness: the property on the real code (determinism, finiteness, shape, flags, offsets, band limit, power law against "
        "the white noise of the same key at every mode, diffusion, discontinuities / blobs / sines against independent numpy evaluation, clamping, scaling, function "
        "form, option rejection, multi-channel). Non-trivial: every case except constant bookkeeping; distinct by input hash.")
ASSUMPTIONS = ["the PRNG is not modelled: determinism in the key and the key-splitting scheme are checked on the real code only",
               "irfftn/rfftn = D-dimensional (inverse) DFT of the Hermitian extension (exercised: model idftD vs numpy ifftn for N in {2, 4})",
               "a field is modelled as the flat list of its values; jnp.mean/std/max/min are whole-array reductions; std is the population standard deviation",
               "square root and power enter the theorems as functions constrained only by the stated premises",
               "premise of the max_one / std_one / clamping theorems: the field is not constant.  RandomDiscontinuities can draw boxes that contain no grid "
               "point (e.g. RandomDiscontinuities(3, max_one=True)(8, key=PRNGKey(34))): the field is 0, the normalisation computes 0/0 = NaN.  Such draws are "
               "recognised (raw field of the same key is constant) and skipped by the sweeps; the defect itself is exercised by the test finite_degenerate on two "
               "fixed keys and listed in known_findings.json (KNOWN-FINDING line)"]
DEGENERATE_IS_VIOLATION = False
KINDS = {"RandomTruncatedFourierSeries": 1, "GaussianRandomField": 2, "DiffusedNoise": 3, "RandomDiscontinuities": 4,
         "RandomGaussianBlobs": 5, "RandomSineWaves1d": 6, "WhiteNoise": 7}
HAS_FUN = {"RandomDiscontinuities", "RandomGaussianBlobs", "RandomSineWaves1d"}       # documented: define gen_ic_fun
PUBLIC = {"BaseIC", "BaseRandomICGenerator", "ClampingICGenerator", "Discontinuities", "DiffusedNoise", "GaussianBlobs", "GaussianRandomField",
          "MultiChannelIC", "RandomDiscontinuities", "RandomGaussianBlobs", "RandomMultiChannelICGenerator", "RandomTruncatedFourierSeries",
          "ScaledIC", "ScaledICGenerator", "SineWaves1d", "RandomSineWaves1d", "WhiteNoise"}


def translate(ctx):
    tr_guards.run()
    tr_icgen.run()


def _ex():
    import jax
    jax.config.update("jax_enable_x64", True)
    import jax.numpy as jnp
    import jax.random as jr
    import exponax as ex
    return ex, jnp, jr


_FIXED = {}


def fixed_gen(D, values):
    """a deterministic base generator returning a given array (for the wrapper correspondence)"""
    ex, jnp, jr = _ex()
    if "cls" not in _FIXED:
        import jax

        class FixedGen(ex.ic.BaseRandomICGenerator):
            values: jax.Array

            def __init__(self, num_spatial_dims, values):
                self.num_spatial_dims = num_spatial_dims
                self.values = values

            def __call__(self, num_points, *, key):
                return self.values
        _FIXED["cls"] = FixedGen
    return _FIXED["cls"](D, jnp.asarray(values))


# ---- generator specifications (JSON-able) ----------------------------------------------------
def B(cls, D=None, **kw):
    d = dict(cls=cls, kw={k: (list(v) if isinstance(v, tuple) else v) for k, v in kw.items()})
    if D is not None:
        d["D"] = D
    return d


def S(inner, scale):
    return dict(cls="ScaledICGenerator", inner=inner, scale=scale)


def C(inner, limits=(0.0, 1.0)):
    return dict(cls="ClampingICGenerator", inner=inner, limits=list(limits))


def M(*inners):
    return dict(cls="RandomMultiChannelICGenerator", inners=list(inners))


def build(spec, D):
    ex, jnp, jr = _ex()
    c = spec["cls"]
    if c == "ScaledICGenerator":
        return ex.ic.ScaledICGenerator(build(spec["inner"], D), spec["scale"])
    if c == "ClampingICGenerator":
        return ex.ic.ClampingICGenerator(build(spec["inner"], D), tuple(spec["limits"]))
    if c == "RandomMultiChannelICGenerator":
        return ex.ic.RandomMultiChannelICGenerator([build(s, D) for s in spec["inners"]])
    kw = {k: (tuple(v) if isinstance(v, list) else v) for k, v in spec.get("kw", {}).items()}
    return getattr(ex.ic, c)(spec.get("D", D), **kw)


def tokens(spec, D):
    c = spec["cls"]
    if c == "ScaledICGenerator":
        return [1] + tokens(spec["inner"], D)
    if c == "ClampingICGenerator":
        return [2] + tokens(spec["inner"], D)
    if c == "RandomMultiChannelICGenerator":
        return [3, len(spec["inners"])] + [t for s in spec["inners"] for t in tokens(s, D)]
    return [0, KINDS[c], spec.get("D", D)]


def leaves(spec):
    c = spec["cls"]
    if c in ("ScaledICGenerator", "ClampingICGenerator"):
        return leaves(spec["inner"])
    if c == "RandomMultiChannelICGenerator":
        return sum(leaves(s) for s in spec["inners"])
    return 1


def has_fun(spec):
    """documented: only RandomDiscontinuities / RandomGaussianBlobs / RandomSineWaves1d have a function form; ScaledICGenerator and the
    multi-channel wrapper pass it through; ClampingICGenerator has none"""
    c = spec["cls"]
    if c == "ScaledICGenerator":
        return has_fun(spec["inner"])
    if c == "ClampingICGenerator":
        return False
    if c == "RandomMultiChannelICGenerator":
        return all(has_fun(s) for s in spec["inners"])
    return c in HAS_FUN


def base_specs(D):
    out = [B("RandomTruncatedFourierSeries"), B("GaussianRandomField"), B("DiffusedNoise"), B("RandomDiscontinuities"),
           B("RandomGaussianBlobs"), B("WhiteNoise"), B("RandomSineWaves1d")]
    return out


def option_specs():
    """option combinations of the base generators (valid ones)"""
    out = []
    for so, mo in ((False, False), (True, False), (False, True)):
        out.append(B("RandomTruncatedFourierSeries", cutoff=3, std_one=so, max_one=mo))
        out.append(B("GaussianRandomField", powerlaw_exponent=2.0, std_one=so, max_one=mo))
        out.append(B("DiffusedNoise", intensity=0.002, std_one=so, max_one=mo))
        out.append(B("RandomDiscontinuities", num_discontinuities=4, zero_mean=True, std_one=so, max_one=mo))
        out.append(B("RandomSineWaves1d", cutoff=3, std_one=so, max_one=mo))
    out += [B("RandomTruncatedFourierSeries", cutoff=2, offset_range=(0.75, 0.75)), B("RandomTruncatedFourierSeries", offset_range=(-1.0, 1.0), max_one=True),
            B("GaussianRandomField", zero_mean=False), B("GaussianRandomField", zero_mean=False, max_one=True), B("DiffusedNoise", zero_mean=False, max_one=True),
            B("RandomDiscontinuities", zero_mean=False, max_one=True), B("RandomDiscontinuities", value_range=(0.5, 2.0)),
            B("RandomGaussianBlobs", num_blobs=3), B("RandomGaussianBlobs", one_complement=True), B("WhiteNoise", std=2.0),
            B("RandomSineWaves1d", offset_range=(0.5, 0.5)), B("RandomSineWaves1d", offset_range=(-1.0, 1.0), max_one=True)]
    return out


def impl_shape(spec, D, N, seed=0):
    ex, jnp, jr = _ex()
    try:
        g = build(spec, D)
        u = g(N, key=jr.PRNGKey(seed))
    except (ValueError, TypeError, AttributeError, NotImplementedError) as e:
        return [0], type(e).__name__
    return [1] + list(u.shape), ""


def impl_fun(spec, D, seed=0):
    ex, jnp, jr = _ex()
    g = build(spec, D)
    try:
        g.gen_ic_fun(key=jr.PRNGKey(seed))
    except NotImplementedError:
        return False
    return True


def raises(fn):
    try:
        fn()
    except ValueError:
        return True
    return False


def dyl(rng, n, lo=-4, hi=4):
    return [symbols.dy(rng, lo, hi) for _ in range(n)]


def nonconst(rng, n):
    while True:
        v = dyl(rng, n)
        if len(set(v)) > 1 and abs(sum(v) / n - v[0]) > 0 and max(abs(x - sum(v) / n) for x in v) > 1e-3:
            return v


def correspond(ctx):
    ex, jnp, jr = _ex()
    import exponax.ic._base_ic as base_ic
    import exponax.ic._discontinuities as disc_mod
    import exponax.ic._gaussian_blob as blob_mod
    rng = ctx.rng
    if set(ex.ic.__all__) != PUBLIC:
        ctx.broken("correspondence:public-generators", f"exponax.ic.__all__ changed: {sorted(set(ex.ic.__all__) ^ PUBLIC)}")
    cases, meta = [], []      # meta: (desc, impl_value, mode, tol)

    def add(mid, args, desc, impl, mode="exact", tol=0.0):
        cases.append((mid, args)); meta.append((desc, impl, mode, tol))

    # ---- (a) shapes / rejection / function form -----------------------------------------------
    Ns = {1: (7, 8), 2: (5, 6), 3: (3, 4)} if ctx.quick else {1: (7, 8, 12), 2: (5, 6, 9), 3: (3, 4, 5)}
    for D in (1, 2, 3):
        bases = base_specs(D)
        specs = list(bases)
        opt = option_specs()
        specs += opt if not ctx.quick else opt[(ctx.seed % 3)::3]
        nest = []
        for i, b in enumerate(bases):
            nest += [S(b, -2.5), C(b, (-1.0, 3.0)), C(S(b, 0.5)), S(C(b), 4.0), M(b), M(b, b, b)]
            nest += [M(S(b, 2.0), C(bases[(i + 1) % len(bases)])), S(M(b, b), 2.0), C(M(b)), M(M(b, b), bases[(i + 2) % len(bases)])]
        nest += [M(), M(B("GaussianRandomField", D=D), B("GaussianRandomField", D=D % 3 + 1)), S(S(bases[1], 2.0), 3.0), C(C(bases[0], (1.0, 2.0)), (0.0, 5.0))]
        if ctx.quick:
            nest = [s for j, s in enumerate(nest) if (j + ctx.seed + D) % 3 == 0 or s["cls"] == "RandomMultiChannelICGenerator" and not s["inners"]]
        for spec in specs + nest:
            for N in Ns[D]:
                got, exc = impl_shape(spec, D, N, seed=ctx.seed)
                add(1805, [N] + tokens(spec, D), dict(suite="shape", spec=spec, D=D, N=N, exc=exc), got)
            try:
                build(spec, D)
                constructible = True
            except Exception:
                constructible = False
            if constructible and not (spec["cls"] == "RandomMultiChannelICGenerator" and not spec["inners"]):
                add(1806, tokens(spec, D), dict(suite="fun_form", spec=spec, D=D), [int(impl_fun(spec, D))])

    # ---- (b) guards ----------------------------------------------------------------------------
    ranges = {True: [(0.0, 0.0), (0, 0)], False: [(0.5, 1.0), (-1.0, 1.0), (0.0, 1.0), (-0.25, 0.25)]}
    disc = disc_mod.Discontinuity(lower_limits=(0.2,), upper_limits=(0.6,), value=1.0)
    for a, so, mo in itertools.product((False, True), repeat=3):
        add(1807, [0, a, so, mo], dict(suite="guard", fn="validate_normalization_options", flags=[a, so, mo]),
            [int(raises(lambda: base_ic.validate_normalization_options(zero_mean=a, std_one=so, max_one=mo)))])
        for rg in ranges[a]:
            add(1807, [1, a, so, mo], dict(suite="guard", fn="RandomTruncatedFourierSeries", offset_range=list(rg), std_one=so, max_one=mo),
                [int(raises(lambda: ex.ic.RandomTruncatedFourierSeries(2, offset_range=rg, std_one=so, max_one=mo)))])
            for D in (1, 2):
                add(1807, [6, D, a, so, mo], dict(suite="guard", fn="RandomSineWaves1d", D=D, offset_range=list(rg), std_one=so, max_one=mo),
                    [int(raises(lambda: ex.ic.RandomSineWaves1d(D, offset_range=rg, std_one=so, max_one=mo)))])
        add(1807, [2, a, so, mo], dict(suite="guard", fn="GaussianRandomField", flags=[a, so, mo]),
            [int(raises(lambda: ex.ic.GaussianRandomField(2, zero_mean=a, std_one=so, max_one=mo)))])
        add(1807, [3, a, so, mo], dict(suite="guard", fn="DiffusedNoise", flags=[a, so, mo]),
            [int(raises(lambda: ex.ic.DiffusedNoise(1, zero_mean=a, std_one=so, max_one=mo)))])
        add(1807, [4, a, so, mo], dict(suite="guard", fn="Discontinuities", flags=[a, so, mo]),
            [int(raises(lambda: ex.ic.Discontinuities((disc,), zero_mean=a, std_one=so, max_one=mo)))])
        add(1807, [5, a, so, mo], dict(suite="guard", fn="RandomDiscontinuities", flags=[a, so, mo]),
            [int(raises(lambda: ex.ic.RandomDiscontinuities(3, zero_mean=a, std_one=so, max_one=mo)))])
        for off in ((0.0, 0) if a else (0.5, -2.0)):
            for na, nw, npp in ((2, 2, 2), (2, 3, 3), (3, 3, 2), (0, 0, 0), (1, 2, 3)):
                add(1807, [7, a, so, mo, na, nw, npp], dict(suite="guard", fn="SineWaves1d", offset=off, std_one=so, max_one=mo, lens=[na, nw, npp]),
                    [int(raises(lambda: ex.ic.SineWaves1d(1.0, (0.5,) * na, (1,) * nw, (0.1,) * npp, offset=off, std_one=so, max_one=mo)))])
    sw = ex.ic.SineWaves1d(1.0, (0.5, 0.25), (1, 2), (0.1, 0.2))
    for sh in ((1, 6), (2, 6), (3, 4), (1, 5, 5), (2, 5, 5)):
        add(1807, [8, 0, 0] + list(sh), dict(suite="guard", fn="SineWaves1d.__call__", shape=list(sh)), [int(raises(lambda: sw(jnp.ones(sh) * 0.3)))])
    for p in (1, 2, 3):
        blob = blob_mod.GaussianBlob(jnp.ones(p) * 0.5, jnp.eye(p) * 0.01)
        for d in (1, 2, 3):
            sh = (d,) + (4,) * d
            add(1807, [9, 0, p] + list(sh), dict(suite="guard", fn="GaussianBlob.__call__", pos_len=p, shape=list(sh)), [int(raises(lambda: blob(jnp.ones(sh) * 0.3)))])

    # ---- (c) normalize / clamp / scale on dyadic input -----------------------------------------
    reps = 4 if ctx.quick else 60
    for _ in range(reps):
        for D in (1, 2):
            n = int(rng.integers(3, 7))
            vals = nonconst(rng, n ** D)
            arr = np.asarray(vals, dtype=float).reshape((1,) + (n,) * D)
            for zm, mo in itertools.product((False, True), repeat=2):
                got = np.asarray(base_ic.normalize_ic(jnp.asarray(arr), zero_mean=zm, std_one=False, max_one=mo)).reshape(-1)
                add(1801, [zm, mo] + vals, dict(suite="normalize", zero_mean=zm, std_one=False, max_one=mo, values=vals), got, "float", 1e-13)
                got = np.asarray(base_ic.normalize_ic(jnp.asarray(arr), zero_mean=zm, std_one=True, max_one=mo)).reshape(-1)
                add(1802, [zm] + vals, dict(suite="normalize", zero_mean=zm, std_one=True, max_one=mo, values=vals), got, "std_mo" if mo else "std", 1e-12)
            lo, hi = symbols.dy(rng, -3, 3), symbols.dy(rng, -3, 3)
            if lo == hi:
                hi = lo + 1.0
            g = fixed_gen(D, arr)
            got = np.asarray(ex.ic.ClampingICGenerator(g, (lo, hi))(n, key=jr.PRNGKey(0)))
            add(1803, [lo, hi] + vals, dict(suite="clamp", limits=[lo, hi], values=vals, D=D), got.reshape(-1), "float", 1e-13)
            s = symbols.dy(rng, -3, 3)
            got = np.asarray(ex.ic.ScaledICGenerator(g, s)(n, key=jr.PRNGKey(0)))
            add(1804, [s] + vals, dict(suite="scaled", scale=s, values=vals, D=D, form="generator"), got.reshape(-1), "float", 1e-15)
            sine = ex.ic.SineWaves1d(1.0, (1.0,), (1,), (0.0,))
            x = jnp.asarray(np.asarray(vals[:n], dtype=float).reshape(1, n))
            base = np.asarray(sine(x)).reshape(-1)
            got = np.asarray(ex.ic.ScaledIC(sine, s)(x)).reshape(-1)
            add(1804, [s] + [float(b) for b in base], dict(suite="scaled", scale=s, values=[float(b) for b in base], form="function"), got, "float", 1e-15)

    # ---- (d) truncated Fourier series: DC coefficient, mean, kept modes ------------------------
    for D, N in ((1, 8), (1, 9), (2, 6), (2, 5), (3, 4), (3, 3)):
        a = symbols.dy(rng, -2, 2)
        if a == 0:
            a = 0.75
        cutoff = int(rng.integers(1, 3))
        gen = ex.ic.RandomTruncatedFourierSeries(D, cutoff=cutoff, offset_range=(a, a))
        u = gen(N, key=jr.PRNGKey(ctx.seed))
        uh = np.asarray(ex.fft(u, num_spatial_dims=D))
        dc = complex(uh.reshape(-1)[0])
        add(1808, [a, D, N], dict(suite="tfs_dc", offset=a, D=D, N=N), np.array([dc.real, float(jnp.mean(u)), dc.real]), "float", 1e-12)
        thr = 1e-9 * float(np.max(np.abs(uh)))
        for idx in itertools.product(*[range(s) for s in uh.shape[1:]]):
            present = bool(abs(uh[(0,) + idx]) > thr)
            add(1812, [D, N, cutoff] + list(idx), dict(suite="tfs_kept", D=D, N=N, cutoff=cutoff, idx=list(idx)), present, "kept")
    # model inverse DFT vs numpy
    for D, n in ((1, 2), (1, 4), (2, 2), (2, 4), (3, 2)) + (() if ctx.quick else ((3, 4),)):
        U = np.asarray(dyl(rng, n ** D)) + 1j * np.asarray(dyl(rng, n ** D))
        u = np.fft.ifftn(U.reshape((n,) * D)).reshape(-1)
        got = np.concatenate([[np.mean(u)], u])
        add(1809, [D, n] + core.cx_args(U), dict(suite="idft", D=D, n=n, spectrum=[str(z) for z in U]), got, "complex", 1e-13)
    # Gaussian random field: squared amplitude at every stored mode, alpha = 2 m, L = 2 pi q
    for (D, N) in ((1, 8), (1, 7), (2, 6), (2, 5), (3, 4), (3, 3)):
        for m in ((1, 2) if ctx.quick else (1, 2, 3)):
            q = float(rng.choice([0.5, 1.0, 2.0]))
            L = 2 * np.pi * q
            key = jr.PRNGKey(ctx.seed + m)
            u = ex.ic.GaussianRandomField(D, domain_extent=L, powerlaw_exponent=2.0 * m, zero_mean=False)(N, key=key)
            uh = np.asarray(ex.fft(u, num_spatial_dims=D))[0]
            nh = np.asarray(ex.fft(ex.ic.WhiteNoise(D)(N, key=key), num_spatial_dims=D))[0]
            for idx in itertools.product(*[range(s) for s in uh.shape]):
                if abs(nh[idx]) < 1e-6:
                    continue
                ratio = abs(uh[idx]) ** 2 / abs(nh[idx]) ** 2
                add(1810, [1.0 / q, m, D, N] + list(idx), dict(suite="grf_amp", D=D, N=N, m=m, q=q, idx=list(idx)), np.array([ratio]), "float", 1e-10)
    # Discontinuity shape
    for D in (1, 2, 3):
        for nlim in range(0, D + 1):
            for N in (4, 5):
                xs = (D,) + (N,) * D
                d = disc_mod.Discontinuity(lower_limits=(0.2,) * nlim, upper_limits=(0.7,) * nlim, value=1.5)
                got = [1] + list(d(jnp.asarray(ex.make_grid(D, 1.0, N))).shape)
                add(1811, [nlim] + list(xs), dict(suite="disc_shape", D=D, N=N, nlim=nlim), got)

    res = core.run_model(cases)
    for (mid, args), (desc, impl, mode, tol), mres in zip(cases, meta, res):
        ctx.case(desc)
        ctx.count(desc["suite"])
        if mode == "exact":
            exp = [int(x) for x in mres]
            if list(impl) != exp:
                ctx.disagree("c18:" + desc["suite"], desc, exp, impl)
        elif mode == "kept":
            exp = bool(mres[0]) or bool(mres[1])
            if exp != impl:
                ctx.disagree("c18:" + desc["suite"], desc, exp, impl)
        elif mode == "complex":
            exp = np.asarray(core.to_cx(mres))
            if not core.close(impl, exp, tol):
                ctx.disagree("c18:" + desc["suite"], desc, exp, impl)
        else:
            exp = np.asarray([float(x) for x in mres])
            if mode in ("std", "std_mo"):
                var, l1 = exp[0], exp[1:]
                exp = l1 / np.sqrt(var)
                if mode == "std_mo":
                    exp = exp / np.max(np.abs(exp))
            if not core.close(np.asarray(impl, dtype=float), exp, tol):
                ctx.disagree("c18:" + desc["suite"], desc, exp, impl)


# ---------------------------------------------------------------------------------------------
# witness tests: the property on the real code
def expected_stats(spec, N):
    """documented statistics of the output of one single-field generator: dict with optional mean/std/maxabs/min/max/lo/hi"""
    c = spec["cls"]
    kw = spec.get("kw", {})
    st = {}
    if c == "ScaledICGenerator":
        inner, s = expected_stats(spec["inner"], N), spec["scale"]
        for k in ("mean",):
            if k in inner:
                st[k] = inner[k] * s
        for k in ("std", "maxabs"):
            if k in inner:
                st[k] = inner[k] * abs(s)
        if "min" in inner and "max" in inner:
            st["min"], st["max"] = (inner["min"] * s, inner["max"] * s) if s >= 0 else (inner["max"] * s, inner["min"] * s)
        return st
    if c == "ClampingICGenerator":
        lo, hi = spec["limits"]
        return {"min": min(lo, hi), "max": max(lo, hi)}
    so, mo = kw.get("std_one", False), kw.get("max_one", False)
    if c in ("GaussianRandomField", "DiffusedNoise"):
        zm = kw.get("zero_mean", True)
    elif c == "RandomDiscontinuities":
        zm = kw.get("zero_mean", False)
    elif c == "RandomTruncatedFourierSeries":
        rg = tuple(kw.get("offset_range", (0.0, 0.0)))
        zm = rg == (0.0, 0.0)
        if not zm and rg[0] == rg[1] and not mo:
            st["mean"] = rg[0]
    elif c == "RandomSineWaves1d":
        rg = tuple(kw.get("offset_range", (0.0, 0.0)))
        zm = rg == (0.0, 0.0) and N > kw.get("cutoff", 5)          # integer-wavenumber sines have zero grid mean for k < N
        if rg[0] == rg[1] and rg[0] != 0.0 and not mo and not so and N > kw.get("cutoff", 5):
            st["mean"] = rg[0]
    else:
        zm = False
    if zm:
        st["mean"] = 0.0
    if so:
        st["std"] = 1.0
    if mo:
        st["maxabs"] = 1.0
    if c == "RandomGaussianBlobs":
        st["lo"], st["hi"] = 0.0, 1.0
    return st


def check_stats(spec, u, N, where=""):
    """u: the channels produced by spec (C, N, ...).  Returns error text or ''."""
    c = spec["cls"]
    if c == "RandomMultiChannelICGenerator":
        i = 0
        for j, s in enumerate(spec["inners"]):
            n = leaves(s)
            e = check_stats(s, u[i:i + n], N, where + f"[{j}]")
            if e:
                return e
            i += n
        return ""
    st = expected_stats(spec, N)
    sc = 1.0 + float(np.max(np.abs(u)))
    tol = 1e-12 * sc
    if "mean" in st and abs(float(np.mean(u)) - st["mean"]) > tol:
        return f"{where} mean {float(np.mean(u)):.3e} != {st['mean']}"
    if "std" in st and abs(float(np.std(u)) - st["std"]) > tol:
        return f"{where} std {float(np.std(u)):.15g} != {st['std']}"
    if "maxabs" in st and abs(float(np.max(np.abs(u))) - st["maxabs"]) > tol:
        return f"{where} max|u| {float(np.max(np.abs(u))):.15g} != {st['maxabs']}"
    if "min" in st and (abs(float(np.min(u)) - st["min"]) > tol or abs(float(np.max(u)) - st["max"]) > tol):
        return f"{where} range [{float(np.min(u)):.15g}, {float(np.max(u)):.15g}] != [{st['min']}, {st['max']}]"
    if "lo" in st and not (float(np.min(u)) >= st["lo"] - tol and float(np.max(u)) <= st["hi"] + tol):
        return f"{where} values outside [{st['lo']}, {st['hi']}]"
    return ""


def degenerate_draw(spec, D, N, key, normalised=False):
    """True when a RandomDiscontinuities field that is normalised (std_one / max_one) or clamped is constant for this key: no grid point
    lies inside a drawn box, the premises 'max|u| != 0' / 'max != min' of the normalisation theorems fail and the code divides 0 by 0"""
    ex, jnp, jr = _ex()
    c = spec["cls"]
    if c == "RandomMultiChannelICGenerator":
        ks = jr.split(key, len(spec["inners"]))
        return any(degenerate_draw(s, D, N, k, normalised) for s, k in zip(spec["inners"], ks))
    if c == "ScaledICGenerator":
        return degenerate_draw(spec["inner"], D, N, key, normalised)
    if c == "ClampingICGenerator":
        return degenerate_draw(spec["inner"], D, N, key, True)
    if c != "RandomDiscontinuities":
        return False
    kw = {k: (tuple(v) if isinstance(v, list) else v) for k, v in spec.get("kw", {}).items()}
    if not (normalised or kw.get("std_one") or kw.get("max_one")):
        return False
    raw = ex.ic.RandomDiscontinuities(spec.get("D", D), **{k: v for k, v in kw.items() if k not in ("zero_mean", "std_one", "max_one")})
    return float(np.ptp(np.asarray(raw(N, key=key)))) == 0.0


def t_finite_degenerate(D, N, seed, flag):
    """KNOWN FINDING (known_findings.json): a RandomDiscontinuities draw none of whose boxes contains a grid point is the zero field and
    the max_one / std_one normalisation returns 0/0 = NaN, contradicting 'returns a finite array'"""
    ex, jnp, jr = _ex()
    u = np.asarray(ex.ic.RandomDiscontinuities(D, **{flag: True})(N, key=jr.PRNGKey(seed)))
    if not np.all(np.isfinite(u)):
        return False, f"RandomDiscontinuities({D}, {flag}=True)({N}, key=PRNGKey({seed})) is not finite ({int(np.isnan(u).sum())} NaN of {u.size})"
    return True, ""


def t_ic_set(D, N, S, seed):
    """build_ic_set: S samples, sample i = the generator called with the i-th sub-key of the documented chain (k, sub) = split(k);
    deterministic in the key, samples differ from each other"""
    ex, jnp, jr = _ex()
    gen = ex.ic.RandomTruncatedFourierSeries(D, cutoff=2)
    key = jr.PRNGKey(seed)
    a = np.asarray(ex.build_ic_set(gen, num_points=N, num_samples=S, key=key))
    b = np.asarray(ex.build_ic_set(gen, num_points=N, num_samples=S, key=key))
    if a.shape != (S, 1) + (N,) * D:
        return False, f"build_ic_set shape {a.shape}, expected {(S, 1) + (N,) * D}"
    if not np.array_equal(a, b) or not np.all(np.isfinite(a)):
        return False, "build_ic_set is not a deterministic, finite function of the key"
    k = key
    for i in range(S):
        k, sub = jr.split(k)
        if not np.allclose(a[i], np.asarray(gen(N, key=sub)), rtol=0, atol=1e-12):
            return False, f"sample {i} is not the generator evaluated with the {i}-th sub-key"
    if S >= 2 and np.array_equal(a[0], a[1]):
        return False, "samples 0 and 1 are identical"
    return True, ""


def t_contract(spec, D, N, seeds):
    """shape, finiteness, determinism in the key, documented statistics"""
    ex, jnp, jr = _ex()
    gen = build(spec, D)
    outs = []
    for seed in seeds:
        key = jr.PRNGKey(seed)
        u1, u2 = np.asarray(gen(N, key=key)), np.asarray(gen(N, key=key))
        want = (leaves(spec),) + (N,) * D
        if u1.shape != want:
            return False, f"shape {u1.shape}, expected {want} (one channel per generated field)"
        if not np.all(np.isfinite(u1)):
            if not DEGENERATE_IS_VIOLATION and degenerate_draw(spec, D, N, key):
                outs.append(u1)
                continue        # outside the premises (constant field): nothing to check for this key
            return False, f"non-finite values (seed {seed})"
        if not np.array_equal(u1, u2):
            return False, f"two calls with the same key differ (seed {seed})"
        if u1.dtype != np.float64:
            return False, f"dtype {u1.dtype}"
        e = check_stats(spec, u1, N)
        if e:
            return False, f"seed {seed}: {e}"
        outs.append(u1)
    if len(outs) >= 2 and all(np.array_equal(outs[0], o) for o in outs[1:]) and np.all(np.isfinite(outs[0])) and float(np.ptp(outs[0])) > 0:
        return False, "different keys give identical fields"
    return True, ""


def t_tfs_offset(D, N, lo, hi, cutoff, seeds):
    """mean == drawn offset: recovered from the implementation's key split, and independently as the constant by which the field differs
    from the offset-free field of the same key"""
    ex, jnp, jr = _ex()
    gen = ex.ic.RandomTruncatedFourierSeries(D, cutoff=cutoff, offset_range=(lo, hi))
    gen0 = ex.ic.RandomTruncatedFourierSeries(D, cutoff=cutoff)
    means = []
    for seed in seeds:
        key = jr.PRNGKey(seed)
        u, u0 = np.asarray(gen(N, key=key)), np.asarray(gen0(N, key=key))
        if u.shape != (1,) + (N,) * D:
            return False, f"shape {u.shape}"
        m = float(np.mean(u))
        _, ok = jr.split(key)
        drawn = float(jr.uniform(ok, shape=(1,), minval=lo, maxval=hi)[0])
        if abs(m - drawn) > 1e-12 * (1 + abs(drawn)):
            return False, f"seed {seed}: mean {m:.15g} != drawn offset {drawn:.15g} (offset_range=({lo}, {hi}))"
        d = u - u0
        if float(np.max(np.abs(d - m))) > 1e-12 * (1 + float(np.max(np.abs(u)))):
            return False, f"seed {seed}: field minus offset-free field of the same key is not the constant {m}"
        if not (min(lo, hi) - 1e-12 <= m <= max(lo, hi) + 1e-12):
            return False, f"seed {seed}: mean {m} outside the range"
        if abs(float(np.mean(u0))) > 1e-12 * (1 + float(np.max(np.abs(u0)))):
            return False, f"seed {seed}: default offset_range gives mean {float(np.mean(u0)):.3e}"
        means.append(m)
    if lo != hi and len(means) >= 2 and max(abs(x) for x in means) < 1e-9:
        return False, "all means are zero for a non-degenerate offset range: the offset was dropped"
    if lo == hi and any(abs(x - lo) > 1e-12 * (1 + abs(lo)) for x in means):
        return False, f"mean {means} != {lo}"
    return True, ""


def t_tfs_band(D, N, cutoff, lo, hi, seed):
    """spectrum = white noise of the noise key inside the cube |k_c| <= cutoff, 0 outside, offset * N^D at the mean mode"""
    ex, jnp, jr = _ex()
    key = jr.PRNGKey(seed)
    u = ex.ic.RandomTruncatedFourierSeries(D, cutoff=cutoff, offset_range=(lo, hi))(N, key=key)
    nk, ok = jr.split(key)
    off = float(jr.uniform(ok, shape=(1,), minval=lo, maxval=hi)[0])
    uh = np.asarray(ex.fft(u, num_spatial_dims=D))
    nh = np.asarray(ex.fft(ex.ic.WhiteNoise(D)(N, key=nk), num_spatial_dims=D))
    ks = np.meshgrid(*([np.fft.fftfreq(N, 1 / N)] * (D - 1) + [np.fft.rfftfreq(N, 1 / N)]), indexing="ij")
    inside = np.all(np.abs(np.stack(ks)) <= cutoff, axis=0)[None]
    exp = np.where(inside, nh, 0.0)
    exp.reshape(-1)[0] = off * N ** D
    sc = float(np.max(np.abs(nh)))
    out = float(np.max(np.abs(np.where(inside, 0.0, uh)))) if not np.all(inside) else 0.0
    if out > 1e-10 * sc:
        return False, f"Fourier content outside the cutoff cube: {out:.3e}"
    err = float(np.max(np.abs(uh - exp)))
    if err > 1e-10 * sc:
        i = np.unravel_index(np.argmax(np.abs(uh - exp)), uh.shape)
        return False, f"spectrum differs from the low-passed white noise by {err:.3e} at index {i}"
    return True, ""


def _knorm(D, N, L):
    ks = np.meshgrid(*([np.fft.fftfreq(N, 1 / N)] * (D - 1) + [np.fft.rfftfreq(N, 1 / N)]), indexing="ij")
    return (2 * np.pi / L) * np.sqrt(np.sum(np.stack(ks) ** 2, axis=0))[None]


def t_grf_powerlaw(D, N, L, alpha, alpha2, seed):
    """u_hat = fft(white noise of the same key) * |k|^(-alpha/2) at every stored mode (mean mode: amplitude 1); and, independent of how the
    noise is drawn, two exponents differ by |k|^(-(alpha-alpha2)/2)"""
    ex, jnp, jr = _ex()
    key = jr.PRNGKey(seed)
    u = ex.ic.GaussianRandomField(D, domain_extent=L, powerlaw_exponent=alpha, zero_mean=False)(N, key=key)
    if u.shape != (1,) + (N,) * D or not bool(jnp.all(jnp.isfinite(u))):
        return False, f"shape {u.shape} / non-finite"
    uh = np.asarray(ex.fft(u, num_spatial_dims=D))
    nh = np.asarray(ex.fft(ex.ic.WhiteNoise(D)(N, key=key), num_spatial_dims=D))
    kn = _knorm(D, N, L)
    with np.errstate(divide="ignore"):
        amp = np.where(kn == 0, 1.0, kn ** (-alpha / 2.0))
    exp = nh * amp
    err = np.abs(uh - exp)
    if float(np.max(err)) > 1e-10 * float(np.max(np.abs(exp))):
        i = np.unravel_index(np.argmax(err), err.shape)
        k = [int(round(float(x))) for x in (kn[i],)]
        return False, (f"spectrum deviates from white noise * |k|^(-alpha/2) by {float(np.max(err)):.3e} at stored index {tuple(int(j) for j in i[1:])} "
                       f"(observed ratio {abs(uh[i]) / abs(nh[i]):.6g}, expected {amp[i]:.6g})")
    if abs(uh.reshape(-1)[0] - nh.reshape(-1)[0]) > 1e-10 * abs(nh.reshape(-1)[0]):
        return False, "mean-mode amplitude is not 1"
    u2 = ex.ic.GaussianRandomField(D, domain_extent=L, powerlaw_exponent=alpha2, zero_mean=False)(N, key=key)
    uh2 = np.asarray(ex.fft(u2, num_spatial_dims=D))
    with np.errstate(divide="ignore"):
        rel = np.where(kn == 0, 1.0, kn ** (-(alpha2 - alpha) / 2.0))
    err2 = np.abs(uh2 - uh * rel)
    if float(np.max(err2)) > 1e-10 * float(np.max(np.abs(uh2))):
        i = np.unravel_index(np.argmax(err2), err2.shape)
        return False, f"fields of exponents {alpha} and {alpha2} (same key) are not related by |k|^(-(a2-a)/2): {float(np.max(err2)):.3e} at index {tuple(int(j) for j in i[1:])}"
    return True, ""


def t_diffused(D, N, L, intensity, seed):
    ex, jnp, jr = _ex()
    key = jr.PRNGKey(seed)
    u = ex.ic.DiffusedNoise(D, domain_extent=L, intensity=intensity, zero_mean=False)(N, key=key)
    if u.shape != (1,) + (N,) * D:
        return False, f"shape {u.shape}"
    uh = np.asarray(ex.fft(u, num_spatial_dims=D))
    nh = np.asarray(ex.fft(ex.ic.WhiteNoise(D)(N, key=key), num_spatial_dims=D))
    exp = nh * np.exp(-intensity * _knorm(D, N, L) ** 2)
    err = float(np.max(np.abs(uh - exp)))
    return err <= 1e-10 * float(np.max(np.abs(exp))), f"spectrum differs from white noise * exp(-intensity |k|^2) by {err:.3e}"


def _np_normalize(u, zm, so, mo):
    if zm:
        u = u - np.mean(u)
    if so:
        u = u / np.std(u)
    if mo:
        u = u / np.max(np.abs(u))
    return u


def t_discontinuities(D, N, L, num, zero_mean, std_one, max_one, seed):
    """one channel in every dimension; equals the sum of the drawn indicator boxes (independent numpy evaluation), normalised as documented"""
    ex, jnp, jr = _ex()
    key = jr.PRNGKey(seed)
    gen = ex.ic.RandomDiscontinuities(D, domain_extent=L, num_discontinuities=num, zero_mean=zero_mean, std_one=std_one, max_one=max_one)
    u = np.asarray(gen(N, key=key))
    if u.shape != (1,) + (N,) * D:
        return False, f"RandomDiscontinuities({D}) returned shape {u.shape}, expected {(1,) + (N,) * D}"
    fun = gen.gen_ic_fun(key=key)
    x = np.asarray(ex.make_grid(D, L, N))
    raw = np.zeros((1,) + (N,) * D)
    for d in fun.discontinuity_list:
        m = np.ones((N,) * D, dtype=bool)
        for i in range(D):
            m &= (x[i] > float(d.lower_limits[i])) & (x[i] < float(d.upper_limits[i]))
        raw[0] += np.where(m, float(d.value), 0.0)
        one = np.asarray(d(jnp.asarray(x)))
        if one.shape != (1,) + (N,) * D:
            return False, f"Discontinuity returned shape {one.shape}"
    if np.ptp(raw) == 0 and (std_one or max_one):
        return True, "degenerate draw (no grid point inside a box)"
    exp = _np_normalize(raw, zero_mean, std_one, max_one)
    ok = core.close(u, exp, 1e-12)
    return ok, "" if ok else f"field differs from the sum of indicator boxes by {float(np.max(np.abs(u - exp))):.3e}"


def t_blobs(D, N, L, num, one_complement, seed):
    ex, jnp, jr = _ex()
    key = jr.PRNGKey(seed)
    gen = ex.ic.RandomGaussianBlobs(D, domain_extent=L, num_blobs=num, one_complement=one_complement)
    u = np.asarray(gen(N, key=key))
    if u.shape != (1,) + (N,) * D:
        return False, f"shape {u.shape}"
    fun = gen.gen_ic_fun(key=key)
    x = np.asarray(ex.make_grid(D, L, N))
    acc = np.zeros((N,) * D)
    for b in fun.blob_list:
        p, cov = np.asarray(b.position), np.asarray(b.covariance)
        if not (np.all(p >= 0.4 * L - 1e-12) and np.all(p <= 0.6 * L + 1e-12)):
            return False, f"blob position {p} outside the documented range"
        q = sum((x[i] - p[i]) ** 2 / cov[i, i] for i in range(D))
        g = np.exp(-0.5 * q)
        acc += (1.0 - g) if one_complement else g
    exp = (acc / num)[None]
    ok = core.close(u, exp, 1e-12)
    return ok, "" if ok else f"field differs from the mean of the drawn Gaussians by {float(np.max(np.abs(u - exp))):.3e}"


def t_sine(N, L, cutoff, lo, hi, std_one, max_one, seed):
    ex, jnp, jr = _ex()
    key = jr.PRNGKey(seed)
    gen = ex.ic.RandomSineWaves1d(1, domain_extent=L, cutoff=cutoff, offset_range=(lo, hi), std_one=std_one, max_one=max_one)
    u = np.asarray(gen(N, key=key))
    if u.shape != (1, N):
        return False, f"shape {u.shape}"
    f = gen.gen_ic_fun(key=key)
    x = np.asarray(ex.make_grid(1, L, N))
    raw = np.zeros_like(x)
    amps, phs, wns = np.asarray(f.amplitudes), np.asarray(f.phases), np.asarray(f.wavenumbers)
    if list(wns) != list(range(1, cutoff + 1)) or len(amps) != cutoff or len(phs) != cutoff:
        return False, f"wavenumbers {list(wns)}"
    for a, k, p in zip(amps, wns, phs):
        raw += a * np.sin(k * (2 * np.pi / L) * x + p)
    off = float(f.offset)
    if not (min(lo, hi) - 1e-12 <= off <= max(lo, hi) + 1e-12):
        return False, f"offset {off} outside the range"
    raw = raw + off
    exp = _np_normalize(raw, False, std_one, max_one)
    if not core.close(u, exp, 1e-12):
        return False, f"field differs from the drawn sine series by {float(np.max(np.abs(u - exp))):.3e}"
    if N > 2 * cutoff and not (std_one or max_one):
        uh = np.fft.rfft(u[0])
        if abs(uh[0].real / N - off) > 1e-12 * (1 + abs(off)):
            return False, f"mean {uh[0].real / N} != offset {off}"
        if uh[cutoff + 1:].size and float(np.max(np.abs(uh[cutoff + 1:]))) > 1e-10 * (1 + float(np.max(np.abs(uh)))):
            return False, "Fourier content beyond the cutoff"
    return True, ""


def t_clamp(spec, D, N, lo, hi, seed):
    """limits reached at both ends, and the clamped field is the affine image of the base field of the same key"""
    ex, jnp, jr = _ex()
    key = jr.PRNGKey(seed)
    base = build(spec, D)
    u = np.asarray(base(N, key=key))
    c = np.asarray(ex.ic.ClampingICGenerator(base, (lo, hi))(N, key=key))
    if c.shape != u.shape:
        return False, f"shape {c.shape} != {u.shape}"
    if np.ptp(u) == 0:
        return True, "constant base field"
    exp = (u - u.min()) / (u.max() - u.min()) * (hi - lo) + lo
    if not core.close(c, exp, 1e-12):
        return False, f"not the affine map min->lo, max->hi: {float(np.max(np.abs(c - exp))):.3e}"
    tol = 1e-12 * (1 + abs(lo) + abs(hi))
    if abs(float(c.min()) - min(lo, hi)) > tol or abs(float(c.max()) - max(lo, hi)) > tol:
        return False, f"limits not reached: [{float(c.min())}, {float(c.max())}] vs ({lo}, {hi})"
    if abs(float(c.reshape(-1)[np.argmin(u)]) - lo) > tol or abs(float(c.reshape(-1)[np.argmax(u)]) - hi) > tol:
        return False, "minimum / maximum of the base field are not mapped to lo / hi"
    return True, ""


def t_scale(spec, D, N, scale, seed):
    ex, jnp, jr = _ex()
    key = jr.PRNGKey(seed)
    base = build(spec, D)
    u = np.asarray(base(N, key=key))
    s = np.asarray(ex.ic.ScaledICGenerator(base, scale)(N, key=key))
    ok = s.shape == u.shape and core.close(s, u * scale, 1e-15)
    return ok, "" if ok else f"scaled generator differs from scale * base by {float(np.max(np.abs(s - u * scale))):.3e}"


def t_fun_form(spec, D, N, seed):
    """gen.gen_ic_fun(key)(grid) == gen(N, key) where the function form is documented; NotImplementedError otherwise"""
    ex, jnp, jr = _ex()
    key = jr.PRNGKey(seed)
    gen = build(spec, D)
    try:
        f = gen.gen_ic_fun(key=key)
    except NotImplementedError:
        return (not has_fun(spec)), ("" if not has_fun(spec) else "function form documented but NotImplementedError raised")
    if not has_fun(spec):
        return False, "gen_ic_fun returned although the generator cannot represent its field as a function"
    L = 1.0
    sp = spec
    while "inner" in sp:
        sp = sp["inner"]
    if "inners" in sp:
        sp = sp["inners"][0]
        while "inner" in sp:
            sp = sp["inner"]
    L = sp.get("kw", {}).get("domain_extent", 1.0)
    a = np.asarray(f(ex.make_grid(D, L, N)))
    b = np.asarray(gen(N, key=key))
    ok = a.shape == b.shape and core.close(a, b, 1e-13)
    return ok, "" if ok else f"function form and sampled form of the same draw differ (shapes {a.shape} {b.shape})"


def documented_reject(cls, D, offset_zero, zero_mean, std_one, max_one):
    zm = offset_zero if cls in ("RandomTruncatedFourierSeries", "RandomSineWaves1d") else zero_mean
    r = (not zm and std_one) or (std_one and max_one)
    if cls == "RandomSineWaves1d":
        r = r or D != 1
    return r


def t_options(cls, D, offset_range, zero_mean, std_one, max_one):
    """invalid option combinations are rejected with ValueError, valid ones accepted"""
    ex, jnp, jr = _ex()
    rg = tuple(offset_range)
    want = documented_reject(cls, D, rg == (0.0, 0.0), zero_mean, std_one, max_one)
    if cls in ("RandomTruncatedFourierSeries", "RandomSineWaves1d"):
        f = lambda: getattr(ex.ic, cls)(D, offset_range=rg, std_one=std_one, max_one=max_one)
    else:
        f = lambda: getattr(ex.ic, cls)(D, zero_mean=zero_mean, std_one=std_one, max_one=max_one)
    got = raises(f)
    return got == want, f"{cls}(D={D}, offset_range={rg}, zero_mean={zero_mean}, std_one={std_one}, max_one={max_one}): raised={got}, documented reject={want}"


def t_multi(specs, D, N, seed):
    """one channel per sub-generator; channel i is sub-generator i called with split(key, n)[i]"""
    ex, jnp, jr = _ex()
    key = jr.PRNGKey(seed)
    gens = [build(s, D) for s in specs]
    m = ex.ic.RandomMultiChannelICGenerator(gens)
    u = np.asarray(m(N, key=key))
    if u.shape != (len(specs),) + (N,) * D:
        return False, f"shape {u.shape}, expected {len(specs)} channels"
    ks = jr.split(key, len(specs))
    for i, g in enumerate(gens):
        if not np.array_equal(u[i:i + 1], np.asarray(g(N, key=ks[i]))):
            return False, f"channel {i} is not sub-generator {i} with its split key"
    return True, ""


def t_base_classes():
    ex, jnp, jr = _ex()
    try:
        ex.ic.BaseIC()
        return False, "abstract BaseIC could be instantiated"
    except TypeError:
        pass
    try:
        ex.ic.BaseRandomICGenerator(1).gen_ic_fun(key=jr.PRNGKey(0))
        return False, "BaseRandomICGenerator.gen_ic_fun did not raise"
    except NotImplementedError:
        pass
    for D, N in ((1, 7), (2, 6), (3, 4)):
        w1, w2 = np.asarray(ex.ic.WhiteNoise(D)(N, key=jr.PRNGKey(3))), np.asarray(ex.ic.WhiteNoise(D, std=2.5)(N, key=jr.PRNGKey(3)))
        if w1.shape != (1,) + (N,) * D or not core.close(w2, 2.5 * w1, 1e-15):
            return False, "WhiteNoise(std=s) is not s * WhiteNoise() for the same key"
    mc = ex.ic.MultiChannelIC((ex.ic.SineWaves1d(1.0, (1.0,), (1,), (0.0,)), ex.ic.SineWaves1d(2.0, (0.5,), (2,), (0.3,), offset=1.0)))
    x = ex.make_grid(1, 1.0, 9)
    u = np.asarray(mc(x))
    if u.shape != (2, 9):
        return False, f"MultiChannelIC shape {u.shape}"
    exp1 = 0.5 * np.sin(2 * (2 * np.pi / 2.0) * np.asarray(x) + 0.3) + 1.0
    if not core.close(u[1:2], exp1, 1e-13):
        return False, "SineWaves1d differs from a sin(k 2 pi x / L + p) + offset"
    s = np.asarray(ex.ic.ScaledIC(mc.initial_conditions[1], 3.0)(x))
    if not core.close(s, 3.0 * exp1, 1e-13):
        return False, "ScaledIC differs from scale * ic"
    return True, ""


TESTS = dict(contract=t_contract, tfs_offset=t_tfs_offset, tfs_band=t_tfs_band, grf_powerlaw=t_grf_powerlaw, diffused=t_diffused,
             discontinuities=t_discontinuities, blobs=t_blobs, sine=t_sine, clamp=t_clamp, scale=t_scale, fun_form=t_fun_form,
             options=t_options, multi=t_multi, base_classes=t_base_classes,
             finite_degenerate=t_finite_degenerate, ic_set=t_ic_set)


def witness(ctx):
    deep = ctx.deep
    s0 = ctx.seed
    seeds = [s0, s0 + 101, s0 + 2002]
    Ns = {1: (16, 15), 2: (8, 7), 3: (6, 5)} if not deep else {1: (16, 15, 33, 6), 2: (8, 7, 12, 5), 3: (6, 5, 8, 3)}
    DN = [(D, N) for D in (1, 2, 3) for N in Ns[D]]
    ctx.check("base_classes", {})
    for Di, Ni, nS in ((1, 16, 3), (2, 7, 2)) + (((3, 5, 2), (1, 9, 5)) if deep else ()):
        ctx.check("ic_set", dict(D=Di, N=Ni, S=nS, seed=s0))
    # the recorded finding (degenerate RandomDiscontinuities draws): exercised on every run, reported as KNOWN-FINDING
    for D, N, seed, flag in ((3, 8, 34, "max_one"), (3, 8, 74, "max_one")):
        ctx.check("finite_degenerate", dict(D=D, N=N, seed=seed, flag=flag))
    # contract of every generator x D x N parity x 3 keys
    for D in (1, 2, 3):
        specs = [b for b in base_specs(D) if not (b["cls"] == "RandomSineWaves1d" and D != 1)]
        opts = [o for o in option_specs() if not (o["cls"] == "RandomSineWaves1d" and D != 1)]
        if not deep:
            opts = [o for j, o in enumerate(opts) if (j + D + s0) % 2 == 0]
        wrapped = []
        for j, b in enumerate(specs):
            mo = dict(b, kw=dict(b["kw"], max_one=True)) if b["cls"] in ("GaussianRandomField", "DiffusedNoise", "RandomTruncatedFourierSeries") else b
            wrapped += [C(b, (-0.5, 2.0)), S(mo, -3.0), C(S(b, 2.0), (1.0, 4.0)), M(b, S(mo, 0.5), C(specs[(j + 1) % len(specs)]))]
        if not deep:
            wrapped = [w for j, w in enumerate(wrapped) if (j + D + s0) % 2 == 0]
        for spec in specs + opts + wrapped:
            for N in Ns[D]:
                ctx.check("contract", dict(spec=spec, D=D, N=N, seeds=seeds))
    # truncated Fourier series: offsets and band limit
    for D, N in DN:
        for lo, hi in ((-1.0, 1.0), (0.75, 0.75), (0.3, 0.7)) + (((-0.25, 0.25), (-2.0, -2.0)) if deep else ()):
            ctx.check("tfs_offset", dict(D=D, N=N, lo=lo, hi=hi, cutoff=2, seeds=seeds + ([s0 + 7, s0 + 8] if deep else [])))
        for cutoff in ((2,) if not deep else (1, 2, 3, N)):
            ctx.check("tfs_band", dict(D=D, N=N, cutoff=cutoff, lo=-1.0, hi=1.0, seed=s0))
            ctx.check("tfs_band", dict(D=D, N=N, cutoff=cutoff, lo=0.0, hi=0.0, seed=s0 + 1))
    # Gaussian random field / diffused noise: spectrum shaping at every mode
    for D, N in DN:
        for L, a, a2 in ((1.0, 3.0, 2.0), (2.5, 2.0, 5.0)) + (((0.7, 1.0, 4.0),) if deep else ()):
            ctx.check("grf_powerlaw", dict(D=D, N=N, L=L, alpha=a, alpha2=a2, seed=s0 + D))
        ctx.check("diffused", dict(D=D, N=N, L=2.0, intensity=0.004, seed=s0))
        if deep:
            ctx.check("diffused", dict(D=D, N=N, L=1.0, intensity=0.001, seed=s0 + 3))
    # discontinuities, blobs, sines against independent evaluation
    for D, N in ((1, 16), (2, 9), (2, 8), (3, 6), (3, 5)) + (((1, 33), (2, 16), (3, 9)) if deep else ()):
        for zm, so, mo in ((False, False, False), (True, False, True)) + (((True, True, False), (False, False, True)) if deep else ()):
            for seed in seeds[:2] if not deep else seeds:
                ctx.check("discontinuities", dict(D=D, N=N, L=1.0 if D < 3 else 2.0, num=3, zero_mean=zm, std_one=so, max_one=mo, seed=seed))
        for oc in (False, True):
            ctx.check("blobs", dict(D=D, N=N, L=1.0 if D != 2 else 3.0, num=1 + D, one_complement=oc, seed=s0))
    for N in (16, 15) + ((9, 33) if deep else ()):
        for lo, hi, so, mo in ((0.0, 0.0, False, False), (-1.0, 1.0, False, False), (0.0, 0.0, True, False), (0.5, 0.5, False, True)):
            ctx.check("sine", dict(N=N, L=2.0, cutoff=4, lo=lo, hi=hi, std_one=so, max_one=mo, seed=s0))
    # clamping / scaling / function form for every base generator
    for D, N in ([(D, Ns[D][(s0 + D) % 2]) for D in (1, 2, 3)] if not deep else DN):
        for b in base_specs(D):
            if b["cls"] == "RandomSineWaves1d" and D != 1:
                continue
            for lo, hi in ((0.0, 1.0), (-2.0, 0.5)):
                ctx.check("clamp", dict(spec=b, D=D, N=N, lo=lo, hi=hi, seed=s0))
            ctx.check("scale", dict(spec=b, D=D, N=N, scale=-1.75, seed=s0))
            for spec in (b, S(b, -2.0), S(S(b, 2.0), 3.0), S(S(S(b, -0.5), 4.0), 1.5), C(b), M(b, S(b, -3.0)), M(b, base_specs(D)[0])):
                ctx.check("fun_form", dict(spec=spec, D=D, N=N, seed=s0))
        ctx.check("multi", dict(specs=[b for b in base_specs(D) if not (b["cls"] == "RandomSineWaves1d" and D != 1)], D=D, N=N, seed=s0))
    # option validation
    for cls in ("RandomTruncatedFourierSeries", "RandomSineWaves1d", "GaussianRandomField", "DiffusedNoise", "RandomDiscontinuities"):
        for zm, so, mo in itertools.product((False, True), repeat=3):
            rgs = [(0.0, 0.0)] if cls in ("GaussianRandomField", "DiffusedNoise", "RandomDiscontinuities") else \
                ([(0.0, 0.0)] if zm else [(-1.0, 1.0), (0.3, 0.7), (-0.25, 0.25), (1.5, 1.5)])
            for rg in rgs:
                for D in ((1, 2) if cls == "RandomSineWaves1d" else (1,)):
                    ctx.check("options", dict(cls=cls, D=D, offset_range=list(rg), zero_mean=zm, std_one=so, max_one=mo))
