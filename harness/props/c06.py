"""C06 — results are invariant under jit, vmap and scan composition (partial: the JAX runtime part is decided here)."""
import inspect
import zlib

import numpy as np

from .. import core, registry
from ..translate import branches as tr_branches

ID = "C06"
PROPS_FILE = "C06"
RULE = ("correspondence: (a) the combinators of Utils/Combinators.v (vmap=map, jit=id, scan=fold, swapaxes=transpose) extracted and run on integer "
        "bookkeeping steppers vs jax.vmap/jax.jit/exponax.rollout/exponax.repeat on the same inputs, compared exactly; (b) the branch table's "
        "prediction 'the call path traces' (jax.make_jaxpr of every selected class) and the model's prediction 'identical' for eager vs "
        "filter_jit vs jax.vmap over states (incl. one-member replacement and NaN poisoning of one member) on the real steppers; "
        "witness: per class, a batch of steppers built by eqx.filter_vmap / inside eqx.filter_jit from traced values of EVERY float / float-tuple "
        "constructor argument at once (members: random base, one argument set to 0.0 or 1.0 at a time, all zero patterns of each coefficient tuple) "
        "vs eager one-at-a-time construction from Python floats on white-noise states; vector-typed arguments of the linear steppers; "
        "vmap(rollout) vs rollout(vmap) with axes exchanged vs the eager loop, under jit; repeat; families rolled out; wrapper steppers. "
        "quick: a rotating third of the classes (by VERIF_SEED) plus a fixed core; thorough: all classes, all dimensions, more batch sizes and orders. "
        "A case is non-trivial when the batch/step count is >= 1; distinct by input hash.")
ASSUMPTIONS = ["jax.vmap f = map f, jax.jit f = f, lax.scan = fold, swapaxes = transpose are contracts of JAX: exercised, not proved",
               "float / float-tuple constructor arguments are passed as traced 0-d values; the Array|float arguments of Advection/Diffusion/"
               "AdvectionDiffusion/Dispersion are swept both as traced scalars and in their documented vector/matrix forms",
               "agreement is to 1e-11 relative to the magnitude of the result in float64 (XLA may fuse and reorder roundings)",
               "RepeatedStepper / ForcedStepper are compared with themselves (vmap vs per member, jit vs eager), so no Nyquist-free states are needed; "
               "their equality with manual stepping is C14's",
               "a traced dealiasing_fraction = 2/3 on grids with N//2 = 3 (cut-off exactly on mode 1; XLA contracted 2/3*3 - 1 to 1 - 2^-53 under jit and "
               "dropped that mode before the repair 462054c) is exercised on every run by the test dealias_boundary and by D = 2, N = 6 in the sweeps"]

SIZES = {1: 10, 2: 6, 3: 6}
TOL = 1e-11
SKIP_PARAMS = {"num_spatial_dims", "num_points", "num_circle_points", "order", "injection_mode"}
NO_ZERO = {"domain_extent", "circle_radius", "maximum_absolute"}      # 0.0 there means a division by zero on both sides
CORE = ["Burgers", "GeneralPolynomialStepper", "GeneralVorticityConvectionStepper"]
_CLOSURES = {}


def translate(ctx):
    _CLOSURES["c"] = tr_branches.run()


def _jx():
    import jax
    jax.config.update("jax_enable_x64", True)
    import jax.numpy as jnp
    import equinox as eqx
    import exponax as ex
    return jax, jnp, eqx, ex


def _h(*a):
    return zlib.crc32(repr(a).encode()) & 0x7FFFFFFF


def _state(D, N, C, seed, B=None, amp=0.5):
    """white noise: content in every mode, also above the dealiasing cut-off"""
    _, jnp, _, _ = _jx()
    rng = np.random.default_rng(seed)
    shape = ((B,) if B is not None else ()) + (C,) + (N,) * D
    return jnp.asarray(amp * rng.standard_normal(shape))


_DEFAULT_STEPPERS = {}


def _mk(name, D, N, order=None, **kw):
    """registry.make; steppers with default arguments are built once per process (they are immutable)"""
    key = (name, D, N, order) if not kw else None
    if key in _DEFAULT_STEPPERS:
        return _DEFAULT_STEPPERS[key]
    if order is not None and registry.has_order(name):
        kw["order"] = order
    s = registry.make(name, D, N, **kw)
    if key is not None:
        _DEFAULT_STEPPERS[key] = s
    return s


_MAXDEV = [0.0]


def _cmp(got, ref, what, tol=TOL):
    """(ok, detail): same shape, same non-finite pattern, finite parts within tol*(1+max|ref|)"""
    got, ref = np.asarray(got), np.asarray(ref)
    if got.shape != ref.shape:
        return False, f"{what}: shape {got.shape} != {ref.shape}"
    if got.size == 0:
        return True, ""
    fa, fb = np.isfinite(got), np.isfinite(ref)
    if not np.array_equal(fa, fb):
        return False, f"{what}: non-finite entries differ ({int((~fa).sum())} vs {int((~fb).sum())})"
    if not fb.any():
        return True, ""
    scale = 1.0 + float(np.max(np.abs(ref[fb])))
    err = float(np.max(np.abs(got[fb] - ref[fb]))) / scale
    if err <= tol:
        _MAXDEV[0] = max(_MAXDEV[0], err)
    return (err <= tol), ("" if err <= tol else f"{what}: relative deviation {err:.3e} > {tol:.0e}")


def _all(*checks):
    for ok, d in checks:
        if not ok:
            return False, d
    return True, ""


# ---------------------------------------------------------------------------------------------
# parameters of the constructors
def float_params(name):
    """[(parameter, kind, default)] with kind in scalar / tuple"""
    cls = registry.classes()[name]
    out = []
    for p in list(inspect.signature(cls.__init__).parameters.values())[1:]:
        if p.name in SKIP_PARAMS:
            continue
        d = p.default
        if p.name == "domain_extent":
            out.append((p.name, "scalar", 3.0))
        elif p.name == "dt":
            out.append((p.name, "scalar", 0.05))
        elif "Array" in str(p.annotation):
            # documented Array | float: the scalar form is swept like every float argument (a traced 0-d value),
            # the vector / matrix forms by t_ctor_vector
            if isinstance(d, float):
                out.append((p.name, "scalar", d))
        elif isinstance(d, bool) or isinstance(d, int):
            continue
        elif isinstance(d, float):
            out.append((p.name, "scalar", d))
        elif isinstance(d, tuple) and all(isinstance(x, (int, float)) and not isinstance(x, bool) for x in d):
            out.append((p.name, "tuple", tuple(float(x) for x in d)))
    return out


def _slots(name):
    """flat list of (parameter, index or None, default) for the traced sweep (scalar and tuple parameters)"""
    sl = []
    for p, kind, d in float_params(name):
        if kind == "scalar":
            sl.append((p, None, d))
        elif kind == "tuple":
            sl += [(p, i, x) for i, x in enumerate(d)]
    return sl


def _kwargs(slots, values, conv):
    kw, tup = {}, {}
    for (p, i, _), v in zip(slots, values):
        if i is None:
            kw[p] = conv(v)
        else:
            tup.setdefault(p, []).append(conv(v))
    for p, l in tup.items():
        kw[p] = tuple(l)
    return kw


def _build(name, D, N, order, kw):
    kw = dict(kw)
    L = kw.pop("domain_extent", 3.0)
    dt = kw.pop("dt", 0.05)
    return _mk(name, D, N, order, L=L, dt=dt, **kw)


def _members(name, seed, level):
    """parameter sets (rows over _slots(name)); level 0: base, defaults and a seed-dependent choice of 4 special rows;
    1: every single zero and the zero patterns of every tuple; 2: also every single 1.0"""
    slots = _slots(name)
    rng = np.random.default_rng(_h(name, seed))
    base = []
    for p, i, d in slots:
        r = float(rng.uniform(0.6, 1.4))
        if d == 0.0:
            v = float(rng.choice([-1.0, 1.0])) * 0.1 * r
        elif p == "dealiasing_fraction":
            v = float(rng.uniform(0.45, 0.9))
        else:
            v = d * r
        base.append(float(np.float64(v)))
    rows, tags = [list(base)], ["base"]
    rows.append([d for _, _, d in slots]); tags.append("defaults")
    for j, (p, i, d) in enumerate(slots):
        for val in ((0.0, 1.0) if level >= 2 else (0.0,)):
            if val == 0.0 and p in NO_ZERO:
                continue
            r = list(base); r[j] = val
            rows.append(r); tags.append(f"{p}{'' if i is None else [i]}={val}")
    # zero patterns of every coefficient tuple (all of them up to length 3, singles+pairs+all beyond)
    groups = {}
    for j, (p, i, d) in enumerate(slots):
        if i is not None:
            groups.setdefault(p, []).append(j)
    for p, idx in groups.items():
        k = len(idx)
        pats = [m for m in range(1, 2 ** k) if bin(m).count("1") >= 2 and (k <= 3 or bin(m).count("1") == 2 or m == 2 ** k - 1)]
        if not level and len(pats) > 6:
            pats = [pats[q] for q in sorted(rng.choice(len(pats), size=6, replace=False))]
        for m in pats:
            r = list(base)
            for b, j in enumerate(idx):
                if m >> b & 1:
                    r[j] = 0.0
            rows.append(r); tags.append(f"{p} zero pattern {m:0{k}b}")
    if not level and len(rows) > 6:
        keep = [0, 1] + sorted(2 + int(q) for q in rng.choice(len(rows) - 2, size=4, replace=False))
        rows, tags = [rows[q] for q in keep], [tags[q] for q in keep]
    return slots, rows, tags


# ---------------------------------------------------------------------------------------------
# TESTS (the property on the real code; replayable from their JSON parameters)
def t_trace_call(name, D, N, order):
    """prediction of the branch table: no value-dependent test on the call path => the call traces"""
    jax, jnp, eqx, ex = _jx()
    s = _mk(name, D, N, order)
    u = _state(D, N, s.num_channels, 0)
    jp = jax.make_jaxpr(lambda v: s(v))(u)
    ok = len(jp.jaxpr.eqns) > 0
    return ok, "" if ok else "empty jaxpr"


def t_jit_step(name, D, N, order, seed, lite=False):
    jax, jnp, eqx, ex = _jx()
    s = _mk(name, D, N, order)
    u = _state(D, N, s.num_channels, seed)
    ref = s(u)
    if lite:
        return _all(_cmp(eqx.filter_jit(s)(u), ref, "eqx.filter_jit(stepper)(u) vs eager"),
                    _cmp(eqx.filter_jit(lambda st, v: st(v))(s, u), ref, "filter_jit with the stepper as a traced argument vs eager"))
    return _all(_cmp(eqx.filter_jit(s)(u), ref, "eqx.filter_jit(stepper)(u) vs eager"),
                _cmp(jax.jit(lambda v: s(v))(u), ref, "jax.jit(lambda u: stepper(u)) vs eager"),
                _cmp(eqx.filter_jit(lambda st, v: st(v))(s, u), ref, "filter_jit with the stepper as a traced argument vs eager"),
                _cmp(eqx.filter_jit(lambda st, v: st.step_fourier(ex.fft(v, num_spatial_dims=D)))(s, u),
                     s.step_fourier(ex.fft(u, num_spatial_dims=D)), "filter_jit(step_fourier) vs eager"))


def t_vmap_states(name, D, N, order, B, seed, lite=False):
    jax, jnp, eqx, ex = _jx()
    s = _mk(name, D, N, order)
    U = _state(D, N, s.num_channels, seed, B=B)
    ref = np.stack([np.asarray(s(U[j])) for j in range(B)])
    out = jax.vmap(s)(U)
    chk = [_cmp(out, ref, "jax.vmap(stepper)(U) vs per-member loop"),
           _cmp(jax.jit(jax.vmap(s))(U), ref, "jit(vmap(stepper)) vs loop")]
    if not lite:
        chk += [_cmp(jax.vmap(eqx.filter_jit(s))(U), ref, "vmap(filter_jit(stepper)) vs loop"),
                _cmp(eqx.filter_vmap(lambda v: s(v))(U), ref, "eqx.filter_vmap over states vs loop")]
    # independence: replace one member, then poison it with NaN; the other members must not move
    i = seed % B
    new = _state(D, N, s.num_channels, seed + 101)
    for what, repl in (("replaced", new), ("NaN-poisoned", jnp.full_like(new, jnp.nan))):
        out2 = np.asarray(jax.vmap(s)(U.at[i].set(repl)))
        others = [j for j in range(B) if j != i]
        if others:
            chk.append(_cmp(out2[others], np.asarray(out)[others], f"members other than {i} after member {i} was {what}"))
        if what == "replaced":
            chk.append(_cmp(out2[i], s(new), f"member {i} after replacement vs stepper(new member)"))
    return _all(*chk)


def t_ctor_traced(name, D, N, order, seed, level=0):
    """batch of steppers from traced values of every float / float-tuple constructor argument vs eager construction"""
    jax, jnp, eqx, ex = _jx()
    slots, rows, tags = _members(name, seed, level)
    if not slots:
        return True, ""
    theta = jnp.asarray(np.asarray(rows, dtype=np.float64))
    C = _mk(name, D, N, order).num_channels
    u = _state(D, N, C, seed)
    make_t = lambda th: _build(name, D, N, order, _kwargs(slots, [th[j] for j in range(len(slots))], lambda v: v))
    steppers = eqx.filter_vmap(make_t)(theta)
    got_v = np.asarray(eqx.filter_vmap(lambda st: st(u))(steppers))
    jitted = eqx.filter_jit(lambda th, v: make_t(th)(v))
    for m, (row, tag) in enumerate(zip(rows, tags)):
        kw = _kwargs(slots, row, float)
        ref = np.asarray(_build(name, D, N, order, kw)(u))
        r = _all(_cmp(got_v[m], ref, f"filter_vmap-built stepper, member {m} ({tag}; {kw}) vs eager construction from Python floats"),
                 _cmp(jitted(theta[m], u), ref, f"stepper built inside filter_jit from traced values, member {m} ({tag}; {kw}) vs eager"))
        if not r[0]:
            return r
    return True, ""


def t_dealias_boundary(name, D, N, frac):
    """dealiasing mask and one step of a stepper built inside filter_jit / filter_vmap from a traced dealiasing_fraction whose cut-off lands exactly on
    an integer mode (2/3 * 3 - 1 = 1): same as eager (repaired defect 462054c: XLA's fused multiply-add dropped mode 1 under jit)"""
    jax, jnp, eqx, ex = _jx()
    mk = lambda f: _mk(name, D, N, None, dealiasing_fraction=f)
    s_e = mk(frac)
    u = _state(D, N, s_e.num_channels, 3)
    ref = np.asarray(s_e(u))
    got_j = eqx.filter_jit(lambda f, w: mk(f)(w))(jnp.asarray(frac), u)
    got_v = eqx.filter_vmap(lambda f: mk(f)(u))(jnp.asarray([frac, 0.5]))[0]
    return _all(_cmp(got_j, ref, f"stepper built inside filter_jit from traced dealiasing_fraction={frac} vs eager"),
                _cmp(got_v, ref, f"filter_vmap over dealiasing_fraction, member {frac} vs eager"))


def t_difficulty_big_int(N, ncoef, D):
    """Difficulty steppers built under filter_vmap / filter_jit from a traced difficulty of high order on a fine grid: the conversion factor
    N^j 2^(j-1) D is a Python int beyond the machine integer range (repaired defect: OverflowError under tracing, eager fine)"""
    jax, jnp, eqx, ex = _jx()
    import exponax.stepper.generic as G
    mk = lambda g: G.DifficultyLinearStepper(D, N, linear_difficulties=(0.0,) * (ncoef - 1) + (g,))
    sign = -1.0 if ((ncoef - 1) // 2) % 2 == 0 else 1.0           # damping sign of the highest (even) order
    vals = [0.5 * sign, 2.0 * sign]
    u = _state(D, N, 1, 5)
    try:
        steppers = eqx.filter_vmap(mk)(jnp.asarray(vals))
        got = np.asarray(eqx.filter_vmap(lambda st: st(u))(steppers))
        gj = [np.asarray(eqx.filter_jit(lambda g, w: mk(g)(w))(jnp.asarray(v), u)) for v in vals]
    except OverflowError as e:
        return False, f"DifficultyLinearStepper(D={D}, N={N}, {ncoef} difficulties) cannot be built from a traced difficulty: OverflowError {str(e)[:120]}"
    for m, v in enumerate(vals):
        ref = np.asarray(mk(v)(u))
        r = _all(_cmp(got[m], ref, f"filter_vmap over the order-{ncoef - 1} difficulty, member {v} vs eager"),
                 _cmp(gj[m], ref, f"filter_jit-built stepper with traced order-{ncoef - 1} difficulty {v} vs eager"))
        if not r[0]:
            return r
    return True, ""


def t_fresh_process(mode):
    """order-dependent state and precision-dependent code paths, in a fresh interpreter (harness/props/c06_worker.py): 'jit_first' builds
    steppers inside filter_jit before anything was built eagerly (a memoised helper that captured a tracer breaks every later construction);
    'f32' compares eager / filter_vmap / filter_jit construction of stiff steppers in a single-precision session"""
    import json, os, subprocess, sys
    from . import c06_worker
    env = dict(os.environ)
    env.update(JAX_ENABLE_X64="0" if mode == "f32" else "1", JAX_PLATFORMS="cpu", PYTHONPATH=core.REPO + ":" + core.VERIF, PYTHONHASHSEED="0",
               PYTHONDONTWRITEBYTECODE="1")
    try:
        p = subprocess.run([sys.executable, "-m", "harness.props.c06_worker", mode], stdout=subprocess.PIPE, stderr=subprocess.PIPE, text=True, env=env,
                           cwd=core.VERIF, timeout=900)
    except subprocess.TimeoutExpired:
        return False, f"fresh-process worker ({mode}) timed out"
    if c06_worker.MARK not in p.stdout:
        return False, f"fresh-process worker ({mode}) produced no result: {p.stderr[-400:]}"
    res = json.loads(p.stdout.split(c06_worker.MARK)[1])
    want = "float32" if mode == "f32" else "float64"
    if res["dtype"] != want:
        return False, f"worker session is {res['dtype']}, expected {want}"
    return res["ok"], res["detail"]


def t_ctor_single(name, D, N, order, param, index, values, base, seed, light=False):
    """filter_vmap / filter_jit over ONE constructor argument (the others stay Python numbers) vs eager;
    light: one step and the filter_vmap-built batch only"""
    jax, jnp, eqx, ex = _jx()

    def make(v, conv):
        kw = {k: (tuple(x) if isinstance(x, list) else x) for k, x in base.items()}
        if index is None:
            kw[param] = conv(v)
        else:
            t = list(kw[param]); t[index] = conv(v); kw[param] = tuple(t)
        return _build(name, D, N, order, kw)
    C = make(values[0], float).num_channels
    u = _state(D, N, C, seed)
    vals = jnp.asarray(np.asarray(values, dtype=np.float64))
    steppers = eqx.filter_vmap(lambda v: make(v, lambda x: x))(vals)
    two = (lambda st, w: st(w)) if light else (lambda st, w: st(st(w)))
    got = np.asarray(eqx.filter_vmap(lambda st: two(st, u))(steppers))
    jitted = None if light else eqx.filter_jit(lambda v, w: two(make(v, lambda x: x), w))
    for m, v in enumerate(values):
        ref = np.asarray(two(make(v, float), u))
        r = _all(_cmp(got[m], ref, f"filter_vmap over {param}{'' if index is None else [index]}, member {param}={v} vs eager"),
                 (True, "") if light else _cmp(jitted(vals[m], u), ref, f"filter_jit-built stepper with traced {param}={v} vs eager"))
        if not r[0]:
            return r
    return True, ""


def t_ctor_vector(name, D, N, param, form, B, seed):
    """documented array-typed arguments of the linear steppers: filter_vmap over a batch of vectors / matrices"""
    jax, jnp, eqx, ex = _jx()
    rng = np.random.default_rng(_h(name, param, form, seed))
    shape = (B, D) if form == "vector" else (B, D, D)
    vals = rng.uniform(-1.0, 1.0, size=shape) * (1.0 if param == "velocity" else 0.05)
    if form == "matrix":
        vals = np.einsum("bij,bkj->bik", vals, vals) / 0.05          # symmetric positive semi-definite diffusivity
    if B > 1:
        vals[1] = 0.0                                                # a member that is exactly zero
    vals = jnp.asarray(vals)
    steppers = eqx.filter_vmap(lambda v: _mk(name, D, N, None, **{param: v}))(vals)
    s0 = _mk(name, D, N, None, **{param: vals[0]})
    u = _state(D, N, s0.num_channels, seed)
    got = np.asarray(eqx.filter_vmap(lambda st: st(u))(steppers))
    jitted = eqx.filter_jit(lambda v, w: _mk(name, D, N, None, **{param: v})(w))
    for m in range(B):
        ref = np.asarray(_mk(name, D, N, None, **{param: vals[m]})(u))
        r = _all(_cmp(got[m], ref, f"filter_vmap over {param} ({form}), member {m} vs one-at-a-time"),
                 _cmp(jitted(vals[m], u), ref, f"filter_jit-built stepper with traced {param} ({form}), member {m} vs eager"))
        if not r[0]:
            return r
    return True, ""


def _loop(s, u, n, include_init):
    out, v = ([np.asarray(u)] if include_init else []), u
    for _ in range(n):
        v = s(v)
        out.append(np.asarray(v))
    return np.stack(out) if out else np.zeros((0,) + tuple(u.shape)), v


def t_rollout_nesting(name, D, N, order, n, B, include_init, seed, lite=False):
    jax, jnp, eqx, ex = _jx()
    s = _mk(name, D, N, order)
    U = _state(D, N, s.num_channels, seed, B=B)
    ref = np.stack([_loop(s, U[j], n, include_init)[0] for j in range(B)])          # (B, T, C, ...)
    r = lambda f: ex.rollout(f, n, include_init=include_init)
    a = jax.vmap(r(s))(U)
    b = r(jax.vmap(s))(U)
    if lite:
        return _all(_cmp(a, ref, "jax.vmap(ex.rollout(stepper, n))(U) vs eager loops"),
                    _cmp(jnp.swapaxes(b, 0, 1), ref, "ex.rollout(jax.vmap(stepper), n)(U) with batch and time axes exchanged vs eager loops"),
                    _cmp(eqx.filter_jit(r(s))(U[0]), ref[0], "filter_jit(ex.rollout(stepper, n)) vs eager loop"))
    return _all(_cmp(a, ref, "jax.vmap(ex.rollout(stepper, n))(U) vs eager loops"),
                _cmp(jnp.swapaxes(b, 0, 1), ref, "ex.rollout(jax.vmap(stepper), n)(U) with batch and time axes exchanged vs eager loops"),
                _cmp(jnp.swapaxes(b, 0, 1), a, "vmap(rollout) vs rollout(vmap) with axes exchanged"),
                _cmp(eqx.filter_jit(r(s))(U[0]), ref[0], "filter_jit(ex.rollout(stepper, n)) vs eager loop"),
                _cmp(r(eqx.filter_jit(s))(U[0]), ref[0], "ex.rollout(filter_jit(stepper), n) vs eager loop"),
                _cmp(jax.jit(jax.vmap(r(s)))(U), ref, "jit(vmap(rollout)) vs eager loops"),
                _cmp(jnp.swapaxes(jax.jit(r(jax.vmap(s)))(U), 0, 1), ref, "jit(rollout(vmap)) vs eager loops"))


def t_repeat_nesting(name, D, N, order, n, B, seed, lite=False):
    jax, jnp, eqx, ex = _jx()
    s = _mk(name, D, N, order)
    U = _state(D, N, s.num_channels, seed, B=B)
    ref = np.stack([np.asarray(_loop(s, U[j], n, False)[1]) for j in range(B)])
    if lite:
        return _all(_cmp(jax.vmap(ex.repeat(s, n))(U), ref, "jax.vmap(ex.repeat(stepper, n))(U) vs eager loops"),
                    _cmp(ex.repeat(jax.vmap(s), n)(U), ref, "ex.repeat(jax.vmap(stepper), n)(U) vs eager loops"))
    rs = ex.RepeatedStepper(s, n)
    ref_rs = np.stack([np.asarray(rs(U[j])) for j in range(B)])
    return _all(_cmp(jax.vmap(ex.repeat(s, n))(U), ref, "jax.vmap(ex.repeat(stepper, n))(U) vs eager loops"),
                _cmp(ex.repeat(jax.vmap(s), n)(U), ref, "ex.repeat(jax.vmap(stepper), n)(U) vs eager loops"),
                _cmp(eqx.filter_jit(ex.repeat(s, n))(U[0]), ref[0], "filter_jit(ex.repeat(stepper, n)) vs eager loop"),
                _cmp(jax.vmap(rs)(U), ref_rs, "jax.vmap(RepeatedStepper) vs per-member"),
                _cmp(eqx.filter_jit(rs)(U[0]), ref_rs[0], "filter_jit(RepeatedStepper) vs eager"))


def t_forced(name, D, N, order, B, seed):
    jax, jnp, eqx, ex = _jx()
    s = _mk(name, D, N, order)
    fs = ex.ForcedStepper(s)
    U = _state(D, N, s.num_channels, seed, B=B)
    F = _state(D, N, s.num_channels, seed + 7, B=B)
    ref = np.stack([np.asarray(fs(U[j], F[j])) for j in range(B)])
    return _all(_cmp(jax.vmap(fs)(U, F), ref, "jax.vmap(ForcedStepper)(U, F) vs per-member"),
                _cmp(eqx.filter_jit(fs)(U[0], F[0]), ref[0], "filter_jit(ForcedStepper) vs eager"),
                _cmp(jax.vmap(fs, in_axes=(0, None))(U, F[0]), np.stack([np.asarray(fs(U[j], F[0])) for j in range(B)]),
                     "vmap over states with a broadcast forcing vs per-member"))


def t_forced_rollout(name, D, N, order, seed):
    """rollout of a ForcedStepper with a CONSTANT forcing whose leading (channel) axis happens to have length n, and a batch of size n:
    rollout / jit(rollout) / vmap(rollout) vs the step-by-step loop (a size coincidence must not turn the forcing into a time series)"""
    jax, jnp, eqx, ex = _jx()
    s = _mk(name, D, N, order)
    fs = ex.ForcedStepper(s)
    C = s.num_channels
    n = max(C, 2)
    u = _state(D, N, C, seed)
    f = _state(D, N, C, seed + 11)
    ref, cur = [], u
    for _ in range(n):
        cur = fs(cur, f); ref.append(np.asarray(cur))
    ref = np.stack(ref)
    ro = ex.rollout(fs, n, takes_aux=True, constant_aux=True)
    U = jnp.stack([u] * n); Fb = jnp.stack([f] * n)
    return _all(_cmp(ro(u, f), ref, f"rollout(ForcedStepper, n={n}) with a constant forcing of leading length {C} vs the loop"),
                _cmp(eqx.filter_jit(ro)(u, f), ref, "filter_jit(rollout(ForcedStepper)) vs the loop"),
                _cmp(jax.vmap(ro)(U, Fb)[n - 1], ref, f"vmap(rollout(ForcedStepper)) with batch size n={n}, last member vs the loop"),
                _cmp(ex.repeat(fs, n, takes_aux=True, constant_aux=True)(u, f), ref[-1], "repeat(ForcedStepper) vs the loop"))


def t_family_rollout(name, D, N, order, n, B, seed):
    """a batch of steppers over a parameter grid, each with its own state, rolled out in both nesting orders"""
    jax, jnp, eqx, ex = _jx()
    slots, rows, tags = _members(name, seed, 0)
    if not slots:
        return True, ""
    pick = [0] + [int(x) for x in np.random.default_rng(_h(name, seed, "fam")).choice(np.arange(1, len(rows)), size=B - 1, replace=len(rows) - 1 < B - 1)]
    rows = [rows[q] for q in pick]
    theta = jnp.asarray(np.asarray(rows, dtype=np.float64))
    make_t = lambda th: _build(name, D, N, order, _kwargs(slots, [th[j] for j in range(len(slots))], lambda v: v))
    steppers = eqx.filter_vmap(make_t)(theta)
    C = _mk(name, D, N, order).num_channels
    U = _state(D, N, C, seed, B=B)
    ref = np.stack([_loop(_build(name, D, N, order, _kwargs(slots, rows[j], float)), U[j], n, True)[0] for j in range(B)])
    a = eqx.filter_vmap(lambda st, v: ex.rollout(st, n, include_init=True)(v))(steppers, U)
    batched = lambda V: eqx.filter_vmap(lambda st, v: st(v))(steppers, V)
    b = ex.rollout(batched, n, include_init=True)(U)
    return _all(_cmp(a, ref, "filter_vmap(rollout) over (stepper, state) pairs vs eager one-at-a-time loops"),
                _cmp(jnp.swapaxes(b, 0, 1), ref, "rollout of the batched stepper family, axes exchanged, vs eager loops"),
                _cmp(eqx.filter_jit(lambda V: jnp.swapaxes(ex.rollout(batched, n, include_init=True)(V), 0, 1))(U), ref,
                     "jit(rollout(batched family)) vs eager loops"))


TESTS = dict(forced_rollout=t_forced_rollout, fresh_process=t_fresh_process, difficulty_big_int=t_difficulty_big_int, dealias_boundary=t_dealias_boundary, trace_call=t_trace_call, jit_step=t_jit_step, vmap_states=t_vmap_states, ctor_traced=t_ctor_traced, ctor_single=t_ctor_single,
             ctor_vector=t_ctor_vector, rollout_nesting=t_rollout_nesting, repeat_nesting=t_repeat_nesting, forced=t_forced,
             family_rollout=t_family_rollout)


# ---------------------------------------------------------------------------------------------
def _selection(ctx, deep):
    """[(class, D, N, order)]: quick = rotating third + core at one rotating dimension; deep = every class at every dimension"""
    names = list(registry.classes())
    out = []
    if deep:
        for nm in names:
            for D in registry.dims(nm):
                out.append((nm, D, SIZES[D], 2 if registry.has_order(nm) else None))
        return out
    sel = [nm for i, nm in enumerate(names) if i % 3 == ctx.seed % 3]
    sel += [nm for nm in CORE if nm not in sel]
    for i, nm in enumerate(sel):
        ds = registry.dims(nm)
        D = ds[(ctx.seed + i) % len(ds)]
        out.append((nm, D, SIZES[D], (1, 2, 3, 4)[(ctx.seed + i) % 4] if registry.has_order(nm) else None))
    return out


# the integer combinator cases: extracted model vs JAX
def _int_cases(ctx):
    jax, jnp, eqx, ex = _jx()
    rng = ctx.rng
    cases, impls = [], []
    i64 = lambda x: jnp.asarray(x, dtype=jnp.int64)
    flat = lambda x: np.asarray(x).reshape(-1).tolist()
    for n in ((0, 2) if ctx.quick else (0, 1, 2, 3, 5)):
        for inc in (False, True):
            for B in ((3,) if ctx.quick else (1, 2, 4)):
                a, b = int(rng.integers(-3, 4)), int(rng.integers(-5, 6))
                us = [int(x) for x in rng.integers(-9, 10, size=B)]
                ps = [int(x) for x in rng.integers(-3, 4, size=B)]
                f = lambda u, a=a, b=b: a * u + b
                fam = lambda p, u, b=b: p * u + b
                r = lambda g, n=n, inc=inc: ex.rollout(g, n, include_init=inc)
                for jit in ((bool(n),) if ctx.quick else (False, True)):
                    w = (lambda g: jax.jit(g)) if jit else (lambda g: g)
                    d = dict(n=n, include_init=inc, a=a, b=b, us=us, jit=jit)
                    hd = [n, inc, a, b, B]
                    cases.append((601, hd + us)); impls.append((lambda r=r, f=f, us=us, w=w: flat(w(jax.vmap(r(f)))(i64(us))), dict(fn="vmap_rollout", **d)))
                    cases.append((602, hd + us)); impls.append((lambda r=r, f=f, us=us, w=w: flat(jnp.swapaxes(w(r(jax.vmap(f)))(i64(us)), 0, 1)), dict(fn="rollout_vmap_swapped", **d)))
                    cases.append((603, hd + us)); impls.append((lambda r=r, f=f, us=us, w=w: flat(w(r(jax.vmap(f)))(i64(us))), dict(fn="rollout_vmap", **d)))
                    cases.append((604, hd + ps + us)); impls.append((lambda r=r, fam=fam, us=us, ps=ps, w=w: flat(w(jax.vmap(lambda p, u: r(lambda x: fam(p, x))(u)))(i64(ps), i64(us))), dict(fn="family_rollout", ps=ps, **d)))
                    cases.append((605, hd + ps + us)); impls.append((lambda r=r, fam=fam, us=us, ps=ps, w=w: flat(w(r(lambda U: jax.vmap(fam)(i64(ps), U)))(i64(us))), dict(fn="rollout_family", ps=ps, **d)))
                    if not inc:
                        cases.append((606, hd + us)); impls.append((lambda f=f, us=us, w=w, n=n: flat(w(jax.vmap(ex.repeat(f, n)))(i64(us))), dict(fn="vmap_repeat", **d)))
                        cases.append((607, hd + us)); impls.append((lambda f=f, us=us, w=w, n=n: flat(w(ex.repeat(jax.vmap(f), n))(i64(us))), dict(fn="repeat_vmap", **d)))
                if n < B and not inc:
                    x = int(rng.integers(-9, 10))
                    cases.append((608, [n, 0, a, b, B] + us + [x]))
                    impls.append((lambda f=f, us=us, x=x, n=n: flat(jax.vmap(f)(i64(us).at[n].set(x))), dict(fn="replace_member", i=n, x=x, a=a, b=b, us=us)))
    return cases, impls


def correspond(ctx):
    cases, impls = _int_cases(ctx)
    res = core.run_model(cases)
    for (mid, args), (impl, desc), mres in zip(cases, impls, res):
        ctx.case(desc, nontrivial=desc.get("n", 1) >= 1)
        ctx.count(desc["fn"])
        got, exp = [int(x) for x in impl()], [int(x) for x in mres]
        if got != exp:
            ctx.disagree("c06:" + desc["fn"], desc, exp, got)
    # the generated table against the registry (every exported class, no stale file)
    cl = _CLOSURES.get("c")
    if cl is None:
        ctx.broken("correspondence:branch-table", "translator did not run")
    else:
        if list(cl) != list(registry.classes()):
            ctx.broken("correspondence:branch-table", f"classes in the table {list(cl)} != exported classes")
        rows = tr_branches.summary(cl)
        ctx.count("branch_table_entries", len(rows))
        ctx.count("branch_table_value_dependent", sum(r["vd"] for r in rows))
        for r in rows:
            if r["vd"]:
                ctx.notes.append(f"value-dependent {'call' if r['path'] == 'call' else 'constructor'} test ({'guarded' if r['guarded'] else 'UNGUARDED'}): {r['cls']} {r['loc']}")
    # the model's prediction "traces / identical" on the real steppers
    deep = not ctx.quick
    sel = _selection(ctx, deep)
    first = {}
    for nm, D, N, order in sel:
        ctx.count("class:" + nm)
        lite = ctx.quick or nm in first
        first.setdefault(nm, D)
        ctx.check("jit_step", dict(name=nm, D=D, N=N, order=order, seed=ctx.seed, lite=lite))
        for B in ((3,) if lite else (1, 4)):
            ctx.check("vmap_states", dict(name=nm, D=D, N=N, order=order, B=B, seed=ctx.seed, lite=lite))
    for nm in registry.classes():          # every class that is not in this run's rotation still has to trace
        if nm not in first:
            D = registry.dims(nm)[0]
            ctx.check("trace_call", dict(name=nm, D=D, N=SIZES[D], order=2 if registry.has_order(nm) else None))


# parameters whose sweeps are always run (the kinds of breakage seen so far: a coefficient that is exactly 0.0, a traced injection scale)
FIXED_SINGLE = [
    dict(name="GeneralPolynomialStepper", D=1, N=12, order=2, param="polynomial_coefficients", index=2, values=[0.0, -0.5, -1.0],
         base=dict(linear_coefficients=[0.0, 0.0, 1e-3], polynomial_coefficients=[0.0, 1.0, 0.0])),
    dict(name="GeneralVorticityConvectionStepper", D=2, N=8, order=2, param="injection_scale", index=None, values=[0.0, 0.5, 2.0],
         base=dict(linear_coefficients=[0.0, 0.0, 0.01], injection_mode=2)),
    dict(name="GeneralNonlinearStepper", D=1, N=12, order=2, param="nonlinear_coefficients", index=1, values=[0.0, -1.0, 0.7],
         base=dict(nonlinear_coefficients=[0.3, 0.0, 0.0])),
    # scalar coefficients of the linear steppers as traced 0-d values (a grid of scalars under filter_vmap)
    dict(name="Advection", D=2, N=8, order=None, param="velocity", index=None, values=[0.0, 0.7, -1.3], base=dict()),
    dict(name="Diffusion", D=2, N=8, order=None, param="diffusivity", index=None, values=[0.0, 0.02, 0.3], base=dict()),
    dict(name="AdvectionDiffusion", D=1, N=10, order=None, param="velocity", index=None, values=[0.0, 0.7, -1.3], base=dict(diffusivity=0.02)),
    dict(name="AdvectionDiffusion", D=3, N=4, order=None, param="diffusivity", index=None, values=[0.0, 0.02, 0.3], base=dict(velocity=0.4)),
    dict(name="Dispersion", D=2, N=8, order=None, param="dispersivity", index=None, values=[0.0, 0.5, -0.2], base=dict()),
]
FIXED_SINGLE_DEEP = [
    dict(name="Burgers", D=1, N=12, order=2, param="diffusivity", index=None, values=[0.0, 0.05, 1.0], base=dict()),
    dict(name="KolmogorovFlowVorticity", D=2, N=8, order=2, param="injection_scale", index=None, values=[0.0, 1.0, 0.3], base=dict(injection_mode=2)),
    dict(name="SwiftHohenberg", D=1, N=12, order=2, param="polynomial_coefficients", index=3, values=[0.0, -1.0], base=dict(polynomial_coefficients=[0.0, 0.5, 0.0, -1.0])),
]
VECTOR = [("Advection", "velocity", ("vector",)), ("Diffusion", "diffusivity", ("vector", "matrix")),
          ("AdvectionDiffusion", "velocity", ("vector",)), ("AdvectionDiffusion", "diffusivity", ("vector", "matrix")),
          ("Dispersion", "dispersivity", ("vector",))]


def witness(ctx):
    try:
        _witness(ctx)
    finally:
        ctx.notes.append(f"largest relative deviation among the accepted comparisons: {_MAXDEV[0]:.3e} (tolerance {TOL:.0e})")


def _witness(ctx):
    deep = ctx.deep
    sel = _selection(ctx, deep)
    for p in FIXED_SINGLE + (FIXED_SINGLE_DEEP if deep else []):
        ctx.check("ctor_single", dict(p, seed=ctx.seed))
    for nm, D in (("Burgers", 2), ("GrayScott", 1)) + ((("Burgers", 3), ("Diffusion", 1)) if deep else ()):
        ctx.check("forced_rollout", dict(name=nm, D=D, N=SIZES[D], order=2 if nm != "Diffusion" else None, seed=ctx.seed))
    # trajectory utilities on odd-derivative steppers, even grids, white noise (Nyquist content): never rotated away
    for nm, D, o in (("Advection", 1, None), ("KortewegDeVries", 1, 2), ("Dispersion", 2, None)):
        N = SIZES[D] if SIZES[D] % 2 == 0 else SIZES[D] + 1
        ctx.check("repeat_nesting", dict(name=nm, D=D, N=N, order=o, n=3, B=2, seed=ctx.seed + 5, lite=True))
        ctx.check("rollout_nesting", dict(name=nm, D=D, N=N, order=o, n=3, B=2, include_init=True, seed=ctx.seed + 5, lite=True))
    ctx.check("fresh_process", dict(mode="jit_first"))
    ctx.check("fresh_process", dict(mode="f32"))
    ctx.check("difficulty_big_int", dict(N=256, ncoef=9, D=1))
    if deep:
        ctx.check("difficulty_big_int", dict(N=512, ncoef=9, D=1))
        ctx.check("difficulty_big_int", dict(N=64, ncoef=11, D=2))
    for nm, D, N in [("Burgers", 2, 6), ("KuramotoSivashinsky", 2, 7)] + ([("Burgers", 3, 6), ("KortewegDeVries", 2, 6), ("NavierStokesVorticity", 2, 7)] if deep else []):
        ctx.check("dealias_boundary", dict(name=nm, D=D, N=N, frac=2 / 3))
    first = {}
    for k, (nm, D, N, order) in enumerate(sel):
        lite = (not deep) or nm in first
        first.setdefault(nm, D)
        if deep:
            # full sweep of the constructor arguments on the first dimension, the small one on one further dimension
            if not lite:
                ctx.check("ctor_traced", dict(name=nm, D=D, N=N, order=order, seed=ctx.seed, level=1))
            elif D == registry.dims(nm)[1 + (ctx.seed + k) % (len(registry.dims(nm)) - 1)] and k % 2 == ctx.seed % 2:
                ctx.check("ctor_traced", dict(name=nm, D=D, N=N, order=order, seed=ctx.seed, level=0))
        else:           # quick: the constructor sweep on the smallest admissible grid (the arguments are handled alike in every dimension)
            D0 = registry.dims(nm)[0]
            ctx.check("ctor_traced", dict(name=nm, D=D0, N=SIZES[D0], order=order, seed=ctx.seed, level=0))
        if not lite or (not deep and k % 2 == ctx.seed % 2) or (deep and D == 2 and k % 2 == ctx.seed % 2):
            ctx.check("rollout_nesting", dict(name=nm, D=D, N=N, order=order, n=3, B=2, include_init=bool((k + ctx.seed) % 2), seed=ctx.seed, lite=lite))
        if not lite or (not deep and k % 2 != ctx.seed % 2) or (deep and D == 3 and k % 2 != ctx.seed % 2):
            ctx.check("repeat_nesting", dict(name=nm, D=D, N=N, order=order, n=2, B=2, seed=ctx.seed, lite=lite))
        if (deep and not lite and (k % 2 == ctx.seed % 2 or nm in CORE)) or (not deep and nm in CORE):
            ctx.check("family_rollout", dict(name=nm, D=D, N=N, order=order, n=2, B=3, seed=ctx.seed))
    # the documented array-typed arguments of the linear steppers: on every run, whatever the rotation
    for cls, param, forms in VECTOR:
        for D in ((1, 2, 3) if deep else ((1, 2, 3)[(ctx.seed + len(param) + len(cls)) % 3],)):
            for form in forms:
                ctx.check("ctor_vector", dict(name=cls, D=D, N=SIZES[D], param=param, form=form, B=3, seed=ctx.seed))
    ctx.check("forced", dict(name="Burgers", D=1, N=10, order=2, B=2, seed=ctx.seed))
    if deep:
        # more orders, step counts, batch sizes and the empty time axis on the smallest admissible dimension
        for k, nm in enumerate(registry.classes()):
            D = registry.dims(nm)[0]
            N = SIZES[D]
            orders = (0, 1, 3, 4) if registry.has_order(nm) else (None,)
            for order in orders:
                ctx.check("jit_step", dict(name=nm, D=D, N=N, order=order, seed=ctx.seed + 1, lite=True))
                if order == 4:
                    ctx.check("ctor_traced", dict(name=nm, D=D, N=N, order=order, seed=ctx.seed + 1, level=0))
            o = orders[(k + ctx.seed) % len(orders)]
            if k % 3 == ctx.seed % 3:
                ctx.check("rollout_nesting", dict(name=nm, D=D, N=N, order=o, n=0, B=3, include_init=False, seed=ctx.seed, lite=True), nontrivial=False)
                ctx.check("forced", dict(name=nm, D=D, N=N, order=o, B=3, seed=ctx.seed))
            elif k % 3 == (ctx.seed + 1) % 3:
                ctx.check("rollout_nesting", dict(name=nm, D=D, N=N, order=o, n=5, B=1, include_init=True, seed=ctx.seed + 2, lite=True))
            else:
                ctx.check("repeat_nesting", dict(name=nm, D=D, N=N, order=o, n=4, B=3, seed=ctx.seed + 2, lite=True))
        # every coefficient-like float argument on its own (the other arguments stay Python numbers)
        for nm in registry.classes():
            D = registry.dims(nm)[0]
            N = SIZES[D]
            for p, i, d in _slots(nm):
                if p in NO_ZERO or p in ("dt", "dealiasing_fraction"):
                    continue
                ctx.check("ctor_single", dict(name=nm, D=D, N=N, order=2 if registry.has_order(nm) else None, param=p, index=i,
                                              values=[0.0, d if d != 0.0 else 0.1], base=_single_base(nm, p), seed=ctx.seed, light=True))


def _single_base(name, param):
    """the tuple-valued default of [param] (needed to replace one entry); scalars need no base"""
    for p, kind, d in float_params(name):
        if p == param and kind == "tuple":
            return {p: list(d)}
    return {}
