"""C14 — rollout, repeat and the wrapper steppers equal the naive loop."""
import itertools
from fractions import Fraction

import numpy as np

from .. import core
from ..translate import utilsfn as tr_utilsfn

ID = "C14"
PROPS_FILE = "C14"
RULE = ("correspondence: integer bookkeeping steppers (f u = a*u+b, f u x = a*u+x, a pair-valued pytree stepper) run through "
        "exponax.rollout/repeat/stack_sub_trajectories and through the extracted Gallina model on the same (n, flags, aux, window) "
        "inputs, compared exactly; witness: the implementation against a naive Python loop, plus RepeatedStepper/ForcedStepper "
        "against manual stepping. A case is non-trivial when n>=1 (or the rejection path is exercised); distinct by input hash.")
TRUSTED_EXTRA = ["harness/translate/utilsfn.py: statement-by-statement translation of rollout / repeat / RepeatedStepper / ForcedStepper (contracts: jax.lax.scan = Rollout.scan with the "
                 "length check, tree_map of the repeat / prepend lambdas = repeat x n / init :: history)"]
ASSUMPTIONS = ["jax.lax.scan = fold with stacked outputs; tree_map leafwise; dynamic_slice_in_dim clamps the start index",
               "int64 bookkeeping values stay far below overflow (|a|<=3, n<=8)"]


def translate(ctx):
    """Gen/UtilsGen.v: rollout, repeat and the wrapper steppers re-translated from the source (tied to Utils/Rollout.v by
    Tie/UtilsTie.v and the theorems C14_code_utilities_are_model_utilities / C14_code_wrappers_are_model_wrappers); on failure the
    file is replaced by a stub, so that the proof cannot use a stale text"""
    tr_utilsfn.run()


def _jnp():
    import jax.numpy as jnp
    return jnp


def impl_rollout(n, include_init, a, b, u0):
    import exponax as ex
    jnp = _jnp()
    f = lambda u: a * u + b
    return np.asarray(ex.rollout(f, n, include_init=include_init)(jnp.asarray(u0, dtype=jnp.int64))).tolist()


def impl_repeat(n, a, b, u0):
    import exponax as ex
    jnp = _jnp()
    return [int(ex.repeat(lambda u: a * u + b, n)(jnp.asarray(u0, dtype=jnp.int64)))]


def impl_rollout_aux(n, include_init, constant_aux, a, u0, aux):
    import exponax as ex
    jnp = _jnp()
    f = lambda u, x: a * u + x
    auxv = jnp.asarray(aux[0], dtype=jnp.int64) if constant_aux else jnp.asarray(aux, dtype=jnp.int64)
    try:
        r = ex.rollout(f, n, include_init=include_init, takes_aux=True, constant_aux=constant_aux)(
            jnp.asarray(u0, dtype=jnp.int64), auxv)
    except Exception:
        return [0]
    return [1] + np.asarray(r).tolist()


def impl_repeat_aux(n, constant_aux, a, u0, aux):
    import exponax as ex
    jnp = _jnp()
    f = lambda u, x: a * u + x
    auxv = jnp.asarray(aux[0], dtype=jnp.int64) if constant_aux else jnp.asarray(aux, dtype=jnp.int64)
    try:
        r = ex.repeat(f, n, takes_aux=True, constant_aux=constant_aux)(jnp.asarray(u0, dtype=jnp.int64), auxv)
    except Exception:
        return [0]
    return [1, int(r)]


def impl_stack(sub_len, trj):
    import exponax as ex
    jnp = _jnp()
    try:
        r = np.asarray(ex.stack_sub_trajectories(jnp.asarray(trj, dtype=jnp.int64), sub_len))
    except ValueError:
        return [0]
    return [1, r.shape[0]] + r.reshape(-1).tolist()


def impl_rollout_pair(n, include_init, u0, v0):
    import exponax as ex
    jnp = _jnp()
    f = lambda s: {"u": s["u"] + s["v"][0], "v": (2 * s["v"][0] + 1,)}
    r = ex.rollout(f, n, include_init=include_init)({"u": jnp.asarray(u0, dtype=jnp.int64), "v": (jnp.asarray(v0, dtype=jnp.int64),)})
    assert set(r.keys()) == {"u", "v"} and isinstance(r["v"], tuple)
    us, vs = np.asarray(r["u"]).tolist(), np.asarray(r["v"][0]).tolist()
    return [x for uv in zip(us, vs) for x in uv]


def impl_stack_tree(sub_len, leaf1, leaf2):
    import exponax as ex
    jnp = _jnp()
    try:
        r = ex.stack_sub_trajectories((jnp.asarray(leaf1, dtype=jnp.int64), jnp.asarray(leaf2, dtype=jnp.int64)), sub_len)
    except ValueError:
        return [0]
    out = [1]
    for leaf in r:
        leaf = np.asarray(leaf)
        out += [leaf.shape[0]] + leaf.reshape(-1).tolist()
    return out


def correspond(ctx):
    rng = ctx.rng
    nmax = 4 if ctx.quick else 8
    cases, impls = [], []

    def add(mid, args, impl, desc):
        cases.append((mid, args)); impls.append((impl, desc))

    for n in range(0, nmax + 1):
        for inc in (False, True):
            a, b, u0 = int(rng.integers(-3, 4)), int(rng.integers(-5, 6)), int(rng.integers(-9, 10))
            add(1401, [n, inc, a, b, u0], lambda n=n, inc=inc, a=a, b=b, u0=u0: impl_rollout(n, inc, a, b, u0),
                dict(fn="rollout", n=n, include_init=inc, a=a, b=b, u0=u0))
            add(1406, [n, inc, u0, b], lambda n=n, inc=inc, u0=u0, b=b: impl_rollout_pair(n, inc, u0, b),
                dict(fn="rollout_pytree", n=n, include_init=inc, u0=u0, v0=b))
            for ca in (False, True):
                for dlen in ((0,) if ca else (0, 1, -1)):
                    ln = 1 if ca else max(n + dlen, 0)
                    if not ca and ln == n and dlen != 0:
                        continue
                    aux = [int(x) for x in rng.integers(-9, 10, size=ln)]
                    if ca and not aux:
                        aux = [1]
                    add(1403, [n, inc, ca, a, u0] + aux,
                        lambda n=n, inc=inc, ca=ca, a=a, u0=u0, aux=aux: impl_rollout_aux(n, inc, ca, a, u0, aux),
                        dict(fn="rollout_aux", n=n, include_init=inc, constant_aux=ca, a=a, u0=u0, aux=aux))
                    if not inc:
                        add(1404, [n, ca, a, u0] + aux,
                            lambda n=n, ca=ca, a=a, u0=u0, aux=aux: impl_repeat_aux(n, ca, a, u0, aux),
                            dict(fn="repeat_aux", n=n, constant_aux=ca, a=a, u0=u0, aux=aux))
        a, b, u0 = int(rng.integers(-3, 4)), int(rng.integers(-5, 6)), int(rng.integers(-9, 10))
        add(1402, [n, a, b, u0], lambda n=n, a=a, b=b, u0=u0: impl_repeat(n, a, b, u0), dict(fn="repeat", n=n, a=a, b=b, u0=u0))
    Tmax = 5 if ctx.quick else 8
    for T in range(1, Tmax + 1):
        trj = [int(x) for x in rng.integers(-99, 100, size=T)]
        for m in range(1, T + 3):
            add(1405, [m] + trj, lambda m=m, trj=trj: impl_stack(m, trj), dict(fn="stack_sub", sub_len=m, trj=trj))
        for T2 in (T, T + 1):
            l2 = [int(x) for x in rng.integers(-99, 100, size=T2)]
            for m in (1, T, T + 1):
                add(1407, [m, T] + trj + l2, lambda m=m, trj=trj, l2=l2: impl_stack_tree(m, trj, l2),
                    dict(fn="stack_sub_tree", sub_len=m, leaf1=trj, leaf2=l2))
    res = core.run_model(cases)
    for (mid, args), (impl, desc), mres in zip(cases, impls, res):
        ctx.case(desc, nontrivial=desc.get("n", 1) >= 1)
        ctx.count(desc["fn"])
        got = impl()
        exp = [int(x) for x in mres]
        # the pytree-stack model pads nothing: compare canonical flat lists
        if got != exp:
            ctx.disagree("c14:" + desc["fn"], desc, exp, got)


# ---------------------------------------------------------------------------------------------
# witness tests: the property on the real code
def t_rollout_loop(n, include_init, takes_aux, constant_aux, seed, aux_lead_n=False):
    """aux_lead_n: the constant aux is an array whose own leading axis has length n (it must still be held constant)"""
    import exponax as ex
    jnp = _jnp()
    rng = np.random.default_rng(seed)
    a, b = int(rng.integers(-3, 4)), int(rng.integers(-5, 6))
    w = n if (aux_lead_n and n >= 1) else 3
    u0 = jnp.asarray(rng.integers(-9, 10, size=(2, w)), dtype=jnp.int64)
    if takes_aux:
        aux = jnp.asarray(rng.integers(-9, 10, size=(w,) if constant_aux else (n, w)), dtype=jnp.int64)
        f = lambda u, x: a * u + x[::-1] + x.ndim        # not invariant under an extra leading axis of the aux (a step must see aux[i], not aux[i:i+1])
        got = ex.rollout(f, n, include_init=include_init, takes_aux=True, constant_aux=constant_aux)(u0, aux)
        last = ex.repeat(f, n, takes_aux=True, constant_aux=constant_aux)(u0, aux)
    else:
        f = lambda u: a * u + b
        got = ex.rollout(f, n, include_init=include_init)(u0)
        last = ex.repeat(f, n)(u0)
    exp, u = ([np.asarray(u0)] if include_init else []), u0
    for i in range(n):
        u = f(u, aux if constant_aux else aux[i]) if takes_aux else f(u)
        exp.append(np.asarray(u))
    exp = np.stack(exp) if exp else np.zeros((0, 2, w), dtype=np.int64)
    got = np.asarray(got)
    if got.shape != exp.shape or not np.array_equal(got, exp):
        return False, f"rollout differs from the naive loop: got shape {got.shape}, expected {exp.shape}"
    if not np.array_equal(np.asarray(last), np.asarray(u)):
        return False, "repeat differs from the n-fold application"
    return True, ""


def t_rollout_dtypes(n, include_init, takes_aux, seed):
    """pytree state whose leaves have different dtypes (int32, int64 beyond 2^53, float32, complex64, complex128 with imaginary parts):
    every leaf of the trajectory keeps its dtype and equals the naive loop exactly (the spectral steppers roll out complex states)"""
    import exponax as ex
    jnp = _jnp()
    rng = np.random.default_rng(seed)
    u0 = {"i32": jnp.asarray(rng.integers(-9, 10, size=(3,)), dtype=jnp.int32),
          "i64": jnp.asarray(rng.integers(-9, 10, size=(2,)) + 2**60 + 1, dtype=jnp.int64),
          "f32": jnp.asarray(rng.standard_normal((2, 2)), dtype=jnp.float32),
          "c64": jnp.asarray(rng.standard_normal(3) + 1j * rng.standard_normal(3), dtype=jnp.complex64),
          "c128": (jnp.asarray(rng.standard_normal((1, 4)) + 1j * rng.standard_normal((1, 4)), dtype=jnp.complex128),)}
    step = lambda u: {"i32": u["i32"] * 2 - 1, "i64": u["i64"] + 3, "f32": u["f32"] * jnp.float32(0.5), "c64": u["c64"] * jnp.complex64(1j),
                      "c128": (u["c128"][0] * (0.5 - 0.25j),)}
    if takes_aux:
        aux = jnp.asarray(rng.integers(1, 5, size=(n,)), dtype=jnp.int32)
        f = lambda u, x: dict(step(u), i32=step(u)["i32"] + x)
        got = ex.rollout(f, n, include_init=include_init, takes_aux=True, constant_aux=False)(u0, aux)
        last = ex.repeat(f, n, takes_aux=True, constant_aux=False)(u0, aux)
    else:
        f = step
        got = ex.rollout(f, n, include_init=include_init)(u0)
        last = ex.repeat(f, n)(u0)
    import jax
    states, u = ([u0] if include_init else []), u0
    for i in range(n):
        u = f(u, aux[i]) if takes_aux else f(u)
        states.append(u)
    if jax.tree_util.tree_structure(got) != jax.tree_util.tree_structure(u0):
        return False, "the trajectory pytree has a different structure from the state"
    for (path, g), l0, lN, lL in zip(jax.tree_util.tree_flatten_with_path(got)[0], jax.tree_util.tree_leaves(u0), jax.tree_util.tree_leaves(u),
                                     jax.tree_util.tree_leaves(last)):
        key = jax.tree_util.keystr(path)
        exp = np.stack([np.asarray(jax.tree_util.tree_leaves(st)[[jax.tree_util.keystr(p) for p, _ in jax.tree_util.tree_flatten_with_path(st)[0]].index(key)])
                        for st in states]) if states else np.zeros((0,) + l0.shape, dtype=l0.dtype)
        if np.asarray(g).dtype != l0.dtype:
            return False, f"leaf {key}: trajectory dtype {np.asarray(g).dtype}, state dtype {l0.dtype}"
        if np.asarray(g).shape != exp.shape or not np.array_equal(np.asarray(g), exp):
            return False, f"leaf {key}: trajectory differs from the naive loop"
        if np.asarray(lL).dtype != l0.dtype or not np.array_equal(np.asarray(lL), np.asarray(lN)):
            return False, f"leaf {key}: repeat differs from the n-fold application"
    return True, ""


def t_windows(T, m, seed):
    import exponax as ex
    jnp = _jnp()
    rng = np.random.default_rng(seed)
    trj = {"a": jnp.asarray(rng.integers(-99, 100, size=(T, 2)), dtype=jnp.int64), "b": jnp.asarray(rng.integers(-99, 100, size=(T,)), dtype=jnp.int64)}
    try:
        r = ex.stack_sub_trajectories(trj, m)
    except ValueError:
        return (m > T), ("rejected an admissible window length" if m <= T else "")
    if m > T:
        return False, "accepted sub_len > T"
    for key in ("a", "b"):
        exp = np.stack([np.asarray(trj[key])[i:i + m] for i in range(T - m + 1)])
        if not np.array_equal(np.asarray(r[key]), exp):
            return False, f"windows of leaf {key} differ"
    return True, ""


def _mk(name, D, N, dt, order):
    import exponax as ex
    if name == "Burgers":
        return ex.stepper.Burgers(D, 3.0, N, dt, order=order)
    if name == "KdV":
        return ex.stepper.KortewegDeVries(D, 20.0, N, dt, order=order)
    if name == "Diffusion":
        return ex.stepper.Diffusion(D, 3.0, N, dt, diffusivity=0.05)
    if name == "Advection":
        return ex.stepper.Advection(D, 3.0, N, dt, velocity=0.7)
    if name == "KS":
        return ex.stepper.KuramotoSivashinsky(D, 30.0, N, dt, order=order)
    raise KeyError(name)


def _state(D, N, C, seed, nyquist_free):
    import exponax as ex
    jnp = _jnp()
    rng = np.random.default_rng(seed)
    u = rng.standard_normal((C,) + (N,) * D)
    if nyquist_free and N % 2 == 0:
        uh = np.fft.rfftn(u, axes=tuple(range(1, D + 1)))
        mask = np.asarray(ex.spectral.oddball_filter_mask(D, N))
        u = np.fft.irfftn(uh * mask, s=(N,) * D, axes=tuple(range(1, D + 1)))
    return jnp.asarray(u)


ODD_ORDER_LINEAR = {"KdV", "Advection"}   # odd-order linear terms: Nyquist-free states required on even grids


def t_repeated(name, D, N, order, n, seed):
    import exponax as ex
    s = _mk(name, D, N, 0.01, order)
    u = _state(D, N, s.num_channels, seed, nyquist_free=name in ODD_ORDER_LINEAR)
    r = ex.RepeatedStepper(s, n)
    got = np.asarray(r(u))
    exp = u
    for _ in range(n):
        exp = s(exp)
    if abs(r.dt - n * s.dt) > 1e-15 * n:
        return False, f"effective dt {r.dt} != n*dt"
    ok = core.close(got, np.asarray(exp), 1e-10)
    if not ok:
        return ok, f"RepeatedStepper differs from {n} manual steps by {np.max(np.abs(got-np.asarray(exp))):.3e}"
    # nested wrappers: m x n applications, effective dt m n dt; the forced wrapper around it injects m n dt f
    m = 2 if n != 2 else 3
    rr = ex.RepeatedStepper(r, m)
    exp2 = u
    for _ in range(m * n):
        exp2 = s(exp2)
    if abs(rr.dt - m * n * s.dt) > 1e-15 * m * n or abs(rr.dt - r.dt * m) > 1e-15 * m * n:
        return False, f"nested RepeatedStepper: effective dt {rr.dt}, expected {m * n * s.dt}"
    if not core.close(np.asarray(rr(u)), np.asarray(exp2), 1e-10):
        return False, f"nested RepeatedStepper differs from {m * n} manual steps"
    f = _state(D, N, s.num_channels, seed + 5, nyquist_free=name in ODD_ORDER_LINEAR)
    if not core.close(np.asarray(ex.ForcedStepper(rr)(u, f)), np.asarray(rr(u + rr.dt * f)), 1e-10):
        return False, "ForcedStepper around a nested RepeatedStepper does not inject dt_effective * f"
    return True, ""


def t_forced(name, D, N, order, seed):
    import exponax as ex
    jnp = _jnp()
    s = _mk(name, D, N, 0.02, order)
    u = _state(D, N, s.num_channels, seed, nyquist_free=False)
    f = _state(D, N, s.num_channels, seed + 1, nyquist_free=False)
    fs = ex.ForcedStepper(s)
    a = core.close(np.asarray(fs(u, jnp.zeros_like(u))), np.asarray(s(u)), 1e-12)
    b = core.close(np.asarray(fs(u, f)), np.asarray(s(u + s.dt * f)), 1e-12)
    uh, fh = ex.fft(u), ex.fft(f)
    c = core.close(np.asarray(fs.step_fourier(uh, fh)), np.asarray(s.step_fourier(uh + s.dt * fh)), 1e-12) and \
        core.close(np.asarray(fs.step(u, f)), np.asarray(s.step(u + s.dt * f)), 1e-12)
    # the forced stepper inside the trajectory utilities (forcing as per-step aux)
    fseq = jnp.stack([f, 0.5 * f, -f])
    got = np.asarray(ex.rollout(fs, 3, takes_aux=True, constant_aux=False)(u, fseq))
    cur, exp = u, []
    for i in range(3):
        cur = s(cur + s.dt * fseq[i]); exp.append(np.asarray(cur))
    d = core.close(got, np.stack(exp), 1e-11)
    ok = a and b and c and d
    return ok, ("" if ok else f"forced stepper: zero-forcing ok={a}, u+dt*f ok={b}, step/step_fourier ok={c}, rollout with a forcing trajectory ok={d}")


TESTS = dict(rollout_dtypes=t_rollout_dtypes, rollout_loop=t_rollout_loop, windows=t_windows, repeated=t_repeated, forced=t_forced)


def witness(ctx):
    nmax = 3 if ctx.quick and not ctx.deep else 7
    for n in range(0, nmax + 1):
        for inc, ta, ca in itertools.product((False, True), (False, True), (False, True)):
            if not ta and not ca:
                continue
            ctx.check("rollout_loop", dict(n=n, include_init=inc, takes_aux=ta, constant_aux=ca, seed=ctx.seed + n), nontrivial=n >= 1)
            if ta and ca and n >= 1:
                ctx.check("rollout_loop", dict(n=n, include_init=inc, takes_aux=ta, constant_aux=ca, seed=ctx.seed + n, aux_lead_n=True))
    for n in ((0, 2) if ctx.quick and not ctx.deep else (0, 1, 2, 5)):
        for inc, ta in itertools.product((False, True), (False, True)):
            ctx.check("rollout_dtypes", dict(n=n, include_init=inc, takes_aux=ta, seed=ctx.seed + n), nontrivial=n >= 1)
    for T in range(1, (4 if ctx.quick and not ctx.deep else 8) + 1):
        for m in range(1, T + 2):
            ctx.check("windows", dict(T=T, m=m, seed=ctx.seed + T))
    combos = [("Burgers", 1, 10, 2), ("KdV", 1, 12, 4), ("Diffusion", 2, 6, 0), ("Diffusion", 1, 8, 0)]
    if ctx.deep:
        combos += [("Burgers", 2, 8, 3), ("KS", 1, 16, 1), ("Advection", 1, 9, 0), ("KdV", 1, 11, 2), ("Advection", 3, 4, 0)]
    for name, D, N, order in combos:
        for n in ((1, 3) if not ctx.deep else (1, 2, 5)):
            ctx.check("repeated", dict(name=name, D=D, N=N, order=order, n=n, seed=ctx.seed))
        ctx.check("forced", dict(name=name, D=D, N=N, order=order, seed=ctx.seed))
