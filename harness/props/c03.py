"""C03 — nonlinear terms equal the alias-free projection of the documented operator."""
import itertools
from fractions import Fraction

import numpy as np

from .. import core
from ..translate import nonlin as tr_nonlin
from ..translate import dealias as tr_dealias

ID = "C03"
PROPS_FILE = "C03"
RULE = ("translator: every __call__ under exponax/nonlin_fun and the private nonlinear functions of exponax/stepper/reaction (with the helper methods, BaseNonlinearFun.fft / ifft / dealias and "
        "the constructor statements they read) are re-translated to Gen/NonlinFuns.v in the vocabulary of Nonlin/Terms.v and proved equal to the hand-written terms for all arguments, states and modes "
        "(Tie/NonlinTie.v, C03_code_terms_are_model_terms); correspondence: every built-in nonlinear term (4 convection forms, gradient norm with/without mean fix, polynomial up to degree 3, general nonlinear, 2D vorticity convection, "
        "3D projected convection, Leray, Cahn-Hilliard, Gray-Scott) evaluated by exponax on the rfft of a random real state vs the extracted model (circular convolutions over the retained band "
        "in exact Gaussian-rational arithmetic on the same float coefficients), all retained modes compared and out-of-band output required to vanish; the dealiasing mask vs the rational cutoff "
        "K(N) for N = 3..200; witness: independent NumPy fine-grid (4N, no aliasing) evaluation of the documented operator. N ranges cover all residues mod 12. "
        "Non-trivial: states with content up to Nyquist; distinct by input hash.")
TRUSTED_EXTRA = ["harness/translate/nonlin.py (values as polynomials in inverse transforms of masked spectra; base-class fft / ifft / dealias inlined) and harness/translate/dealias.py (cutoff of the mask; floor of the exact product)"]
ASSUMPTIONS = ["rfftn(irfftn U * irfftn V) = N^-D circular convolution (convolution theorem; proved per axis, iterated by the D-dim transform)",
               "polynomial terms of degree > 3 are not modelled",
               "translator contracts (properties of rfftn / irfftn, see harness/translate/nonlin.py): rfftn is linear, rfftn(1) = N^D at the mean mode, rfftn(irfftn(M x)) = M x, "
               "the mean of a field is its mean-mode coefficient / N^D; the single-channel helpers of ConvectionNonlinearFun act on a one-channel state; the state carries a dealiasing mask"]
FRACS = {"2/3": (2, 3, 2 / 3), "1/2": (1, 2, 1 / 2)}


def translate(ctx):
    """Gen/NonlinFuns.v: the nonlinear functions re-translated from the source (tied to Nonlin/Terms.v by Tie/NonlinTie.v and the
    theorem C03_code_terms_are_model_terms) and Gen/DealiasGen.v (the cutoff of the dealiasing mask, theorem
    C03_code_cutoff_is_model_cutoff); on failure a file is replaced by a stub, so that the proof cannot use a stale text; both are
    always attempted"""
    errors = []
    for name, tr in (("nonlin", tr_nonlin), ("dealias", tr_dealias)):
        try:
            tr.run()
        except Exception as e:
            errors.append(f"{name}: {type(e).__name__}: {e}")
    if errors:
        raise RuntimeError("; ".join(errors))


def _ex():
    import jax
    jax.config.update("jax_enable_x64", True)
    import jax.numpy as jnp
    import exponax as ex
    return ex, jnp


def Kof(p, q, N):
    """retained band of the code: floor of the documented cutoff frac*(N//2) - 1 evaluated in double precision (as the constructor does)"""
    import math
    frac = p / q
    return math.floor(frac * ((N // 2 + 1) - 1) - 1)


def Krat(p, q, N):
    return (p * (N // 2)) // q - 1


def make_term(name, D, N, L, frac, prm):
    """(exponax nonlinear function, model term id, model parameter list, number of channels)"""
    ex, jnp = _ex()
    nf = ex.nonlin_fun
    dop = ex.spectral.build_derivative_operator(D, L, N)
    kw = dict(derivative_operator=dop, dealiasing_fraction=frac)
    b = prm["b"]
    if name == "conv_mc_cons":
        return nf.ConvectionNonlinearFun(D, N, scale=b, conservative=True, **kw), 1, [b], D
    if name == "conv_mc_noncons":
        return nf.ConvectionNonlinearFun(D, N, scale=b, **kw), 2, [b], D
    if name == "conv_sc_cons":
        return nf.ConvectionNonlinearFun(D, N, scale=b, single_channel=True, conservative=True, **kw), 3, [b], 1
    if name == "conv_sc_noncons":
        return nf.ConvectionNonlinearFun(D, N, scale=b, single_channel=True, **kw), 4, [b], 1
    if name in ("gradient_norm", "gradient_norm_nofix"):
        zf = name == "gradient_norm"
        return nf.GradientNormNonlinearFun(D, N, scale=b, zero_mode_fix=zf, **kw), 5, [b, zf], 1
    if name == "polynomial":
        c = prm["c"]
        return nf.PolynomialNonlinearFun(D, N, dealiasing_fraction=frac, coefficients=tuple(c)), 6, list(c), 1
    if name == "general_nonlinear":
        bl = prm["bl"]
        return nf.GeneralNonlinearFun(D, N, scale_list=tuple(bl), zero_mode_fix=True, **kw), 7, list(bl) + [True], 1
    if name == "vorticity_conv":
        return nf.VorticityConvection2d(D, N, convection_scale=b, **kw), 8, [b], 1
    if name == "projected_conv":
        return nf.ProjectedConvection3d(D, N, **kw), 9, [], 3
    if name == "cahn_hilliard":
        from exponax.stepper.reaction._cahn_hilliard import CahnHilliardNonlinearFun
        return CahnHilliardNonlinearFun(D, N, scale=b, **kw), 10, [b], 1
    if name == "gray_scott":
        from exponax.stepper.reaction._gray_scott import GrayScottNonlinearFun
        return GrayScottNonlinearFun(D, N, feed_rate=prm["f"], kill_rate=prm["k"], dealiasing_fraction=frac), 11, [prm["f"], prm["k"]], 2
    if name == "leray":
        return nf.Leray(D, N, derivative_operator=dop), 12, [], D
    raise KeyError(name)


QUAD = ["conv_mc_cons", "conv_mc_noncons", "conv_sc_cons", "conv_sc_noncons", "gradient_norm", "gradient_norm_nofix", "general_nonlinear"]
CUBIC = ["polynomial", "cahn_hilliard", "gray_scott"]


def terms_for(D):
    t = list(QUAD) + list(CUBIC)
    if D == 2:
        t.append("vorticity_conv")
    if D == 3:
        t.append("projected_conv")
    return t


def band_list(D, K):
    return list(itertools.product(range(-K, K + 1), repeat=D))


def run_case(name, D, N, fkey, seed, q=Fraction(3, 4)):
    """returns (model args, implementation values on the stored band modes, max |out-of-band|, band with k_last >= 0)"""
    ex, jnp = _ex()
    p, qq, frac = FRACS[fkey]
    rng = np.random.default_rng(seed)
    L = 2 * np.pi * float(q)
    prm = dict(b=float(rng.integers(-12, 13)) / 8 or 0.5, c=[float(x) / 4 for x in rng.integers(-4, 5, 4)],
               bl=[float(x) / 4 for x in rng.integers(-4, 5, 3)], f=0.375, k=0.5)
    fun, tid, params, C = make_term(name, D, N, L, frac, prm)
    u = rng.standard_normal((C,) + (N,) * D)
    u_hat = ex.fft(jnp.asarray(u))
    out = np.asarray(fun(u_hat))
    full = np.fft.fftn(u, axes=tuple(range(1, D + 1)))
    K = Kof(p, qq, N) if name != "leray" else (N - 1) // 2
    band = band_list(D, K) if K >= 0 else []
    args = [tid, D, N, K, 0]          # Leray has no mask: K = (N-1)//2 (all non-Nyquist modes)
    args += [Fraction(1) / q, len(params)] + params + [C]
    for c in range(C):
        for k in band:
            v = full[(c,) + tuple(kk % N for kk in k)]
            args += [v.real, v.imag]
    stored = [k for k in band if k[-1] >= 0]
    impl = np.asarray([[out[(c,) + tuple(k[i] % N if i < D - 1 else k[i] for i in range(D))] for k in band] if False else
                       [out[(c,) + tuple(kk % N if i < D - 1 else kk for i, kk in enumerate(k))] for k in stored] for c in range(out.shape[0])])
    # out-of-band output must vanish (terms with a mask)
    oob = 0.0
    if name != "leray":
        mask = np.ones(out.shape[1:], dtype=bool)
        for k in stored:
            mask[tuple(kk % N if i < D - 1 else kk for i, kk in enumerate(k))] = False
        oob = float(np.max(np.abs(out[:, mask]))) if mask.any() else 0.0
    return args, impl, oob, band, stored, out.shape[0]


def correspond(ctx):
    ex, jnp = _ex()
    # (a) the mask array: exactly the band |k| <= K_float, where K_float = floor(frac*(N//2) - 1) in double precision, and
    #     K_float <= K(N) = floor(p*(N//2)/q) - 1 of the model (the premise 3K < N / 4K < N of the alias-free theorems)
    cases, meta = [], []
    for fkey, (p, q, frac) in FRACS.items():
        for N in (list(range(3, 60)) + [98, 103, 107] if ctx.quick else range(3, 260)):
            nl = ex.nonlin_fun.PolynomialNonlinearFun(1, N, dealiasing_fraction=frac, coefficients=(0.0, 1.0))
            m = np.asarray(nl.dealiasing_mask)[0]
            cases.append((408, [p, q, N, 0])); meta.append((dict(suite="mask", frac=fkey, N=N), m))
    for (desc, m), mres in zip(meta, core.run_model(cases)):
        ctx.case(desc)
        ctx.count("mask")
        N = desc["N"]; p, q, _ = FRACS[desc["frac"]]
        Kr, Kf = int(mres[1]), Kof(p, q, N)
        exp = np.arange(N // 2 + 1) <= Kf
        if not np.array_equal(m, exp) or not (Kr - 1 <= Kf <= Kr):
            ctx.disagree("c03:dealiasing_mask", desc, f"band |k| <= {Kf} (rational cutoff {Kr})", f"retained {np.nonzero(m)[0].tolist()[-3:]}")
    # (b) the terms
    if ctx.quick:
        grid = [(1, n) for n in (6, 9, 12, 13, 16, 23)] + [(2, n) for n in (6, 8, 9)] + [(3, 6)]
    else:
        grid = [(1, n) for n in range(3, 28)] + [(2, n) for n in range(3, 15)] + [(3, n) for n in range(3, 9)]
    cases, meta = [], []
    for D, N in grid:
        for name in terms_for(D) + (["leray"] if D >= 2 and N <= 8 else []):
            for fkey in (("2/3", "1/2") if name not in ("leray",) else ("2/3",)):
                if name in CUBIC and fkey == "2/3":
                    continue                      # cubic terms are documented (and configured) with the 1/2 rule
                if ctx.quick and name in QUAD and fkey == "1/2" and (N % 3):
                    continue
                p, q, _ = FRACS[fkey]
                K = Kof(p, q, N)
                if name != "leray" and K < 0:
                    continue
                if name != "leray" and (2 * K + 1) ** D > (150 if name in CUBIC else 400):
                    continue                       # keep the exact-rational sums small
                seed = ctx.seed * 7919 + 31 * N + 7 * D + len(name)
                args, impl, oob, band, stored, nout = run_case(name, D, N, fkey, seed)
                cases.append((301, args))
                meta.append((dict(suite="term", term=name, D=D, N=N, frac=fkey, seed=seed), impl, oob, band, stored, nout))
    res = core.run_model(cases)
    for (desc, impl, oob, band, stored, nout), mres in zip(meta, res):
        ctx.case(desc)
        ctx.count("term_" + desc["term"])
        m = np.asarray(core.to_cx(mres)).reshape(nout, len(band)) if band else np.zeros((nout, 0))
        sel = [i for i, k in enumerate(band) if k[-1] >= 0]
        m = m[:, sel]
        scale = 1 + (np.max(np.abs(m)) if m.size else 0)
        if m.shape != impl.shape or (m.size and np.max(np.abs(m - impl)) > 1e-10 * scale) or oob > 1e-10 * scale:
            ctx.disagree("c03:" + desc["term"], desc, f"max|model|={scale-1:.3e}", f"max|diff|={np.max(np.abs(m-impl)) if m.shape==impl.shape and m.size else 'shape'} out-of-band={oob:.2e}")


# ------------------------------------------------------------------------------------------------------
# independent fine-grid oracle for the documented operators
def fine(u_hat_full, N, M, D):
    """zero-pad the full spectrum (fftn layout, C x N^D) to an M-grid and return the physical field on the fine grid"""
    C = u_hat_full.shape[0]
    big = np.zeros((C,) + (M,) * D, dtype=complex)
    for idx in itertools.product(range(N), repeat=D):
        k = [i if i <= (N - 1) // 2 else i - N for i in idx]
        if N % 2 == 0 and any(kk == -N // 2 for kk in k):
            continue
        big[(slice(None),) + tuple(kk % M for kk in k)] = u_hat_full[(slice(None),) + idx]
    return np.real(np.fft.ifftn(big, axes=tuple(range(1, D + 1)))) * (M / N) ** D


def coarse(f, N, D):
    """spectrum of the fine-grid field f restricted to the N-grid rfft layout (scaled like rfftn on N points)"""
    M = f.shape[-1]
    fh = np.fft.fftn(f, axes=tuple(range(1, D + 1))) * (N / M) ** D
    out = np.zeros((f.shape[0],) + (N,) * (D - 1) + (N // 2 + 1,), dtype=complex)
    for idx in itertools.product(*[range(s) for s in out.shape[1:]]):
        k = [(i if i <= (N - 1) // 2 else i - N) if a < D - 1 else i for a, i in enumerate(idx)]
        out[(slice(None),) + idx] = fh[(slice(None),) + tuple(kk % M for kk in k)]
    return out


def grad(f, L, D, order=1):
    """spectral partial derivatives of a fine-grid field f (C, M..): returns (C, D, M..)"""
    M = f.shape[-1]
    fh = np.fft.fftn(f, axes=tuple(range(1, D + 1)))
    ks = np.fft.fftfreq(M, 1 / M) * 2 * np.pi / L
    out = []
    for c in range(D):
        shp = [1] * (D + 1); shp[c + 1] = M
        out.append(np.real(np.fft.ifftn(fh * (1j * ks.reshape(shp)) ** order, axes=tuple(range(1, D + 1)))))
    return np.stack(out, axis=1)


def doc_operator(name, u, L, D, prm):
    """documented right-hand side evaluated pointwise on the fine grid (u: (C, M..))"""
    b = prm["b"]
    if name == "conv_mc_cons":
        outer = u[:, None] * u[None, :]
        return -b * 0.5 * np.stack([sum(grad(outer[i, j][None], L, D)[0, j] for j in range(D)) for i in range(D)])
    if name == "conv_mc_noncons":
        g = grad(u, L, D)
        return -b * np.stack([sum(u[j] * g[i, j] for j in range(D)) for i in range(D)])
    if name == "conv_sc_cons":
        return -b * 0.5 * np.sum(grad(u * u, L, D)[0], axis=0)[None]
    if name == "conv_sc_noncons":
        return -b * (u[0] * np.sum(grad(u, L, D)[0], axis=0))[None]
    if name in ("gradient_norm", "gradient_norm_nofix"):
        g = np.sum(grad(u, L, D)[0] ** 2, axis=0)
        if name == "gradient_norm":
            g = g - np.mean(g)
        return -b * 0.5 * g[None]
    if name == "polynomial":
        c = prm["c"]
        return sum(cp * u**p for p, cp in enumerate(c))
    if name == "general_nonlinear":
        b0, b1, b2 = prm["bl"]
        g = np.sum(grad(u, L, D)[0] ** 2, axis=0); g = g - np.mean(g)
        return (b0 * u[0] ** 2 + b1 * 0.5 * np.sum(grad(u * u, L, D)[0], axis=0) + b2 * 0.5 * g)[None]
    if name == "cahn_hilliard":
        return b * np.sum(grad(u**3, L, D, order=2)[0], axis=0)[None]
    if name == "gray_scott":
        f, k = prm["f"], prm["k"]
        return np.stack([f * (1 - u[0]) - u[0] * u[1] ** 2, -(f + k) * u[1] + u[0] * u[1] ** 2])
    if name == "vorticity_conv":
        M = u.shape[-1]
        wh = np.fft.fftn(u[0])
        ks = np.fft.fftfreq(M, 1 / M) * 2 * np.pi / L
        kx, ky = np.meshgrid(ks, ks, indexing="ij")
        lap = -(kx**2 + ky**2)
        psi_h = np.where(lap == 0, 0, wh / np.where(lap == 0, 1, lap))
        ux = np.real(np.fft.ifftn(1j * ky * psi_h)); uy = np.real(np.fft.ifftn(-1j * kx * psi_h))
        g = grad(u, L, D)[0]
        return -b * (ux * g[0] + uy * g[1])[None]
    if name == "projected_conv":
        g = grad(u, L, D)      # g[i, j] = d_j u_i
        w = np.stack([g[2, 1] - g[1, 2], g[0, 2] - g[2, 0], g[1, 0] - g[0, 1]])
        c = np.stack([u[1] * w[2] - u[2] * w[1], u[2] * w[0] - u[0] * w[2], u[0] * w[1] - u[1] * w[0]])
        M = u.shape[-1]
        ch = np.fft.fftn(c, axes=(1, 2, 3))
        ks = np.fft.fftfreq(M, 1 / M) * 2 * np.pi / L
        kv = np.stack(np.meshgrid(ks, ks, ks, indexing="ij"))
        k2 = np.sum(kv**2, axis=0); k2s = np.where(k2 == 0, 1, k2)
        ch = ch - kv * (np.sum(kv * ch, axis=0) / k2s)[None] * (k2 != 0)
        return np.real(np.fft.ifftn(ch, axes=(1, 2, 3)))
    raise KeyError(name)


def t_fine_grid(term, D, N, frac, seed, L=2.3):
    """L: domain extent (very large / very small extents make the derivative symbols tiny / huge: guards with absolute tolerances and
    precision losses show there; the deviation is then measured relative to the size of the oracle)"""
    ex, jnp = _ex()
    p, qq, fr = FRACS[frac]
    rng = np.random.default_rng(seed)
    prm = dict(b=1.25, c=[0.25, -0.5, 0.75, -1.0], bl=[0.5, -0.75, 0.25], f=0.375, k=0.5)
    fun, _, _, C = make_term(term, D, N, L, fr, prm)
    u = rng.standard_normal((C,) + (N,) * D)
    out = np.asarray(fun(ex.fft(jnp.asarray(u))))
    mask = np.asarray(fun.dealiasing_mask)
    # band-truncated state, by the library's own mask, extended to the full spectrum
    K = int(np.max(np.where(mask[0].reshape(-1, mask.shape[-1])[0], np.arange(mask.shape[-1]), -1)))
    full = np.fft.fftn(u, axes=tuple(range(1, D + 1)))
    keep = np.ones((N,) * D, dtype=bool)
    for a in range(D):
        kk = np.abs(np.fft.fftfreq(N, 1 / N)); shp = [1] * D; shp[a] = N
        keep = keep & (kk.reshape(shp) <= K)
    full = full * keep
    M = 4 * N
    uf = fine(full, N, M, D)
    of = doc_operator(term, uf, L, D, prm)
    oracle = coarse(of, N, D) * mask
    ref = np.max(np.abs(oracle))
    err = np.max(np.abs(out - oracle)) / ((1 + ref) if L == 2.3 else max(ref, 1e-300))
    return err < (1e-10 if L == 2.3 else 1e-9), f"{term} D={D} N={N} frac={frac} (K={K}) L={L}: deviation from the alias-free documented operator {err:.3e}"


TESTS = dict(fine_grid=t_fine_grid)


def witness(ctx):
    deep = ctx.deep
    # extreme domain extents for the terms with derivatives / inverse Laplacians
    for L in (1e6, 1e-4) + ((6.3e4, 1e3) if deep else ()):
        for term, D, N in (("projected_conv", 3, 6), ("vorticity_conv", 2, 8), ("conv_mc_noncons", 2, 8), ("gradient_norm", 1, 12)) + ((("conv_sc_cons", 3, 6),) if deep else ()):
            ctx.check("fine_grid", dict(term=term, D=D, N=N, frac="2/3", seed=ctx.seed + N, L=L))
    g1 = range(4, 28) if deep else (6, 8, 12, 16, 18, 24, 13, 21)
    g2 = range(4, 14) if deep else (6, 8, 12, 9)
    g3 = (4, 6, 8) if deep else (6,)
    for D, Ns in ((1, g1), (2, g2), (3, g3)):
        for N in Ns:
            for term in terms_for(D):
                frac = "1/2" if term in CUBIC else "2/3"
                p, q, _ = FRACS[frac]
                if Kof(p, q, N) < 1:
                    continue
                ctx.check("fine_grid", dict(term=term, D=D, N=N, frac=frac, seed=ctx.seed + N))
                if term in ("general_nonlinear", "conv_mc_cons", "gradient_norm") and Kof(1, 2, N) >= 1 and (deep or N % 4 == 0):
                    ctx.check("fine_grid", dict(term=term, D=D, N=N, frac="1/2", seed=ctx.seed + N))
