"""C09 — conserved quantities and equilibria survive the discretisation exactly."""
import numpy as np

from .. import core, symbols
from ..translate import etdrk as tr_etdrk
from ..translate import nonlin as tr_nonlin

ID = "C09"
PROPS_FILE = "C09"
RULE = ("correspondence: the linear operator of every conservation-form class at the mean mode vs the extracted symbol model (exact), and the mean-mode coefficient of the conservation-form "
        "nonlinear terms vs the extracted term model (shared with C01/C03 suites: every stored mode is compared there); witness on the real code: mean of each channel unchanged after 1 and 3 steps for "
        "all listed steppers x orders 1-4 x D x odd/even N with white-noise states (3D velocity steppers: divergence-free states), work of the convective terms on band-limited states "
        "(energy for Burgers-type and 3D rotational convection, energy and enstrophy for 2D vorticity convection) vanishes, constant equilibria of reaction/convection steppers are fixed points. "
        "Non-trivial: non-constant random states; distinct by input hash.")
TRUSTED_EXTRA = ["harness/translate/etdrk.py (stage programs) and harness/translate/nonlin.py (the nonlinear terms whose zero mean is proved for the source text)"]
ASSUMPTIONS = ["energy/enstrophy neutrality and the mean of the non-conservative/vorticity/rotational forms are checked on the real code only (not proved)",
               "fixed points: growth*dt bounded (dt = 0.1) so that rounding is not amplified"]


def translate(ctx):
    """Gen/ETDRK.v (stage programs) and Gen/NonlinFuns.v (the nonlinear terms of the source, theorem C09_code_terms_have_zero_mean through
    Tie/NonlinTie.v); both are always attempted"""
    errors = []
    for name, tr in (("etdrk", tr_etdrk), ("nonlin", tr_nonlin)):
        try:
            tr.run()
        except Exception as e:
            errors.append(f"{name}: {type(e).__name__}: {e}")
    if errors:
        raise RuntimeError("; ".join(errors))


def _ex():
    import jax
    jax.config.update("jax_enable_x64", True)
    import jax.numpy as jnp
    import exponax as ex
    return ex, jnp


def correspond(ctx):
    ex, jnp = _ex()
    from fractions import Fraction
    # symbols at the mean mode (and everywhere) for all classes: the same exact suite as C01, on one grid per dimension
    for D, N in ([(1, 6), (2, 4)] if ctx.quick else [(1, 6), (1, 7), (2, 4), (2, 5), (3, 3)]):
        symbols.compare(ctx, D, N, Fraction(7, 4), "c09", full=True)


def listed(D):
    """(name, constructor kwargs, needs divergence-free state) of the conservation-form steppers named in the property"""
    ex, jnp = _ex()
    S, R = ex.stepper, ex.stepper.reaction
    out = [("Advection", lambda N, o: S.Advection(D, 3.0, N, 0.1, velocity=0.7), False),
           ("Diffusion", lambda N, o: S.Diffusion(D, 3.0, N, 0.1, diffusivity=0.05), False),
           ("Dispersion", lambda N, o: S.Dispersion(D, 3.0, N, 0.1, dispersivity=0.2), False),
           ("HyperDiffusion", lambda N, o: S.HyperDiffusion(D, 3.0, N, 0.1, hyper_diffusivity=0.002), False),
           ("Burgers(conservative)", lambda N, o: S.Burgers(D, 3.0, N, 0.05, conservative=True, order=o), False),
           ("Burgers(single_channel)", lambda N, o: S.Burgers(D, 3.0, N, 0.05, single_channel=True, order=o), False),
           ("Burgers(single_channel,conservative)", lambda N, o: S.Burgers(D, 3.0, N, 0.05, single_channel=True, conservative=True, order=o), False),
           ("KortewegDeVries(conservative)", lambda N, o: S.KortewegDeVries(D, 10.0, N, 0.02, conservative=True, order=o), False),
           ("KortewegDeVries(single_channel)", lambda N, o: S.KortewegDeVries(D, 10.0, N, 0.02, single_channel=True, order=o), False),
           ("KuramotoSivashinsky", lambda N, o: S.KuramotoSivashinsky(D, 20.0, N, 0.05, order=o), False),
           ("CahnHilliard", lambda N, o: R.CahnHilliard(D, 5.0, N, 0.01, order=o), False)]
    if D == 1:
        out += [("Burgers(1D)", lambda N, o: S.Burgers(1, 3.0, N, 0.05, order=o), False),
                ("KortewegDeVries(1D)", lambda N, o: S.KortewegDeVries(1, 10.0, N, 0.02, order=o), False),
                ("KuramotoSivashinskyConservative(1D)", lambda N, o: S.KuramotoSivashinskyConservative(1, 20.0, N, 0.05, order=o), False)]
    if D == 2:
        out += [("NavierStokesVorticity", lambda N, o: S.NavierStokesVorticity(2, 3.0, N, 0.05, order=o), False),
                ("KortewegDeVries(2D,conservative,multi)", lambda N, o: S.KortewegDeVries(2, 10.0, N, 0.02, conservative=True, single_channel=False, order=o), False)]
    if D == 3:
        out += [("NavierStokesVelocity", lambda N, o: S.NavierStokesVelocity(3, 3.0, N, 0.05, order=o), True)]
    return out


def t_mean(name, D, N, order, steps, seed):
    ex, jnp = _ex()
    rng = np.random.default_rng(seed)
    mk = dict((n, (f, df)) for n, f, df in listed(D))[name]
    s = mk[0](N, order)
    u = rng.standard_normal((s.num_channels,) + (N,) * D) * 0.5 + rng.standard_normal((s.num_channels,) + (1,) * D)
    if mk[1]:
        from .c10 import nyqfree
        u = np.asarray(ex.spectral.make_incompressible(jnp.asarray(nyqfree(u, D, N)))) + rng.standard_normal((s.num_channels,) + (1,) * D)
    u = jnp.asarray(u)
    m0 = np.mean(np.asarray(u), axis=tuple(range(1, D + 1)))
    v = u
    for _ in range(steps):
        v = s(v)
    m1 = np.mean(np.asarray(v), axis=tuple(range(1, D + 1)))
    drift = float(np.max(np.abs(m1 - m0)))
    return drift < 1e-12 * (1 + float(np.max(np.abs(np.asarray(u))))) * steps * 10, f"{name} D={D} N={N} order={order}: mean drift {drift:.2e} after {steps} steps"


def t_work(kind, D, N, seed, L=2.7):
    """<u, N(u)> = 0 on band-limited states (energy), and <psi, N(w)> = <w, N(w)> = 0 for the 2D vorticity form"""
    ex, jnp = _ex()
    rng = np.random.default_rng(seed)
    dop = ex.spectral.build_derivative_operator(D, L, N)
    nf = ex.nonlin_fun
    if kind in ("conv_cons", "conv_noncons"):
        C = D
        fun = nf.ConvectionNonlinearFun(D, N, derivative_operator=dop, conservative=(kind == "conv_cons"), scale=1.3)
    elif kind in ("conv_sc_cons", "conv_sc_noncons"):
        C = 1
        fun = nf.ConvectionNonlinearFun(D, N, derivative_operator=dop, single_channel=True, conservative=(kind == "conv_sc_cons"), scale=1.3)
    elif kind == "vorticity":
        C = 1
        fun = nf.VorticityConvection2d(2, N, derivative_operator=dop, dealiasing_fraction=2 / 3)
    else:
        C = 3
        fun = nf.ProjectedConvection3d(3, N, derivative_operator=dop, dealiasing_fraction=2 / 3)
    mask = np.asarray(fun.dealiasing_mask)
    uh = np.asarray(ex.fft(jnp.asarray(rng.standard_normal((C,) + (N,) * D)))) * mask
    if kind == "projected":
        uh = np.asarray(nf.Leray(3, N, derivative_operator=dop)(jnp.asarray(uh)))      # divergence-free state
    u = np.asarray(ex.ifft(jnp.asarray(uh), num_spatial_dims=D, num_points=N))
    out = np.asarray(ex.ifft(fun(jnp.asarray(uh)), num_spatial_dims=D, num_points=N))
    scale = np.sum(u * u) * np.sqrt(np.sum(out * out) / max(np.sum(u * u), 1e-300)) + 1e-300
    if kind in ("conv_noncons",) and D > 1:
        return True, "multi-channel non-conservative convection is not energy neutral for compressible fields (not claimed)"
    if kind == "conv_cons" and D > 1:
        return True, "energy neutrality of the multi-channel Burgers-type convection is claimed in 1D"
    w1 = abs(np.sum(u * out)) / scale
    ok = w1 < 1e-10
    det = f"{kind} D={D} N={N} L={L}: relative work {w1:.2e}"
    if kind == "vorticity":
        lap = np.sum(np.asarray(dop) ** 2, axis=0)
        psi_h = np.where(lap == 0, 0, uh[0] / np.where(lap == 0, 1, lap))
        psi = np.asarray(ex.ifft(jnp.asarray(psi_h[None]), num_spatial_dims=2, num_points=N))
        w2 = abs(np.sum(psi * out)) / (np.sqrt(np.sum(psi * psi) * np.sum(out * out)) + 1e-300)
        ok = ok and w2 < 1e-10
        det += f", relative energy work {w2:.2e}"
    return ok, det


def t_fixed_point(name, D, N, order, ustar):
    ex, jnp = _ex()
    S, R = ex.stepper, ex.stepper.reaction
    L, dt = 3.0, 0.1
    s = {"FisherKPP": lambda: R.FisherKPP(D, L, N, dt, order=order), "AllenCahn": lambda: R.AllenCahn(D, L, N, dt, order=order),
         "Burgers": lambda: S.Burgers(D, L, N, dt, order=order), "CahnHilliard": lambda: R.CahnHilliard(D, L, N, dt, order=order),
         "KortewegDeVries": lambda: S.KortewegDeVries(D, L, N, dt, order=order), "KuramotoSivashinsky": lambda: S.KuramotoSivashinsky(D, L, N, dt, order=order),
         "SwiftHohenberg": lambda: R.SwiftHohenberg(D, L, N, dt, order=order), "NavierStokesVorticity": lambda: S.NavierStokesVorticity(2, L, N, dt, order=order)}[name]()
    u = jnp.ones((s.num_channels,) + (N,) * s.num_spatial_dims) * ustar
    out = u
    for _ in range(3):
        out = s(out)
    e = float(np.max(np.abs(np.asarray(out) - np.asarray(u))))
    return e < 1e-10, f"{name} D={D} N={N} order={order}: constant state {ustar} moved by {e:.2e} in 3 steps"


def t_fixed_point_reaction(which, D, N, order):
    """non-trivial constant equilibria of reaction steppers with NON-default parameters, computed from the documented equations:
    Swift-Hohenberg u_t = r u - (k + Lap)^2 u + u^2 - u^3 with k != 1: (r - k^2) u + u^2 - u^3 = 0;
    Gray-Scott u_t = -u v^2 + f (1 - u), v_t = u v^2 - (f + k) v: (u, v) = (0.5, 0.2) for f = 0.04, k = 0.06, (0.7179.., 0.1254..) for f = 0.04, k = 0.05"""
    ex, jnp = _ex()
    R = ex.stepper.reaction
    L, dt = 3.0, 0.1
    if which.startswith("swift_hohenberg"):
        r, k = (0.7, 0.8) if which.endswith("a") else (0.9, 1.2)
        s = R.SwiftHohenberg(D, L, N, dt, reactivity=r, critical_number=k, order=order)
        us = [(1 + np.sqrt(1 + 4 * (r - k * k))) / 2] if 1 + 4 * (r - k * k) >= 0 else [0.0]
        u = jnp.ones((1,) + (N,) * D) * us[0]
    else:
        f, k = (0.04, 0.06) if which.endswith("a") else (0.04, 0.05)
        # v (f + k) = u v^2 -> u v = f + k;  f (1 - u) = u v^2 = (f + k) v -> u = 1 - (f + k) v / f;  v from the quadratic
        a, b, c = (f + k) / f, -1.0, (f + k)
        v = (-b - np.sqrt(b * b - 4 * a * c)) / (2 * a) if which.endswith("b") else 0.2
        uu = (f + k) / v
        s = R.GrayScott(D, L, N, dt, feed_rate=f, kill_rate=k, order=order)
        u = jnp.stack([jnp.ones((N,) * D) * uu, jnp.ones((N,) * D) * v])
    out = u
    for _ in range(3):
        out = s(out)
    e = float(np.max(np.abs(np.asarray(out) - np.asarray(u))))
    return e < 1e-10, f"{which} D={D} N={N} order={order}: constant equilibrium {[float(x) for x in np.asarray(u).reshape(u.shape[0], -1)[:, 0]]} moved by {e:.2e} in 3 steps"


def t_fixed_point_poly(D, N, order, ustar, z0=-0.02, radius=1.0):
    """generic polynomial reaction with a non-zero constant term: D a0 u + c0 + c1 u + c2 u^2 = 0 at the constant state ustar;
    z0 = D a0 dt is the value of lambda dt at the mean mode (z0 = -1, +1 put it ON the default contour circle: the half-shifted contour
    points must not hit it), radius a non-default circle_radius of the contour"""
    ex, jnp = _ex()
    import exponax.stepper.generic as G
    dt = 0.1
    a0, c1, c2 = z0 / (D * dt), 0.3, -1.0
    c0 = -(D * a0 * ustar + c1 * ustar + c2 * ustar**2)
    s = G.GeneralPolynomialStepper(D, 3.0, N, dt, linear_coefficients=(a0, 0.0, 0.02), polynomial_coefficients=(c0, c1, c2), order=order, circle_radius=radius)
    u = jnp.ones((1,) + (N,) * D) * ustar
    out = u
    for _ in range(3):
        out = s(out)
    e = float(np.max(np.abs(np.asarray(out) - np.asarray(u)))) if bool(jnp.all(jnp.isfinite(out))) else float("inf")
    return e < 1e-10, f"GeneralPolynomialStepper D={D} N={N} order={order} c0={c0:.3f} lambda_0 dt={z0} circle_radius={radius}: constant equilibrium {ustar} moved by {e:.2e} in 3 steps"


TESTS = dict(mean=t_mean, work=t_work, fixed_point=t_fixed_point, fixed_point_poly=t_fixed_point_poly, fixed_point_reaction=t_fixed_point_reaction)


def witness(ctx):
    deep = ctx.deep
    for D in (1, 2, 3):
        Ns = {1: (9, 12), 2: (6, 7), 3: (6,)}[D] if not deep else {1: (9, 12, 16), 2: (6, 7, 9), 3: (6, 7)}[D]
        for name, _, _ in listed(D):
            for N in Ns:
                for order in ((2, 4) if not deep else (1, 2, 3, 4)):
                    if name in ("Advection", "Diffusion", "Dispersion", "HyperDiffusion") and order != 2:
                        continue
                    ctx.check("mean", dict(name=name, D=D, N=N, order=order, steps=1 if not deep else 3, seed=ctx.seed + N))
    for N in ((9, 12, 18) if not deep else (9, 12, 18, 24, 15, 36)):
        for kind in ("conv_cons", "conv_sc_cons", "conv_sc_noncons", "conv_noncons"):
            ctx.check("work", dict(kind=kind, D=1, N=N, seed=ctx.seed))
    for D in (2, 3):
        for N in ((6, 9) if D == 2 else (6,)) + ((12, 7) if deep else ()):
            for kind in ("conv_sc_cons", "conv_sc_noncons"):
                ctx.check("work", dict(kind=kind, D=D, N=N, seed=ctx.seed))
    for N in ((6, 12) if not deep else (6, 8, 9, 12, 18)):
        ctx.check("work", dict(kind="vorticity", D=2, N=N, seed=ctx.seed))
    for L in (1e5, 1e-3) + ((6.3e4, 2e6, 1.0) if deep else ()):
        for N in ((12,) if not deep else (12, 24, 27)):
            ctx.check("work", dict(kind="vorticity", D=2, N=N, seed=ctx.seed, L=L))
    for D in (1, 2, 3):
        for order in ((1 + (ctx.seed + D) % 4,) if not deep else (1, 2, 3, 4)):
            for N in ((8,) if D < 3 else (6,)) + ((7,) if deep else ()):
                ctx.check("fixed_point_poly", dict(D=D, N=N, order=order, ustar=0.5 if (D + ctx.seed) % 2 else -0.8))
    # the mean-mode value of lambda dt exactly on the contour circle, and non-default contour radii, for every order
    for order in (1, 2, 3, 4):
        for z0, radius in ((-1.0, 1.0), (1.0, 1.0), (-0.02, 2.0), (-0.02, 0.5), (-2.0, 2.0)):
            ctx.check("fixed_point_poly", dict(D=1, N=8, order=order, ustar=0.5, z0=z0, radius=radius))
    for N in ((6,) if not deep else (6, 7, 9)):
        ctx.check("work", dict(kind="projected", D=3, N=N, seed=ctx.seed))
    for D in (1, 2):
        for order in ((1, 2, 4) if not deep else (1, 2, 3, 4)):
            for name, us in (("FisherKPP", 1.0), ("FisherKPP", 0.0), ("AllenCahn", -1.0), ("AllenCahn", 1.0), ("Burgers", 0.7), ("CahnHilliard", 0.4),
                             ("KortewegDeVries", -0.3), ("KuramotoSivashinsky", 1.1), ("SwiftHohenberg", 0.0)):
                ctx.check("fixed_point", dict(name=name, D=D, N=8, order=order, ustar=us))
    for order in (2, 4):
        ctx.check("fixed_point", dict(name="NavierStokesVorticity", D=2, N=8, order=order, ustar=0.6))
    for j, which in enumerate(("swift_hohenberg_a", "swift_hohenberg_b", "gray_scott_a", "gray_scott_b")):
        for D in ((1, 2) if not deep else (1, 2, 3)):
            for order in ((1 + (ctx.seed + j + D) % 4,) if not deep else (1, 2, 3, 4)):
                ctx.check("fixed_point_reaction", dict(which=which, D=D, N=8 if D < 3 else 6, order=order))
