"""Registry of the exported stepper classes (enumerated from the package, so a new class is swept automatically)."""
import inspect


def classes():
    import exponax as ex
    out = {}
    for mod in (ex.stepper, ex.stepper.generic, ex.stepper.reaction):
        for n in mod.__all__:
            o = getattr(mod, n)
            if inspect.isclass(o) and issubclass(o, ex.BaseStepper):
                out[n] = o
    return out


DIMS = {"NavierStokesVorticity": (2,), "KolmogorovFlowVorticity": (2,), "GeneralVorticityConvectionStepper": (2,),
        "NavierStokesVelocity": (3,), "KolmogorovFlowVelocity": (3,)}
LINEAR = ["Advection", "Diffusion", "AdvectionDiffusion", "Dispersion", "HyperDiffusion", "Wave", "GeneralLinearStepper",
          "NormalizedLinearStepper", "DifficultyLinearStepper", "DifficultyLinearStepperSimple"]


def dims(name):
    return DIMS.get(name, (1, 2, 3))


def make(name, D, N, L=3.0, dt=0.05, **kw):
    cls = classes()[name]
    sig = inspect.signature(cls.__init__)
    names = [p for p in sig.parameters if p != "self"]
    if "injection_mode" in names and "injection_mode" not in kw:
        kw["injection_mode"] = 1 if N < 12 else 2
    if "domain_extent" in names:
        return cls(D, L, N, dt, **kw)
    return cls(D, N, **kw)


def has_order(name):
    return "order" in inspect.signature(classes()[name].__init__).parameters


def flag_variants(name, single=True):
    """non-default settings of the boolean constructor flags: each flag flipped on its own (single) or every combination"""
    import itertools
    sig = inspect.signature(classes()[name].__init__)
    fl = [(p.name, p.default) for p in sig.parameters.values() if isinstance(p.default, bool)]
    if single:
        return [{n: (not d)} for n, d in fl]
    return [dict(zip([n for n, _ in fl], v)) for v in itertools.product((False, True), repeat=len(fl)) if any(x != d for x, (_, d) in zip(v, fl))]
