"""vcheck: decide one property on /repo's current working tree (see DESIGN.md section 2.4)."""
import argparse
import importlib
import json
import os
import sys
import time
import traceback

from . import core
from .core import log


def load(pid):
    return importlib.import_module(f"harness.props.{pid.lower()}")


def run_tests(mod, ctx):
    """ctx.check helper is attached here so property modules stay declarative"""
    def check(test, params, nontrivial=True):
        ctx.case(dict(test=test, **params), nontrivial)
        try:
            ok, detail = mod.TESTS[test](**params)
        except Exception as e:  # a crash of the real code on a legitimate input is a failure of the test
            ok, detail = False, f"exception {type(e).__name__}: {e}"
        if not ok:
            ctx.fail(test, params, detail)
        return ok
    ctx.check = check


def cmd_check(pid, tier):
    t0 = time.time()
    seed = int(os.environ.get("VERIF_SEED", "0") or 0)
    mod = load(pid)
    ctx = core.Ctx(pid, tier, seed)
    run_tests(mod, ctx)
    pr = dict(obligations=0, discharged=0, theorems=[], axioms=[], ok=False)
    model_ok = False
    with core.Lock():
        if hasattr(mod, "translate"):
            try:
                mod.translate(ctx)
            except Exception as e:
                ctx.broken("translator", f"{type(e).__name__}: {e}")
        pr = core.props_check(mod.PROPS_FILE)
        if not pr["ok"]:
            ctx.broken("proof:Props/%s.v" % mod.PROPS_FILE,
                       ("axioms outside the allowed list: %s\n" % pr["bad_axioms"] if pr.get("bad_axioms") else "") + pr["log"])
        chk = None
        if tier == "thorough" and pr["ok"]:
            chk = core.coqchk(mod.PROPS_FILE)
            if not chk["ok"]:
                ctx.broken("coqchk:Props/%s.vo" % mod.PROPS_FILE, chk["log"])
        model_ok, mlog = core.build_model()
        if not model_ok:
            ctx.broken("model-build", mlog)
    log(f"[{pid}] proofs: {pr['discharged']}/{pr['obligations']} theorems checked, axioms={pr['axioms']} ({time.time()-t0:.0f}s)")
    if model_ok and hasattr(mod, "correspond"):
        try:
            mod.correspond(ctx)
        except Exception as e:
            ctx.broken("correspondence-crash", traceback.format_exc())
    n_corr = ctx.evaluations
    log(f"[{pid}] correspondence: {n_corr} cases, {len(ctx.disagreements)} disagreements ({time.time()-t0:.0f}s)")
    # witness oracle: the property evaluated on the real code (always run; deeper when something broke)
    ctx.deep = bool(ctx.tie_broken or ctx.disagreements) or tier == "thorough"
    try:
        mod.witness(ctx)
    except Exception as e:
        ctx.broken("witness-crash", traceback.format_exc())
    log(f"[{pid}] witness oracle: {ctx.evaluations - n_corr} cases, {len(ctx.failures)} failing ({time.time()-t0:.0f}s)")

    known = core.load_known()
    violations = []
    printed_known = set()
    for f in ctx.failures:
        k = core.matches_known(pid, f, known)
        if k is not None:
            key = json.dumps(k.get("signature"), sort_keys=True)
            if key not in printed_known:
                printed_known.add(key)
                log(f"KNOWN-FINDING: property={pid} {k.get('what','')}")
            continue
        violations.append(f)
    lines = []
    if violations:
        # report the first (already minimal by construction of the sweeps: smallest sizes first)
        f = violations[0]
        path = core.write_replay(pid, dict(property=pid, kind="failing-input", test=f["test"], params=f["params"],
                                           detail=f["detail"], others=len(violations) - 1,
                                           broken=[b["what"] for b in ctx.tie_broken],
                                           disagreements=ctx.disagreements[:5]))
        lines.append(f"VIOLATION property={pid} replay={path}")
    elif ctx.tie_broken or ctx.disagreements:
        path = core.write_replay(pid, dict(property=pid, kind="no-failing-input",
                                           no_longer_checks=[b["what"] for b in ctx.tie_broken]
                                           + sorted({"correspondence:" + d["suite"] for d in ctx.disagreements}),
                                           broken=ctx.tie_broken, disagreements=ctx.disagreements[:10]))
        lines.append(f"VIOLATION property={pid} replay={path} no-failing-input-found")
    cov = dict(
        obligations=max(pr["obligations"], 1), discharged=pr["discharged"],
        checker_cmd=f"make -C /verif/coq theories/Props/{mod.PROPS_FILE}.vo (coqc 8.16.1, Print Assumptions parsed)",
        trusted_base=core.TRUSTED_BASE + list(getattr(mod, "TRUSTED_EXTRA", [])),
        theorems=pr["theorems"], axioms=pr["axioms"],
        coqchk=(dict(ran=True, ok=chk["ok"], axioms=chk["axioms"]) if chk is not None else dict(ran=False, note="coqchk -o runs in the thorough tier")),
        evaluations=ctx.evaluations, distinct_nontrivial=len(ctx.hashes),
        rule=getattr(mod, "RULE", "cases are distinct by the hash of their canonical JSON description; trivial cases are flagged by the generator"),
        samples=ctx.samples[:8] or [dict(note="no cases")],
        correspondence_cases=n_corr, witness_cases=ctx.evaluations - n_corr,
        disagreements=len(ctx.disagreements), failing_inputs=len(violations),
        known_findings_reproduced=[dict(test=f['test'], params=f['params']) for f in ctx.failures if f not in violations],
        tie_broken=[b["what"] for b in ctx.tie_broken], distribution=ctx.dist, notes=ctx.notes,
    )
    core.write_evidence(pid, tier, seed, "proof", cov, time.time() - t0, len(lines),
                        list(getattr(mod, "ASSUMPTIONS", [])))
    for b in ctx.tie_broken:
        log(f"[{pid}] BROKEN {b['what']}:\n{b['detail'][-1200:]}")
    for d in ctx.disagreements[:5]:
        log(f"[{pid}] DISAGREE {d}")
    for f in violations[:5]:
        log(f"[{pid}] FAIL {f}")
    for f in [f for f in ctx.failures if f not in violations][:5]:
        log(f"[{pid}] known finding reproduced: {f['test']} {f['params']}: {f['detail']}")
    for l in lines:
        log(l)
    log(f"[{pid}] {'FAIL' if lines else 'ok'} in {time.time()-t0:.0f}s")
    return 1 if lines else 0


def cmd_replay(path):
    r = json.load(open(path))
    pid = r["property"]
    mod = load(pid)
    if r.get("kind") != "failing-input":
        log(f"replay {path}: no concrete input recorded; no longer checks: {r.get('no_longer_checks')}")
        log("re-running the quick check instead")
        return cmd_check(pid, "quick")
    try:
        ok, detail = mod.TESTS[r["test"]](**r["params"])
    except Exception as e:
        ok, detail = False, f"exception {type(e).__name__}: {e}"
    log(f"replay {pid} {r['test']} {r['params']}: {'holds' if ok else 'FAILS'} {detail}")
    if not ok:
        log(f"VIOLATION property={pid} replay={path}")
    return 0 if ok else 1


def cmd_setup():
    t0 = time.time()
    with core.Lock():
        core.sh("make clean", 300, cwd=core.COQ) if os.path.exists(os.path.join(core.COQ, "Makefile")) else None
        core.sh("find . -name '*.vo' -o -name '*.glob' -o -name '*.vok' -o -name '*.vos' -o -name '.*.aux' | xargs rm -f", 120, cwd=core.COQ)
        # regenerate every Gen file from /repo first
        for pid in all_props():
            mod = load(pid)
            if hasattr(mod, "translate"):
                try:
                    mod.translate(core.Ctx(pid, "quick", 0))
                except Exception as e:
                    log(f"translator for {pid} failed: {e}")
        core.refresh_coqproject()
        rc, out, dt = core.sh("make -j16", 3000, cwd=core.COQ)
        log(out[-3000:])
        if rc != 0:
            return 1
        ok, lg = core.build_model()
        log(lg)
    log(f"setup {'ok' if ok else 'FAILED'} in {time.time()-t0:.0f}s")
    return 0 if ok else 1


def all_props():
    d = os.path.join(core.VERIF, "harness", "props")
    return sorted(f[:-3].upper() for f in os.listdir(d) if f.startswith("c") and f.endswith(".py"))


def main():
    ap = argparse.ArgumentParser()
    ap.add_argument("what")
    ap.add_argument("arg", nargs="?")
    ap.add_argument("--tier", default=os.environ.get("VERIF_TIER", "quick"))
    a = ap.parse_args()
    if a.what == "setup":
        sys.exit(cmd_setup())
    if a.what == "replay":
        sys.exit(cmd_replay(a.arg))
    sys.exit(cmd_check(a.what.upper(), a.tier if a.tier in ("quick", "thorough") else "quick"))


if __name__ == "__main__":
    main()
