"""Translator for C06: every Python-level test reachable from an exported stepper class -> coq/theories/Gen/Branches.v.

For every exported stepper class (harness/registry.py) the constructor path (`__init__` resolved through the MRO, hence
BaseStepper.__init__, `_build_linear_operator`, `_build_nonlinear_fun`, every exponax function and every exponax class
constructor they reference) and the call path (`__call__`, `step`, `step_fourier`, the `step_fourier` of every ETDRK class
and the `__call__` of every nonlinear-function class that the constructor path instantiates, and every exponax function /
method they reference) are closed under static references.  Every `if`/`elif`/`while`/`assert`/conditional expression/
comprehension filter, every value-level `and`/`or`/`not`, and every concretising builtin (`bool`, `int`, `float`, `max`,
`min`, `round`, `range`, `.item()`, `.tolist()`) found there is classified by a syntactic rule:

  STATIC           only shapes (`.shape/.ndim/.dtype/.size`), `len`, `isinstance`, `is (not) None`, constants, and names /
                   fields / exponax helper results whose annotation is int, bool, str, Literal or a tuple of those;
  VALUE-DEPENDENT  the truth value or an ordering/equality comparison of something whose annotation is `float`, a jaxtyping
                   array, a tuple of floats, a union containing one of these, or that is computed by a jax/numpy call.

A value-dependent atom is GUARDED when `isinstance(<the same operand>, (int, float))` precedes it in the same conjunction
or is the test of an enclosing `if`.  Fail-closed: an operand whose kind cannot be determined, a name that cannot be
resolved, a method call on an unknown object, or an empty call path raises TranslationError (= tie broken)."""
import ast
import builtins
import inspect
import os
import sys

from .pyexpr import TranslationError, write_if_changed

PKG = "exponax"
OUT = os.path.join(os.path.dirname(os.path.dirname(os.path.dirname(os.path.abspath(__file__)))), "coq", "theories", "Gen", "Branches.v")

SHAPE_ATTRS = {"shape", "ndim", "dtype", "size"}
STATIC_CALLS = {"len", "isinstance", "issubclass", "type", "hasattr", "callable", "id", "repr", "str"}
JOIN_CALLS = {"tuple", "list", "sum", "max", "min", "abs", "float", "int", "bool", "complex", "round", "reversed", "sorted", "pow", "set"}
CONCRETISERS = {"bool", "int", "float", "complex", "max", "min", "round", "range"}
CONCRETISING_METHODS = {"item", "tolist", "__bool__", "__float__", "__int__", "__index__"}
ARRAY_METHODS = {"reshape", "astype", "sum", "mean", "conj", "conjugate", "flatten", "ravel", "transpose", "squeeze", "set", "add",
                 "multiply", "get", "swapaxes", "copy", "real", "imag", "format", "join", "append", "pop", "items", "keys", "values",
                 "min", "max", "prod", "dot", "clip", "repeat", "take"}
ARRAY_ANN = {"Float", "Complex", "Bool", "Int", "Inexact", "Shaped", "Num", "Real", "Integer", "UInt", "Key", "PRNGKeyArray"}
SEQ_ANN = {"tuple", "list", "Tuple", "List", "Sequence", "Iterable"}
NUMERIC_TYPES = {"int", "float", "bool", "complex"}


def join(*ks):
    ks = [k for k in ks if k is not None]
    if not ks:
        return "S"
    if "U" in ks:
        return "U"
    if "V" in ks:
        return "V"
    if "O" in ks:
        return "O"
    return "S"


def ann_kind(a):
    """kind of a value from its annotation AST: S static, V value (float / array), O object, U unknown"""
    if a is None:
        return "U"
    if isinstance(a, ast.Constant):
        if a.value is None:
            return "S"
        if isinstance(a.value, str):            # string annotation
            try:
                return ann_kind(ast.parse(a.value, mode="eval").body)
            except SyntaxError:
                return "U"
        return "U"
    if isinstance(a, ast.BinOp) and isinstance(a.op, ast.BitOr):
        return join(ann_kind(a.left), ann_kind(a.right))
    if isinstance(a, ast.Name):
        if a.id in ("int", "bool", "str"):
            return "S"
        if a.id in ("float", "complex", "Array", "ArrayLike"):
            return "V"
        if a.id in SEQ_ANN or a.id in ("Any", "object"):
            return "U"
        return "O" if a.id[:1].isupper() else "U"
    if isinstance(a, ast.Attribute):
        return ann_kind(ast.Name(id=a.attr))
    if isinstance(a, ast.Subscript):
        base = ast.unparse(a.value).split(".")[-1]
        if base in ARRAY_ANN:
            return "V"
        sl = a.slice
        elts = sl.elts if isinstance(sl, ast.Tuple) else [sl]
        if base in SEQ_ANN or base == "Union":
            return join(*[ann_kind(e) for e in elts if not (isinstance(e, ast.Constant) and e.value is Ellipsis)])
        if base == "Optional":
            return join("S", ann_kind(sl))
        if base == "Literal":
            return "S"
        if base in ("Callable", "type", "Type"):
            return "O"
    return "U"


class Source:
    """parsed files, classes and functions of the package under verification"""

    def __init__(self):
        self.trees = {}

    def tree(self, file):
        if file not in self.trees:
            self.trees[file] = ast.parse(open(file).read())
        return self.trees[file]

    def classdef(self, cls):
        file = inspect.getsourcefile(cls)
        for n in self.tree(file).body:
            if isinstance(n, ast.ClassDef) and n.name == cls.__name__:
                return n, file
        raise TranslationError(f"class {cls.__name__} not found at the top level of {file}")

    def funcdef(self, fn):
        file = inspect.getsourcefile(fn)
        for n in self.tree(file).body:
            if isinstance(n, ast.FunctionDef) and n.name == fn.__name__:
                return n, file
        raise TranslationError(f"function {fn.__name__} not found at the top level of {file}")

    def mro(self, cls):
        return [k for k in cls.__mro__ if (k.__module__ or "").split(".")[0] == PKG]

    def method(self, cls, name, after=None):
        ks = self.mro(cls)
        if after is not None:
            if after not in ks:
                raise TranslationError(f"super() in {after.__name__} is not in the MRO of {cls.__name__}")
            ks = ks[ks.index(after) + 1:]
        for k in ks:
            cd, file = self.classdef(k)
            for n in cd.body:
                if isinstance(n, ast.FunctionDef) and n.name == name:
                    return k, n, file
        return None

    def field_ann(self, cls, name):
        for k in self.mro(cls):
            cd, _ = self.classdef(k)
            for n in cd.body:
                if isinstance(n, ast.AnnAssign) and isinstance(n.target, ast.Name) and n.target.id == name:
                    return n.annotation, k
        return None, None


def in_pkg(obj):
    return (getattr(obj, "__module__", None) or "").split(".")[0] == PKG


def rel(file):
    i = file.rfind("/" + PKG + "/")
    return file[i + 1:] if i >= 0 else file


class FuncInfo:
    """one function body with its typing environment"""

    def __init__(self, src, fn, file, module, defcls, selfcls):
        self.src, self.fn, self.file, self.module, self.defcls, self.selfcls = src, fn, file, module, defcls, selfcls
        self.where = f"{rel(file)}:{defcls.__name__ + '.' if defcls else ''}{fn.name}"
        self.locals = set()
        self.localdefs = set()     # nested defs and lambdas bound to a local name: their bodies are part of this function
        self.env = {}
        self.parents = {}
        for st in fn.body:
            for p in ast.walk(st):
                for c in ast.iter_child_nodes(p):
                    self.parents[c] = p
        self._bind_args(fn)
        for st in fn.body:
            self._scan(st)

    # ---- environment
    def _bind_args(self, fn):
        a = fn.args
        pos = a.posonlyargs + a.args
        defaults = [None] * (len(pos) - len(a.defaults)) + list(a.defaults)
        for arg, d in list(zip(pos, defaults)) + list(zip(a.kwonlyargs, a.kw_defaults)):
            self.locals.add(arg.arg)
            if arg.arg == "self":
                self.env["self"] = "O"
                continue
            k = ann_kind(arg.annotation) if arg.annotation is not None else "U"
            if arg.annotation is None and isinstance(d, ast.Constant):
                k = "V" if isinstance(d.value, (float, complex)) else ("S" if isinstance(d.value, (int, bool, str)) else "U")
            self._set(arg.arg, k)
        for arg in (a.vararg, a.kwarg):
            if arg is not None:
                self.locals.add(arg.arg)
                self._set(arg.arg, "U")

    def _set(self, name, k):
        self.env[name] = join(self.env[name], k) if name in self.env else k

    def _bind_target(self, t, k, value=None):
        if isinstance(t, ast.Name):
            self.locals.add(t.id)
            self._set(t.id, k)
        elif isinstance(t, (ast.Tuple, ast.List)):
            if isinstance(value, (ast.Tuple, ast.List)) and len(value.elts) == len(t.elts):
                for x, v in zip(t.elts, value.elts):
                    self._bind_target(x, self.kind(v), v)
            else:
                for x in t.elts:
                    self._bind_target(x, k)
        elif isinstance(t, ast.Starred):
            self._bind_target(t.value, k)
        # attribute / subscript targets bind no local name

    def _bind_iter(self, target, it):
        if isinstance(it, ast.Call) and ast.unparse(it.func) == "enumerate" and it.args and isinstance(target, ast.Tuple) and len(target.elts) == 2:
            self._bind_target(target.elts[0], "S")
            self._bind_target(target.elts[1], self.kind(it.args[0]))
        elif isinstance(it, ast.Call) and ast.unparse(it.func) == "zip" and isinstance(target, ast.Tuple) and len(target.elts) == len(it.args):
            for x, v in zip(target.elts, it.args):
                self._bind_target(x, self.kind(v))
        elif isinstance(it, ast.Call) and ast.unparse(it.func) == "range":
            self._bind_target(target, join(*[self.kind(x) for x in it.args]))
        else:
            self._bind_target(target, self.kind(it))

    def _scan(self, st):
        """source-order pass binding local names to kinds"""
        if isinstance(st, ast.FunctionDef):
            self.locals.add(st.name)
            self.localdefs.add(st.name)
            self.env[st.name] = "O"
            self._bind_args(st)
            for s in st.body:
                self._scan(s)
            return
        if isinstance(st, ast.Lambda):
            for arg in st.args.args + st.args.kwonlyargs:
                self.locals.add(arg.arg)
                self._set(arg.arg, "U")
        if isinstance(st, (ast.ListComp, ast.SetComp, ast.GeneratorExp, ast.DictComp)):
            for g in st.generators:
                self._scan(g.iter)
                self._bind_iter(g.target, g.iter)
        if isinstance(st, ast.Assign):
            self._scan(st.value)
            if isinstance(st.value, ast.Lambda):
                self.localdefs |= {t.id for t in st.targets if isinstance(t, ast.Name)}
            k = self.kind(st.value)
            for t in st.targets:
                self._bind_target(t, k, st.value)
            return
        if isinstance(st, ast.AugAssign):
            self._scan(st.value)
            self._bind_target(st.target, join(self.kind(st.target), self.kind(st.value)))
            return
        if isinstance(st, ast.AnnAssign):
            if st.value is not None:
                self._scan(st.value)
            self._bind_target(st.target, join(ann_kind(st.annotation), self.kind(st.value) if st.value is not None else None))
            return
        if isinstance(st, ast.NamedExpr):
            self._scan(st.value)
            self._bind_target(st.target, self.kind(st.value))
            return
        if isinstance(st, ast.For):
            self._scan(st.iter)
            self._bind_iter(st.target, st.iter)
            for s in st.body + st.orelse:
                self._scan(s)
            return
        if isinstance(st, ast.With):
            for it in st.items:
                if it.optional_vars is not None:
                    self._bind_target(it.optional_vars, "U")
        if isinstance(st, (ast.Import, ast.ImportFrom, ast.Global, ast.Nonlocal, ast.Try, ast.ClassDef, ast.AsyncFunctionDef, ast.Await, ast.Yield, ast.YieldFrom)):
            raise TranslationError(f"{self.where}: unsupported statement {type(st).__name__}")
        for c in ast.iter_child_nodes(st):
            self._scan(c)

    # ---- name resolution
    def resolve_name(self, name):
        if name in self.locals:
            return ("local", None)
        g = self.module.__dict__
        if name in g:
            return ("global", g[name])
        if hasattr(builtins, name):
            return ("builtin", getattr(builtins, name))
        raise TranslationError(f"{self.where}: unresolved name {name}")

    def resolve_dotted(self, e):
        """Attribute chain rooted at a module-level name -> object, or None when rooted at a local / not resolvable statically"""
        chain = []
        while isinstance(e, ast.Attribute):
            chain.append(e.attr)
            e = e.value
        if not isinstance(e, ast.Name) or e.id in self.locals:
            return None
        how, obj = self.resolve_name(e.id)
        if how != "global" or not inspect.ismodule(obj):
            return None
        for a in reversed(chain):
            if not hasattr(obj, a):
                if in_pkg(obj) or (inspect.ismodule(obj) and obj.__name__.split(".")[0] == PKG):
                    raise TranslationError(f"{self.where}: cannot resolve {ast.unparse(e)}.{'.'.join(reversed(chain))}")
                return None
            obj = getattr(obj, a)
        return obj

    def self_member(self, attr):
        """('method', (K, fn, file)) | ('field', annotation) | None"""
        if self.selfcls is None:
            raise TranslationError(f"{self.where}: `self` used outside a class")
        m = self.src.method(self.selfcls, attr)
        if m is not None:
            return ("method", m)
        ann, _ = self.src.field_ann(self.selfcls, attr)
        if ann is not None:
            return ("field", ann)
        raise TranslationError(f"{self.where}: self.{attr} is neither a method nor an annotated field of {self.selfcls.__name__}")

    def callee(self, f):
        """object called by the expression f, when it is an exponax function/class or builtin; else None"""
        if isinstance(f, ast.Name):
            how, obj = self.resolve_name(f.id)
            return obj if how != "local" else None
        if isinstance(f, ast.Attribute):
            return self.resolve_dotted(f)
        return None

    def ret_kind(self, obj):
        if inspect.isclass(obj):
            return "O"
        if inspect.isfunction(obj) and in_pkg(obj):
            fd, _ = self.src.funcdef(obj)
            return ann_kind(fd.returns)
        return None

    # ---- kinds of expressions
    def kind(self, e):
        if e is None:
            return "S"
        if isinstance(e, (ast.Constant, ast.JoinedStr, ast.FormattedValue, ast.Slice)):
            return "S"
        if isinstance(e, ast.Name):
            if e.id in self.env:
                return self.env[e.id]
            if e.id in self.locals:
                return "U"
            how, obj = self.resolve_name(e.id)
            if isinstance(obj, (bool, int, str)) or obj is None:
                return "S"
            if isinstance(obj, (float, complex)):
                return "S"
            return "O"
        if isinstance(e, ast.Attribute):
            if e.attr in SHAPE_ATTRS:
                return "S"
            if isinstance(e.value, ast.Name) and e.value.id == "self" and "self" in self.locals:
                how, x = self.self_member(e.attr)
                if how == "field":
                    return ann_kind(x)
                k, fd, _ = x
                if any(ast.unparse(d) == "property" for d in fd.decorator_list):
                    return ann_kind(fd.returns)
                return "O"
            obj = self.resolve_dotted(e)
            if obj is not None:
                return "S" if isinstance(obj, (bool, int, float, complex, str)) else "O"
            return self.kind(e.value)
        if isinstance(e, ast.Subscript):
            return self.kind(e.value)
        if isinstance(e, ast.Starred):
            return self.kind(e.value)
        if isinstance(e, ast.Call):
            f = e.func
            ft = ast.unparse(f)
            args = list(e.args) + [k.value for k in e.keywords]
            if isinstance(f, ast.Name) and f.id not in self.locals:
                if f.id in STATIC_CALLS:
                    return "S"
                if f.id in JOIN_CALLS or f.id in ("enumerate", "zip", "range"):
                    return join(*[self.kind(a) for a in args])
            if isinstance(f, ast.Attribute) and isinstance(f.value, ast.Call) and ast.unparse(f.value.func) == "super":
                m = self.src.method(self.selfcls, f.attr, after=self.defcls)
                return ann_kind(m[1].returns) if m else "U"
            if isinstance(f, ast.Attribute) and isinstance(f.value, ast.Name) and f.value.id == "self" and "self" in self.locals:
                how, x = self.self_member(f.attr)
                if how == "method":
                    return ann_kind(x[1].returns)
                return "V"          # calling a module held in a field (nonlinear function): array result
            obj = self.callee(f)
            if obj is not None:
                rk = self.ret_kind(obj)
                if rk is not None:
                    return rk
                if ft.split(".")[-1] in ("ndim", "shape", "size", "result_type", "issubdtype", "iscomplexobj", "isrealobj"):
                    return "S"
                return "V"          # jax / numpy / external call: array data
            if isinstance(f, ast.Attribute):
                return self.kind(f.value)       # method of a value (x.reshape(...), x.at[...].set(...))
            return "U"
        if isinstance(e, ast.BinOp):
            return join(self.kind(e.left), self.kind(e.right))
        if isinstance(e, ast.UnaryOp):
            return self.kind(e.operand)
        if isinstance(e, ast.BoolOp):
            return join(*[self.kind(v) for v in e.values])
        if isinstance(e, ast.Compare):
            if all(isinstance(o, (ast.Is, ast.IsNot)) for o in e.ops):
                return "S"
            return join(self.kind(e.left), *[self.kind(c) for c in e.comparators])
        if isinstance(e, ast.IfExp):
            return join(self.kind(e.body), self.kind(e.orelse))
        if isinstance(e, (ast.Tuple, ast.List, ast.Set)):
            return join(*[self.kind(x) for x in e.elts])
        if isinstance(e, (ast.ListComp, ast.SetComp, ast.GeneratorExp)):
            return self.kind(e.elt)
        if isinstance(e, ast.Dict):
            return join(*[self.kind(x) for x in e.values])
        if isinstance(e, ast.Lambda):
            return "O"
        if isinstance(e, ast.NamedExpr):
            return self.kind(e.value)
        return "U"

    # ---- tests
    @staticmethod
    def guards_of(test):
        """operands certified as Python numbers by `isinstance(x, (int, float))` conjuncts"""
        if isinstance(test, ast.BoolOp) and isinstance(test.op, ast.And):
            out = set()
            for v in test.values:
                out |= FuncInfo.guards_of(v)
            return out
        if isinstance(test, ast.Call) and ast.unparse(test.func) == "isinstance" and len(test.args) == 2 and not test.keywords:
            t = test.args[1]
            names = [ast.unparse(x) for x in (t.elts if isinstance(t, ast.Tuple) else [t])]
            if names and all(n in NUMERIC_TYPES for n in names):
                return {ast.unparse(test.args[0])}
        return set()

    def atoms(self, e, guards):
        """list of (value_dependent, guarded) for the atoms of a test"""
        if isinstance(e, ast.BoolOp):
            out, g = [], set(guards)
            for v in e.values:
                out += self.atoms(v, g)
                if isinstance(e.op, ast.And):
                    g |= self.guards_of(v)
            return out
        if isinstance(e, ast.UnaryOp) and isinstance(e.op, ast.Not):
            return self.atoms(e.operand, guards)
        if isinstance(e, ast.Compare):
            if all(isinstance(o, (ast.Is, ast.IsNot)) for o in e.ops):
                return [(False, True)]
            ops = [e.left] + list(e.comparators)
            ks = [self.kind(o) for o in ops]
            if "U" in ks:
                raise TranslationError(f"{self.where}:{e.lineno}: cannot classify the operands of `{ast.unparse(e)}` (kinds {ks})")
            vs = [o for o, k in zip(ops, ks) if k == "V"]
            if not vs:
                return [(False, True)]
            return [(True, all(ast.unparse(o) in guards for o in vs))]
        if isinstance(e, ast.Call) and isinstance(e.func, ast.Name) and e.func.id in STATIC_CALLS and e.func.id not in self.locals:
            return [(False, True)]
        if isinstance(e, ast.Constant):
            return [(False, True)]
        k = self.kind(e)
        if k == "S":
            return [(False, True)]
        if k == "V":
            return [(True, ast.unparse(e) in guards)]
        raise TranslationError(f"{self.where}:{getattr(e, 'lineno', '?')}: cannot classify the truth value of `{ast.unparse(e)}` (kind {k})")

    def tests(self):
        """[(line, label, text, value_dependent, guarded)] for every test in the function"""
        out = []

        def rec(node, label, e, guards):
            at = self.atoms(e, guards)
            vd = any(a for a, _ in at)
            out.append((node.lineno, label, ast.unparse(e), vd, all(g for a, g in at if a)))

        def visit(n, guards, in_test):
            if isinstance(n, ast.If) or isinstance(n, ast.IfExp):
                rec(n, "if" if isinstance(n, ast.If) else "ifexp", n.test, guards)
                visit(n.test, guards, True)
                g2 = guards | self.guards_of(n.test)
                for s in (n.body if isinstance(n, ast.If) else [n.body]):
                    visit(s, g2, False)
                for s in (n.orelse if isinstance(n, ast.If) else [n.orelse]):
                    visit(s, guards, False)
                return
            if isinstance(n, ast.While):
                rec(n, "while", n.test, guards)
                visit(n.test, guards, True)
                for s in n.body + n.orelse:
                    visit(s, guards, False)
                return
            if isinstance(n, ast.Assert):
                rec(n, "assert", n.test, guards)
                visit(n.test, guards, True)
                return
            if isinstance(n, ast.comprehension):
                for t in n.ifs:
                    rec(t, "filter", t, guards)
                    visit(t, guards, True)
                visit(n.iter, guards, False)
                return
            if isinstance(n, ast.BoolOp) and not in_test:
                rec(n, "boolop", n, guards)
                for v in n.values:
                    visit(v, guards, True)
                return
            if isinstance(n, ast.UnaryOp) and isinstance(n.op, ast.Not) and not in_test:
                rec(n, "not", n.operand, guards)
                visit(n.operand, guards, True)
                return
            if isinstance(n, ast.Call):
                f = n.func
                args = list(n.args) + [k.value for k in n.keywords]
                conc = (isinstance(f, ast.Name) and f.id in CONCRETISERS and f.id not in self.locals) or \
                       (isinstance(f, ast.Attribute) and f.attr in CONCRETISING_METHODS)
                if conc:
                    ops = args if isinstance(f, ast.Name) else [f.value]
                    ks = [self.kind(a) for a in ops]
                    if "U" in ks:
                        raise TranslationError(f"{self.where}:{n.lineno}: cannot classify the argument of `{ast.unparse(n)}`")
                    vs = [a for a, k in zip(ops, ks) if k == "V"]
                    if vs:
                        out.append((n.lineno, "concretise", ast.unparse(n), True, all(ast.unparse(a) in guards for a in vs)))
                for c in ast.iter_child_nodes(n):
                    visit(c, guards, False)
                return
            if isinstance(n, (ast.Compare,)):
                for c in ast.iter_child_nodes(n):
                    visit(c, guards, in_test)
                return
            for c in ast.iter_child_nodes(n):
                visit(c, guards, in_test if isinstance(n, (ast.BoolOp, ast.UnaryOp)) else False)

        for st in self.fn.body:
            visit(st, frozenset(), False)
        return out


class Closure:
    """reachability from one exported stepper class"""

    def __init__(self, src, root):
        self.src, self.root = src, root
        self.seen = {}            # (file, defcls name, fn name, selfcls name, path) -> FuncInfo
        self.instantiated = []
        self.dispatch = []        # (base class, method name, path, origin)
        self.entries = {}         # (path, loc) -> (vd, guarded)
        self.functions = {"ctor": [], "call": []}

    def visit(self, fn, file, module, defcls, selfcls, path):
        key = (file, defcls.__name__ if defcls else None, fn.name, selfcls.__name__ if selfcls else None, path)
        if key in self.seen:
            return False
        fi = FuncInfo(self.src, fn, file, module, defcls, selfcls)
        self.seen[key] = fi
        nm = (defcls.__name__ + "." if defcls else "") + fn.name
        if nm not in self.functions[path]:
            self.functions[path].append(nm)
        for line, label, text, vd, guarded in fi.tests():
            loc = f"{path}:{fi.where}:{line}: {label} {text}"
            old = self.entries.get((path, loc))
            self.entries[(path, loc)] = (vd or (old[0] if old else False), guarded and (old[1] if old else True))
        self.references(fi, path)
        return True

    def visit_method(self, cls, name, path, after=None, origin=""):
        m = self.src.method(cls, name, after=after)
        if m is None:
            raise TranslationError(f"{origin}: no method {name} in the MRO of {cls.__name__}")
        k, fn, file = m
        return self.visit(fn, file, sys.modules[k.__module__], k, cls, path)

    def visit_object(self, obj, called, path, origin):
        if inspect.isclass(obj) and in_pkg(obj):
            if called:
                if obj not in self.instantiated:
                    self.instantiated.append(obj)
                if self.src.method(obj, "__init__") is not None:
                    self.visit_method(obj, "__init__", path, origin=origin)
            return
        if inspect.isfunction(obj) and in_pkg(obj):
            fd, file = self.src.funcdef(obj)
            self.visit(fd, file, sys.modules[obj.__module__], None, None, path)

    def field_class(self, fi, ann):
        """the exponax class named by a field annotation (None for data fields)"""
        for n in ast.walk(ann):
            if isinstance(n, ast.Name) and n.id in fi.module.__dict__:
                obj = fi.module.__dict__[n.id]
                if inspect.isclass(obj) and in_pkg(obj):
                    return obj
        return None

    def references(self, fi, path):
        handled = set()
        for st in fi.fn.body:
            for n in ast.walk(st):
                if id(n) in handled:
                    continue
                par = fi.parents.get(n)
                if isinstance(n, (ast.arg,)):
                    continue
                if isinstance(n, ast.Call) and not isinstance(n.func, (ast.Name, ast.Attribute)):
                    # f(...)(...) is fine when f(...) is an external transformation (its arguments are visited as references);
                    # anything else (a callable taken out of a container, a lambda called in place) is not resolved statically
                    inner = n.func
                    ok = isinstance(inner, ast.Call) and isinstance(inner.func, (ast.Name, ast.Attribute)) and fi.callee(inner.func) is not None \
                        and not in_pkg(fi.callee(inner.func))
                    if not ok:
                        raise TranslationError(f"{fi.where}:{n.lineno}: call `{ast.unparse(n)[:60]}` of a computed callable")
                # super().m
                if isinstance(n, ast.Attribute) and isinstance(n.value, ast.Call) and ast.unparse(n.value.func) == "super":
                    if fi.selfcls is None:
                        raise TranslationError(f"{fi.where}: super() outside a class")
                    self.visit_method(fi.selfcls, n.attr, path, after=fi.defcls, origin=fi.where)
                    handled.add(id(n.value.func))
                    continue
                # self.X ...
                if isinstance(n, ast.Attribute) and isinstance(n.value, ast.Name) and n.value.id == "self" and "self" in fi.locals:
                    if isinstance(n.ctx, ast.Store):
                        continue
                    how, x = fi.self_member(n.attr)
                    if how == "method":
                        k, fn, file = x
                        self.visit(fn, file, sys.modules[k.__module__], k, fi.selfcls, path)
                        continue
                    cls = self.field_class(fi, x)
                    is_called = isinstance(par, ast.Call) and par.func is n
                    member = par.attr if isinstance(par, ast.Attribute) and par.value is n else None
                    if is_called:
                        if cls is None:
                            raise TranslationError(f"{fi.where}:{n.lineno}: call of the data field self.{n.attr}")
                        self.dispatch.append((cls, "__call__", path, fi.where))
                    elif member is not None and cls is not None:
                        self.dispatch.append((cls, member, path, fi.where))
                    elif cls is not None and self.src.method(cls, "__call__") is not None:
                        self.dispatch.append((cls, "__call__", path, fi.where))     # a callable module handed on as a value
                    continue
                if isinstance(n, ast.Name) and isinstance(n.ctx, ast.Load):
                    if n.id in fi.locals and isinstance(par, ast.Call) and par.func is n and n.id not in fi.localdefs:
                        raise TranslationError(f"{fi.where}:{n.lineno}: call of the local value `{n.id}` cannot be resolved statically")
                    if n.id in fi.locals or n.id == "super":
                        continue
                    how, obj = fi.resolve_name(n.id)
                    if inspect.ismodule(obj):
                        continue
                    called = isinstance(par, ast.Call) and par.func is n
                    self.visit_object(obj, called, path, fi.where)
                    continue
                if isinstance(n, ast.Attribute) and isinstance(n.ctx, ast.Load):
                    obj = fi.resolve_dotted(n)
                    if obj is not None:
                        if isinstance(par, ast.Attribute) and par.value is n:
                            continue            # a longer chain is resolved at its outermost node
                        called = isinstance(par, ast.Call) and par.func is n
                        self.visit_object(obj, called, path, fi.where)
                        continue
                    # method of a value
                    if isinstance(par, ast.Call) and par.func is n:
                        root = n
                        while isinstance(root, (ast.Attribute, ast.Subscript, ast.Call)):
                            root = root.value if not isinstance(root, ast.Call) else root.func
                        if isinstance(root, ast.Name) and root.id not in fi.locals and root.id != "super":
                            continue            # rooted at an external module (jnp.fft.rfftn(...))
                        if isinstance(root, ast.Name) and root.id == "self":
                            continue            # self.F.m(...) is dispatched above; self.x.reshape(...) is an array method
                        if n.attr in CONCRETISING_METHODS or n.attr in ARRAY_METHODS:
                            continue
                        raise TranslationError(f"{fi.where}:{n.lineno}: method call `{ast.unparse(par)[:60]}` on an unknown object")

    def run(self):
        self.visit_method(self.root, "__init__", "ctor", origin=self.root.__name__)
        self.resolve_dispatch()
        for m in ("__call__", "step", "step_fourier"):
            self.visit_method(self.root, m, "call", origin=self.root.__name__)
        self.resolve_dispatch()
        # fail-closed sanity: the call path must reach an integrator and the constructor path must build one
        fs = self.functions["call"]
        if not any(f.endswith(".step_fourier") and f.split(".")[0] != self.root.__name__ and "ETDRK" in f for f in fs):
            raise TranslationError(f"{self.root.__name__}: the call path reaches no ETDRK step_fourier ({fs})")
        if not any(f.endswith(".__call__") and f != "BaseStepper.__call__" for f in fs):
            raise TranslationError(f"{self.root.__name__}: the call path reaches no nonlinear function ({fs})")
        if not any(p == "ctor" for p, _ in self.entries) or not any(p == "call" for p, _ in self.entries):
            raise TranslationError(f"{self.root.__name__}: empty branch table")

    def resolve_dispatch(self):
        changed = True
        while changed:
            changed = False
            for base, member, path, origin in list(self.dispatch):
                cands = [k for k in self.instantiated if issubclass(k, base)]
                if not cands:
                    raise TranslationError(f"{origin}: no instantiated class for a field of type {base.__name__}")
                for k in cands:
                    m = self.src.method(k, member)
                    if m is None:
                        if self.src.field_ann(k, member)[0] is None:
                            raise TranslationError(f"{origin}: {k.__name__} has no member {member}")
                        continue
                    if any(ast.unparse(d) == "abstractmethod" for d in m[1].decorator_list):
                        if not inspect.isabstract(k):
                            raise TranslationError(f"{origin}: concrete class {k.__name__} resolves {member} to an abstract method")
                        continue
                    if self.visit(m[1], m[2], sys.modules[m[0].__module__], m[0], k, path):
                        changed = True


def q(s):
    return '"' + s.replace('"', '""') + '"'


def b(x):
    return "true" if x else "false"


def collect():
    """{class name: Closure} for every exported stepper class"""
    from .. import registry
    src = Source()
    out = {}
    for name, cls in registry.classes().items():
        c = Closure(src, cls)
        c.run()
        out[name] = c
    return out


def generate(closures=None):
    closures = closures if closures is not None else collect()
    tests, index, per_class, funs = [], {}, [], []
    for name, c in closures.items():
        ids = []
        for (path, loc), (vd, guarded) in sorted(c.entries.items()):
            key = (loc, path == "call", vd, vd and guarded)
            if key not in index:
                index[key] = len(tests)
                tests.append(key)
            ids.append(index[key])
        per_class.append(f"  ({q(name)}, [{'; '.join(str(i) for i in ids)}]%nat)")
        funs.append(f"  ({q(name)}, [{'; '.join(str(fun_id(f)) for f in c.functions['call'])}]%nat)")
    rows = [f"  (* {i} *) ({q(loc)}, {b(call)}, {b(vd)}, {b(g)})" for i, (loc, call, vd, g) in enumerate(tests)]
    parts = ["(* GENERATED by harness/translate/branches.py from the exponax sources -- do not edit. *)",
             "From Coq Require Import String List Bool.", "From EXV Require Import Utils.BranchTable.", "Import ListNotations.",
             "Local Open Scope string_scope.", "",
             "Definition stepper_classes : list string :=\n  [" + "; ".join(q(n) for n in closures) + "].", "",
             "(* the distinct tests: (location, on the call path, value_dependent, guarded) *)",
             "Definition tests : list (string * bool * bool * bool) := [\n" + ";\n".join(rows) + "\n].", "",
             "(* tests reachable from each exported class (indices into [tests]) *)",
             "Definition class_tests : list (string * list nat) := [\n" + ";\n".join(per_class) + "\n].", "",
             "Definition branches : list branch := expand_branches tests class_tests.", "",
             "(* (class, location, value_dependent) *)",
             "Definition branch_table : list (string * string * bool) := map triple_of branches.", "",
             "(* functions on the call path (names, then per class the indices into the names) *)",
             "Definition function_names : list string :=\n  [" + "; ".join(q(f) for f in FUN_NAMES) + "].",
             "Definition call_path_functions : list (string * list nat) := [\n" + ";\n".join(funs) + "\n]."]
    return "\n".join(parts) + "\n"


FUN_NAMES = []


def fun_id(f):
    if f not in FUN_NAMES:
        FUN_NAMES.append(f)
    return FUN_NAMES.index(f)


def summary(closures):
    """python-side view of the table, used by harness/props/c06.py"""
    rows = []
    for name, c in closures.items():
        for (path, loc), (vd, guarded) in sorted(c.entries.items()):
            rows.append(dict(cls=name, path=path, loc=loc, vd=vd, guarded=vd and guarded))
    return rows


def run():
    closures = collect()
    write_if_changed(OUT, generate(closures))
    return closures


if __name__ == "__main__":
    cs = collect()
    for r in summary(cs):
        if r["vd"]:
            print(r)
    print(len(summary(cs)), "entries")
