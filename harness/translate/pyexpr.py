"""Fail-closed translation of a small Python expression subset into Gallina text over an Ops record K."""
import ast
import os
from fractions import Fraction


class TranslationError(Exception):
    pass


def num(v):
    """numeric literal -> Gallina term of type K (exact: floats are converted with Fraction, never rounded)"""
    if isinstance(v, bool):
        raise TranslationError("bool literal in arithmetic")
    if isinstance(v, int):
        return "(fz %d)" % v if v >= 0 else "(fz (%d))" % v
    if isinstance(v, float):
        f = Fraction(v)
        if f.denominator == 1:
            return num(int(f.numerator))
        return "(fq (%d # %d))" % (f.numerator, f.denominator)
    raise TranslationError(f"literal {v!r}")


class Expr:
    """env maps Python names / attribute strings (e.g. 'self.dt') to Gallina terms.
    calls maps a dotted function name to a python callable producing Gallina text from translated args."""

    def __init__(self, env, calls=None, on_real=None):
        self.env, self.calls, self.on_real = env, calls or {}, on_real

    def tr(self, e):
        if isinstance(e, ast.BinOp):
            if isinstance(e.op, ast.Pow):
                b = e.right
                if isinstance(b, ast.Constant) and isinstance(b.value, int) and b.value >= 0:
                    return f"(fpow {self.tr(e.left)} {b.value})"
                # symbolic integer exponent
                if "int:" + ast.unparse(b) in self.env or isinstance(b, (ast.Name, ast.BinOp)):
                    return f"(fzpow {self.tr(e.left)} {self.tr_int(b)})"
                raise TranslationError("pow exponent " + ast.unparse(b))
            op = {ast.Add: "oadd", ast.Sub: "osub", ast.Mult: "omul", ast.Div: "odiv"}.get(type(e.op))
            if op is None:
                raise TranslationError("operator " + ast.dump(e.op))
            return f"({op} {self.tr(e.left)} {self.tr(e.right)})"
        if isinstance(e, ast.UnaryOp) and isinstance(e.op, ast.USub):
            if isinstance(e.operand, ast.Constant):
                return num(-e.operand.value)
            return f"(oopp {self.tr(e.operand)})"
        if isinstance(e, ast.UnaryOp) and isinstance(e.op, ast.UAdd):
            return self.tr(e.operand)
        if isinstance(e, ast.Constant):
            return num(e.value)
        if isinstance(e, (ast.Name, ast.Attribute, ast.Subscript)):
            key = ast.unparse(e)
            if key in self.env:
                return self.env[key]
            if isinstance(e, ast.Attribute) and e.attr == "real":
                if self.on_real is None:
                    raise TranslationError(".real not allowed here")
                self.on_real(ast.unparse(e.value))
                return self.tr(e.value)
            raise TranslationError("unknown name " + key)
        if isinstance(e, ast.Call):
            fn = ast.unparse(e.func)
            if fn == "float" and len(e.args) == 1 and not e.keywords:      # a cast: the identity in exact arithmetic
                return self.tr(e.args[0])
            if fn in self.calls and not e.keywords:
                return self.calls[fn](*[self.tr(a) for a in e.args])
            raise TranslationError("call " + fn)
        raise TranslationError("expression " + ast.dump(e)[:100])

    def tr_int(self, e):
        """integer-valued (Z) expression: names bound as 'int:<name>', literals, + - *"""
        if isinstance(e, ast.Constant) and isinstance(e.value, int) and not isinstance(e.value, bool):
            return "(%d)%%Z" % e.value
        if isinstance(e, ast.Name) and "int:" + e.id in self.env:
            return self.env["int:" + e.id]
        if isinstance(e, ast.BinOp) and type(e.op) in (ast.Add, ast.Sub, ast.Mult):
            op = {ast.Add: "Z.add", ast.Sub: "Z.sub", ast.Mult: "Z.mul"}[type(e.op)]
            return f"({op} {self.tr_int(e.left)} {self.tr_int(e.right)})"
        raise TranslationError("integer expression " + ast.unparse(e))


def find_class(tree, name):
    for n in tree.body:
        if isinstance(n, ast.ClassDef) and n.name == name:
            return n
    raise TranslationError("class " + name + " not found")


def find_func(body, name):
    for n in body:
        if isinstance(n, ast.FunctionDef) and n.name == name:
            return n
    raise TranslationError("function " + name + " not found")


def strip_doc(body):
    if body and isinstance(body[0], ast.Expr) and isinstance(getattr(body[0], "value", None), ast.Constant) and isinstance(body[0].value.value, str):
        return body[1:]
    return body


def write_if_changed(path, text):
    os.makedirs(os.path.dirname(path), exist_ok=True)
    old = open(path).read() if os.path.exists(path) else None
    if old != text:
        open(path, "w").write(text)
        return True
    return False
