"""Translator: the Wave stepper (exponax/stepper/_wave.py) -> coq/theories/Gen/WaveGen.v (C01).

Wave diagonalises a 2 x 2 first-order system by hand, so its `_build_linear_operator` alone means nothing (linops.py excludes it).  Here the
whole `step_fourier` is translated for ONE Fourier mode: h, v are the two channels of u_hat at that mode, rho the value of
self.wavenumber_norm there, ii the imaginary unit, sqrt2 the value of jnp.sqrt(2), Ep / Em the factors exp(dt * lambda) of the order-0
integrator for the two entries of the linear operator (C01: order 0 multiplies mode k by exp(dt lambda_k), translated by etdrk.py).

  _forward_transform, _inverse_transform   scalar statements through pyexpr (1j -> ii, jnp.sqrt(2) -> sqrt2,
                                            jnp.where(x == 0, 1.0, x) -> if oeqb x 0 then 1 else x), channel slices u[0:1], u[1:2] -> the two
                                            scalars, jnp.concatenate([a, b], axis=0) -> the pair
  _build_linear_operator                   -> gen_wave_symbol (the pair of eigenvalues)
  step_fourier                             forward, integrator, inverse, then `.at[h_dc_idx].add(self.dt * u_hat[v_dc_idx])` with the index
                                            tuples (0, 0, ...) / (1, 0, ...) (text): the mean mode of h receives dt * v
  __init__                                 text: wavenumber_norm = norm of build_scaled_wavenumbers over axis 0, two channels, order 0

Anything else raises TranslationError (the generated file becomes a stub)."""
import ast
import os

from .pyexpr import Expr, TranslationError, find_class, find_func, strip_doc, write_if_changed

REPO = os.environ.get("VERIF_REPO", "/repo")
OUT = os.path.join(os.path.dirname(os.path.dirname(os.path.dirname(os.path.abspath(__file__)))), "coq", "theories", "Gen", "WaveGen.v")


def same(node, text):
    return ast.unparse(node) == ast.unparse(ast.parse(text).body[0])


class WExpr(Expr):
    def tr(self, e):
        if isinstance(e, ast.Constant) and isinstance(e.value, complex):
            if e.value == 1j:
                return "ii"
            raise TranslationError("complex literal " + repr(e.value))
        if isinstance(e, ast.Call) and ast.unparse(e.func) == "jnp.where" and len(e.args) == 3 and not e.keywords:
            c, a, b = e.args
            if (isinstance(c, ast.Compare) and len(c.ops) == 1 and isinstance(c.ops[0], ast.Eq) and ast.unparse(c.comparators[0]) == "0"
                    and ast.unparse(c.left) == ast.unparse(b)):
                return f"(if oeqb {self.tr(c.left)} o0 then {self.tr(a)} else {self.tr(b)})"
            raise TranslationError("jnp.where form " + ast.unparse(e))
        if isinstance(e, ast.Call) and ast.unparse(e) == "jnp.sqrt(2)":
            return "sqrt2"
        return super().tr(e)


def tr_transform(fn, arg, first, second):
    """unpack the two channels, scalar lets, return the pair"""
    body = strip_doc(fn.body)
    if [a.arg for a in fn.args.args] != ["self", arg]:
        raise TranslationError(fn.name + " signature")
    st = body[0]
    if not same(st, f"{first}, {second} = ({arg}[0:1], {arg}[1:2])"):
        raise TranslationError(fn.name + ": channel split " + ast.unparse(st))
    env = {first: "a", second: "b", "self.speed_of_sound": "c", "self.wavenumber_norm": "rho"}
    lets = []
    for st in body[1:-1]:
        if not (isinstance(st, ast.Assign) and len(st.targets) == 1 and isinstance(st.targets[0], ast.Name)):
            raise TranslationError(fn.name + ": statement " + ast.unparse(st))
        nm = st.targets[0].id
        lets.append(f"let v_{nm} := {WExpr(env).tr(st.value)} in")
        env = dict(env)
        env[nm] = "v_" + nm
    ret = body[-1]
    if not (isinstance(ret, ast.Return) and isinstance(ret.value, ast.Call) and ast.unparse(ret.value.func) == "jnp.concatenate"
            and len(ret.value.args) == 1 and isinstance(ret.value.args[0], ast.List) and len(ret.value.args[0].elts) == 2
            and [(k.arg, ast.unparse(k.value)) for k in ret.value.keywords] == [("axis", "0")]):
        raise TranslationError(fn.name + ": return " + ast.unparse(ret))
    x, y = (WExpr(env).tr(e) for e in ret.value.args[0].elts)
    return "\n    ".join(lets) + f"\n    ({x}, {y})"


def generate():
    cls = find_class(ast.parse(open(os.path.join(REPO, "exponax/stepper/_wave.py")).read()), "Wave")
    init = strip_doc(find_func(cls.body, "__init__").body)
    want = ["self.speed_of_sound = speed_of_sound",
            "self.wavenumber_norm = jnp.linalg.norm(build_scaled_wavenumbers(num_spatial_dims=num_spatial_dims, domain_extent=domain_extent, num_points=num_points), axis=0, keepdims=True)",
            "super().__init__(num_spatial_dims=num_spatial_dims, domain_extent=domain_extent, num_points=num_points, dt=dt, num_channels=2, order=0)"]
    if len(init) != 3 or not all(same(a, t) for a, t in zip(init, want)):
        raise TranslationError("Wave.__init__: " + repr([ast.unparse(x) for x in init])[:400])
    fwd = tr_transform(find_func(cls.body, "_forward_transform"), "u_hat", "h_hat", "v_hat")
    inv = tr_transform(find_func(cls.body, "_inverse_transform"), "waves_hat", "pos", "neg")
    lo = strip_doc(find_func(cls.body, "_build_linear_operator").body)
    if not (len(lo) == 2 and isinstance(lo[0], ast.Assign) and ast.unparse(lo[0].targets[0]) == "val"
            and same(lo[1], "return jnp.concatenate((val, -val), axis=0)")):
        raise TranslationError("Wave._build_linear_operator")
    val = WExpr({"self.speed_of_sound": "c", "self.wavenumber_norm": "rho"}).tr(lo[0].value)
    sf = strip_doc(find_func(cls.body, "step_fourier").body)
    wsf = ["waves_hat = self._forward_transform(u_hat)", "waves_hat_next = super().step_fourier(waves_hat)",
           "u_hat_next = self._inverse_transform(waves_hat_next)", "h_dc_idx = (0,) + (0,) * self.num_spatial_dims",
           "v_dc_idx = (1,) + (0,) * self.num_spatial_dims", "u_hat_next = u_hat_next.at[h_dc_idx].add(self.dt * u_hat[v_dc_idx])",
           "return u_hat_next"]
    if len(sf) != 7 or not all(same(a, t) for a, t in zip(sf[:5] + sf[6:], wsf[:5] + wsf[6:])):
        raise TranslationError("Wave.step_fourier: " + repr([ast.unparse(x) for x in sf])[:400])
    st = sf[5]
    c = st.value if isinstance(st, ast.Assign) else None
    if not (c is not None and ast.unparse(st.targets[0]) == "u_hat_next" and isinstance(c, ast.Call) and ast.unparse(c.func) == "u_hat_next.at[h_dc_idx].add"
            and len(c.args) == 1 and not c.keywords):
        raise TranslationError("Wave.step_fourier: mean-mode correction " + ast.unparse(st))
    corr = WExpr({"self.dt": "dt", "u_hat[v_dc_idx]": "v"}).tr(c.args[0])
    return ("(* GENERATED by harness/translate/wave.py from /repo/exponax/stepper/_wave.py -- do not edit. *)\n"
            "From Coq Require Import ZArith QArith List Bool.\nFrom EXV Require Import Base.Scalar.\n\n"
            "Section Gen.\n  Variable K : Ops.\n"
            "  (* a, b: the two channels at one mode *)\n"
            f"  Definition gen_wave_forward (ii sqrt2 c rho a b : K) : K * K :=\n    {fwd}.\n"
            f"  Definition gen_wave_inverse (ii sqrt2 c rho a b : K) : K * K :=\n    {inv}.\n"
            f"  Definition gen_wave_symbol (ii c rho : K) : K * K :=\n    let val := {val} in (val, oopp val).\n"
            "  (* Ep, Em: exp(dt * first / second entry of the symbol) (order-0 integrator); is_dc: the mode with all wavenumbers 0 *)\n"
            "  Definition gen_wave_step (ii sqrt2 c rho dt Ep Em : K) (is_dc : bool) (h v : K) : K * K :=\n"
            "    let w := gen_wave_forward ii sqrt2 c rho h v in\n"
            "    let u := gen_wave_inverse ii sqrt2 c rho (omul Ep (fst w)) (omul Em (snd w)) in\n"
            f"    ((if is_dc then oadd (fst u) {corr} else fst u), snd u).\n"
            "End Gen.\n")


def run():
    try:
        text = generate()
    except Exception as e:
        msg = f"{type(e).__name__}: {e}".replace("(*", "( *").replace("*)", "* )")
        write_if_changed(OUT, "(* GENERATED by harness/translate/wave.py -- TRANSLATION FAILED, no definitions.\n   " + msg + " *)\n")
        raise
    return write_if_changed(OUT, text)


if __name__ == "__main__":
    print(generate())
