"""Translator: map_between_resolutions (exponax/_interpolation.py) -> coq/theories/Gen/ResampleGen.v (consumed by Tie/ResampleTie.v, C15).

The function is a fixed pipeline of array operations (transform, divide by the norm-compensation scaling of the old grid, optional oddball
mask of the old grid, copy the mode blocks of the smaller grid into a zero array of the new shape, multiply by the norm-compensation scaling
of the new grid, optional oddball mask of the new grid, inverse transform).  The translator
  * compares every array statement with its expected text (below) - any other statement, order or argument fails closed;
  * TRANSLATES what decides the result: the early-return test, the two mask conditions, the grid size whose mode blocks are copied, and the
    scaling modes, as Gallina over Z / bool:

      gen_mbr_identity n m, gen_mbr_mask_old n m oddball_zero, gen_mbr_mask_new n m oddball_zero, gen_mbr_block_size n m,
      gen_mbr_scaling_mode_old, gen_mbr_scaling_mode_new      (n = old_num_points, m = new_num_points; mode code 10 = norm_compensation)

The callees (build_scaling_array, oddball_filter_mask, get_modes_slices, wavenumber_shape) are translated by spectral.py.
Boolean expressions supported: `and`, <, >, ==, x % 2, integer names / literals, the flag oddball_zero; min(a, b)."""
import ast
import os

from .pyexpr import TranslationError, find_func, strip_doc, write_if_changed

REPO = os.environ.get("VERIF_REPO", "/repo")
OUT = os.path.join(os.path.dirname(os.path.dirname(os.path.dirname(os.path.abspath(__file__)))), "coq", "theories", "Gen", "ResampleGen.v")
NAMES = {"old_num_points": "n", "new_num_points": "m"}
MODES = {"norm_compensation": 10, "reconstruction": 11, "coef_extraction": 12}


def same(node, text):
    return ast.unparse(node) == ast.unparse(ast.parse(text).body[0])


def zexpr(e):
    if isinstance(e, ast.Name) and e.id in NAMES:
        return NAMES[e.id]
    if isinstance(e, ast.Constant) and isinstance(e.value, int) and not isinstance(e.value, bool) and e.value >= 0:
        return str(e.value)
    if isinstance(e, ast.BinOp) and isinstance(e.op, ast.Mod) and isinstance(e.right, ast.Constant) and e.right.value == 2:
        return f"({zexpr(e.left)} mod 2)"
    if isinstance(e, ast.Call) and ast.unparse(e.func) == "min" and len(e.args) == 2 and not e.keywords:
        return f"(Z.min {zexpr(e.args[0])} {zexpr(e.args[1])})"
    raise TranslationError("integer expression " + ast.unparse(e))


def bexpr(e):
    if isinstance(e, ast.BoolOp) and isinstance(e.op, ast.And):
        return "(" + " && ".join(bexpr(v) for v in e.values) + ")"
    if isinstance(e, ast.Name) and e.id == "oddball_zero":
        return "oddball_zero"
    if isinstance(e, ast.Compare) and len(e.ops) == 1:
        op = {ast.Lt: "<?", ast.Gt: ">?", ast.Eq: "=?"}.get(type(e.ops[0]))
        if op:
            return f"({zexpr(e.left)} {op} {zexpr(e.comparators[0])})"
    raise TranslationError("boolean expression " + ast.unparse(e))


def mode_of(call_text_node):
    """build_scaling_array(num_spatial_dims, <points>, mode='<mode>') -> (points name, mode code)"""
    c = call_text_node
    if not (isinstance(c, ast.Call) and ast.unparse(c.func) == "build_scaling_array" and len(c.args) == 2
            and ast.unparse(c.args[0]) == "num_spatial_dims" and isinstance(c.args[1], ast.Name)
            and [k.arg for k in c.keywords] == ["mode"] and isinstance(c.keywords[0].value, ast.Constant)
            and c.keywords[0].value.value in MODES):
        raise TranslationError("scaling array call " + ast.unparse(c))
    return c.args[1].id, MODES[c.keywords[0].value.value]


def generate():
    tree = ast.parse(open(os.path.join(REPO, "exponax", "_interpolation.py")).read())
    fn = find_func(tree.body, "map_between_resolutions")
    if [a.arg for a in fn.args.args] != ["state", "new_num_points"] or [a.arg for a in fn.args.kwonlyargs] != ["oddball_zero"]:
        raise TranslationError("map_between_resolutions signature")
    b = strip_doc(fn.body)
    if len(b) != 13:
        raise TranslationError(f"map_between_resolutions: {len(b)} statements, expected 13")
    fixed = {0: "num_spatial_dims = state.ndim - 1", 1: "old_num_points = state.shape[-1]", 2: "num_channels = state.shape[0]",
             6: "new_state_hat_scaled = jnp.zeros((num_channels,) + wavenumber_shape(num_spatial_dims, new_num_points), dtype=old_state_hat_scaled.dtype)",
             8: "for block_slice in modes_slices:\n    new_state_hat_scaled = new_state_hat_scaled.at[block_slice].set(old_state_hat_scaled[block_slice])",
             11: "new_state = ifft(new_state_hat, num_spatial_dims=num_spatial_dims, num_points=new_num_points)",
             12: "return new_state"}
    for i, t in fixed.items():
        if not same(b[i], t):
            raise TranslationError(f"map_between_resolutions statement {i}: " + ast.unparse(b[i])[:160])
    # 3: early return
    st = b[3]
    if not (isinstance(st, ast.If) and not st.orelse and len(st.body) == 1 and same(st.body[0], "return state")):
        raise TranslationError("early return " + ast.unparse(st))
    ident = bexpr(st.test)
    # 4: old spectrum / scaling of the old grid
    st = b[4]
    if not (isinstance(st, ast.Assign) and ast.unparse(st.targets[0]) == "old_state_hat_scaled" and isinstance(st.value, ast.BinOp)
            and isinstance(st.value.op, ast.Div) and ast.unparse(st.value.left) == "fft(state, num_spatial_dims=num_spatial_dims)"):
        raise TranslationError("old spectrum " + ast.unparse(st))
    pts, mode_old = mode_of(st.value.right)
    if pts != "old_num_points":
        raise TranslationError("old spectrum is scaled with the array of " + pts)
    # 5 / 10: masks
    def mask(st, var, pts):
        if not (isinstance(st, ast.If) and not st.orelse and len(st.body) == 1
                and same(st.body[0], f"{var} *= oddball_filter_mask(num_spatial_dims, {pts})")):
            raise TranslationError("mask statement " + ast.unparse(st)[:160])
        return bexpr(st.test)
    mask_old = mask(b[5], "old_state_hat_scaled", "old_num_points")
    mask_new = mask(b[10], "new_state_hat", "new_num_points")
    # 7: blocks
    st = b[7]
    tgt = st.target if isinstance(st, ast.AnnAssign) else (st.targets[0] if isinstance(st, ast.Assign) else None)
    v = st.value
    if not (tgt is not None and ast.unparse(tgt) == "modes_slices" and isinstance(v, ast.Call) and ast.unparse(v.func) == "get_modes_slices"
            and len(v.args) == 2 and not v.keywords and ast.unparse(v.args[0]) == "num_spatial_dims"):
        raise TranslationError("mode blocks " + ast.unparse(st))
    block = zexpr(v.args[1])
    # 9: scaling of the new grid
    st = b[9]
    if not (isinstance(st, ast.Assign) and ast.unparse(st.targets[0]) == "new_state_hat" and isinstance(st.value, ast.BinOp)
            and isinstance(st.value.op, ast.Mult) and ast.unparse(st.value.left) == "new_state_hat_scaled"):
        raise TranslationError("new spectrum " + ast.unparse(st))
    pts, mode_new = mode_of(st.value.right)
    if pts != "new_num_points":
        raise TranslationError("new spectrum is scaled with the array of " + pts)
    return ("(* GENERATED by harness/translate/resample.py from /repo/exponax/_interpolation.py -- do not edit. *)\n"
            "From Coq Require Import ZArith Bool.\nLocal Open Scope Z_scope.\n\n"
            f"Definition gen_mbr_identity (n m : Z) : bool := {ident}.\n"
            f"Definition gen_mbr_mask_old (n m : Z) (oddball_zero : bool) : bool := {mask_old}.\n"
            f"Definition gen_mbr_mask_new (n m : Z) (oddball_zero : bool) : bool := {mask_new}.\n"
            f"Definition gen_mbr_block_size (n m : Z) : Z := {block}.\n"
            f"Definition gen_mbr_scaling_mode_old : Z := {mode_old}.\n"
            f"Definition gen_mbr_scaling_mode_new : Z := {mode_new}.\n")


def generate_interpolator():
    """FourierInterpolator: the statements are compared with their expected text except for the scaling mode, which is translated"""
    tree = ast.parse(open(os.path.join(REPO, "exponax", "_interpolation.py")).read())
    cls = [n for n in tree.body if isinstance(n, ast.ClassDef) and n.name == "FourierInterpolator"]
    if len(cls) != 1:
        raise TranslationError("class FourierInterpolator")
    init = strip_doc(find_func(cls[0].body, "__init__").body)
    want = {0: "self.num_spatial_dims = state.ndim - 1", 1: "self.domain_extent = domain_extent", 2: "self.num_points = state.shape[-1]",
            4: "self.wavenumbers = build_scaled_wavenumbers(self.num_spatial_dims, self.domain_extent, self.num_points, indexing=indexing)"}
    if len(init) != 5 or not all(same(init[i], t) for i, t in want.items()):
        raise TranslationError("FourierInterpolator.__init__: " + repr([ast.unparse(x) for x in init])[:300])
    st = init[3]
    if not (isinstance(st, ast.Assign) and ast.unparse(st.targets[0]) == "self.state_hat_scaled" and isinstance(st.value, ast.BinOp)
            and isinstance(st.value.op, ast.Div) and ast.unparse(st.value.left) == "fft(state, num_spatial_dims=self.num_spatial_dims)"):
        raise TranslationError("FourierInterpolator: scaled spectrum " + ast.unparse(st))
    c = st.value.right
    if not (isinstance(c, ast.Call) and ast.unparse(c.func) == "build_scaling_array" and [ast.unparse(a) for a in c.args] == ["self.num_spatial_dims", "self.num_points"]
            and sorted(k.arg for k in c.keywords) == ["indexing", "mode"]):
        raise TranslationError("FourierInterpolator: scaling array " + ast.unparse(c))
    kw = {k.arg: k.value for k in c.keywords}
    if ast.unparse(kw["indexing"]) != "indexing" or not (isinstance(kw["mode"], ast.Constant) and kw["mode"].value in MODES):
        raise TranslationError("FourierInterpolator: scaling array arguments " + ast.unparse(c))
    call = strip_doc(find_func(cls[0].body, "__call__").body)
    wantc = ["x_bloated: Float[Array, 'D ... 1'] = jnp.expand_dims(x, axis=space_indices(self.num_spatial_dims))",
             "exp_term: Complex[Array, ...(N // 2) + 1] = jnp.exp(jnp.sum(1j * self.wavenumbers * x_bloated, axis=0))",
             "exp_term: Complex[Array, '1 ... (N//2)+1'] = exp_term[None, ...]",
             "interpolation_operation: Complex[Array, 'C ... (N//2)+1'] = self.state_hat_scaled * exp_term",
             "interpolated_value: Float[Array, C] = jnp.real(jax.vmap(jnp.sum)(interpolation_operation))",
             "return interpolated_value"]

    def strip_ann(n):
        return ast.unparse(ast.Assign(targets=[n.target], value=n.value, lineno=0)) if isinstance(n, ast.AnnAssign) else ast.unparse(n)
    got = [strip_ann(x) for x in call]
    exp = [strip_ann(ast.parse(t).body[0]) for t in wantc]
    if got != exp:
        raise TranslationError("FourierInterpolator.__call__: " + repr(got)[:400])
    return (f"Definition gen_interp_scaling_mode : Z := {MODES[kw['mode'].value]}.\n"
            "(* value at x = Re sum_modes (u_hat / reconstruction scaling) * exp(i sum_c k_c x_c), per channel; wavenumbers scaled by 2 pi / L *)\n")


def run():
    try:
        text = generate() + generate_interpolator()
    except Exception as e:
        msg = f"{type(e).__name__}: {e}".replace("(*", "( *").replace("*)", "* )")
        write_if_changed(OUT, "(* GENERATED by harness/translate/resample.py -- TRANSLATION FAILED, no definitions.\n   " + msg + " *)\n")
        raise
    return write_if_changed(OUT, text)


if __name__ == "__main__":
    print(generate() + generate_interpolator())
