"""Translator: the constructors of the Normalized* / Difficulty* steppers -> coq/theories/Gen/Wiring.v (C13).

Every such class only forwards to its base class: `__init__` stores some attributes, computes locals with the conversion functions of
stepper/generic/_utils.py (translated by genutils.py into Gen/GenericUtils.v) and ends in ONE call `super().__init__(kw=..., ...)`.
The translator follows that chain up to the General* class (whose linear operator / nonlinear function are translated by linops.py and
nonlin.py) and emits the tuple of the values that finally reach the General* constructor (keywords in alphabetical order), as a function of the
arguments of the class under translation:

    Definition gen_wire_<Class> (<constructor arguments of Class>) : <T1 * T2 * ...> := (<term of keyword 1>, <term of keyword 2>, ...).

Types come from the annotations (float -> K, tuple[float, ...] -> list K, bool -> bool, int -> Z; an unannotated argument takes the type
of its default).  Supported statements: `self.x = <name>` (must store a constructor argument or a local under that name - recorded, not
used), `name = <utils function>(x, kw=...)`, `name = <name>`, `name = (0.0,) * order + (x,)`, the final super().__init__ call with
keyword arguments only.  An argument that a class does not pass on takes the base class's default, a constant expression evaluated in
double precision as Python does.  Closed over the package: a class under exponax/stepper/generic whose name starts with Normalized or
Difficulty and that cannot be translated is an error.  Anything else raises TranslationError (the generated file becomes a stub)."""
import ast
import glob
import os
from fractions import Fraction

from .pyexpr import TranslationError, strip_doc, write_if_changed
from . import genutils

REPO = os.environ.get("VERIF_REPO", "/repo")
OUT = os.path.join(os.path.dirname(os.path.dirname(os.path.dirname(os.path.abspath(__file__)))), "coq", "theories", "Gen", "Wiring.v")
COQTY = {"K": "K", "list": "list K", "bool": "bool", "Z": "Z"}


def classes():
    out = {}
    for f in sorted(glob.glob(os.path.join(REPO, "exponax/stepper/generic/_*.py"))):
        for n in ast.parse(open(f).read()).body:
            if isinstance(n, ast.ClassDef):
                out[n.name] = n
    return out


def const_float(e):
    """constant arithmetic expression evaluated as Python evaluates it (double precision)"""
    if isinstance(e, ast.Constant) and isinstance(e.value, (int, float)) and not isinstance(e.value, bool):
        return e.value
    if isinstance(e, ast.UnaryOp) and isinstance(e.op, ast.USub):
        return -const_float(e.operand)
    if isinstance(e, ast.BinOp):
        a, b = const_float(e.left), const_float(e.right)
        if isinstance(e.op, ast.Add):
            return a + b
        if isinstance(e.op, ast.Sub):
            return a - b
        if isinstance(e.op, ast.Mult):
            return a * b
        if isinstance(e.op, ast.Div):
            return a / b
        if isinstance(e.op, ast.Pow):
            return a ** b
    raise TranslationError("not a constant expression: " + ast.unparse(e))


def knum(v):
    f = Fraction(v)
    if f.denominator == 1:
        return f"(fz ({f.numerator}))" if f.numerator < 0 else f"(fz {f.numerator})"
    return f"(fq ({f.numerator} # {f.denominator}))"


def ann_type(a, default):
    if a is not None:
        t = ast.unparse(a)
        if t == "float":
            return "K"
        if t == "bool":
            return "bool"
        if t == "int":
            return "Z"
        if t.startswith("tuple[float"):
            return "list"
        raise TranslationError("annotation " + t)
    if isinstance(default, ast.Constant) and isinstance(default.value, int) and not isinstance(default.value, bool):
        return "Z"
    raise TranslationError("argument without annotation and without an int default")


def signature(cls):
    init = [m for m in cls.body if isinstance(m, ast.FunctionDef) and m.name == "__init__"]
    if len(init) != 1:
        raise TranslationError(cls.name + ": __init__")
    a = init[0].args
    if a.vararg or a.kwarg or a.posonlyargs or a.args[0].arg != "self":
        raise TranslationError(cls.name + ": signature")
    pos = a.args[1:]
    pdef = [None] * (len(pos) - len(a.defaults)) + list(a.defaults)
    params = [(p.arg, ann_type(p.annotation, d), d) for p, d in zip(pos, pdef)]
    params += [(p.arg, ann_type(p.annotation, d), d) for p, d in zip(a.kwonlyargs, a.kw_defaults)]
    return init[0], params


class Val:
    def __init__(self, ty, term):
        self.ty, self.term = ty, term


def asK(v):
    if v.ty == "K":
        return v.term
    if v.ty == "Z":
        return f"(fz {v.term})"
    raise TranslationError("used as a number: " + v.ty)


def ev(e, env, utils):
    if isinstance(e, ast.Name):
        if e.id in env:
            return env[e.id]
        raise TranslationError("unknown name " + e.id)
    if isinstance(e, ast.Constant):
        if isinstance(e.value, bool):
            return Val("bool", "true" if e.value else "false")
        if isinstance(e.value, int):
            return Val("Z", f"({e.value})%Z")
        if isinstance(e.value, float):
            return Val("K", knum(e.value))
    if isinstance(e, ast.Tuple):
        return Val("list", "[" + "; ".join(asK(ev(x, env, utils)) for x in e.elts) + "]")
    if isinstance(e, ast.BinOp) and isinstance(e.op, ast.Add):
        a, b = ev(e.left, env, utils), ev(e.right, env, utils)
        if a.ty == "list" and b.ty == "list":
            return Val("list", f"({a.term} ++ {b.term})")
    if isinstance(e, ast.BinOp) and isinstance(e.op, ast.Mult) and isinstance(e.left, ast.Tuple) and len(e.left.elts) == 1:
        x, n = ev(e.left.elts[0], env, utils), ev(e.right, env, utils)
        if n.ty == "Z":
            return Val("list", f"(repeat {asK(x)} (Z.to_nat {n.term}))")
    if isinstance(e, (ast.BinOp, ast.UnaryOp)):
        return Val("K", knum(const_float(e)))
    if isinstance(e, ast.Call) and isinstance(e.func, ast.Name) and e.func.id in utils and len(e.args) == 1:
        kind, kws = utils[e.func.id]
        got = {k.arg: k.value for k in e.keywords}
        if sorted(got) != sorted(kws):
            raise TranslationError(f"{e.func.id}: keywords {sorted(got)} expected {sorted(kws)}")
        x = ev(e.args[0], env, utils)
        if x.ty != ("list" if kind == "list" else "K") and not (kind == "scalar" and x.ty == "Z"):
            raise TranslationError(f"{e.func.id}: argument type {x.ty}")
        args = " ".join(asK(ev(got[k], env, utils)) for k in kws)
        return Val("list" if kind == "list" else "K", f"({e.func.id} K {args} {x.term if kind == 'list' else asK(x)})")
    raise TranslationError("expression " + ast.unparse(e)[:80])


def run_init(cname, cls, env, utils):
    """execute __init__ of cls in env (argument name -> Val); returns (base class name, kwargs of the super call)"""
    init, _ = signature(cls)
    env = dict(env)
    body = strip_doc(init.body)
    for i, st in enumerate(body):
        if isinstance(st, ast.Assign) and len(st.targets) == 1:
            t = st.targets[0]
            if isinstance(t, ast.Attribute) and ast.unparse(t.value) == "self":
                if not (isinstance(st.value, ast.Name) and st.value.id in env and st.value.id == t.attr):
                    raise TranslationError(f"{cname}: attribute store " + ast.unparse(st))
                continue
            if isinstance(t, ast.Name):
                env[t.id] = ev(st.value, env, utils)
                continue
        if isinstance(st, ast.Expr) and isinstance(st.value, ast.Call) and ast.unparse(st.value.func) == "super().__init__":
            if i != len(body) - 1 or st.value.args:
                raise TranslationError(f"{cname}: super().__init__ must be the last statement and use keywords only")
            if len(cls.bases) != 1 or not isinstance(cls.bases[0], ast.Name):
                raise TranslationError(f"{cname}: bases")
            kws = {}
            for k in st.value.keywords:
                if k.arg is None or k.arg in kws:
                    raise TranslationError(f"{cname}: keyword in super().__init__")
                kws[k.arg] = ev(k.value, env, utils)
            return cls.bases[0].id, kws
        raise TranslationError(f"{cname}: statement " + ast.unparse(st)[:100])
    raise TranslationError(f"{cname}: no super().__init__ call")


def resolve(cname, all_classes, utils):
    cls = all_classes[cname]
    _, params = signature(cls)
    env = {n: Val(t, n) for n, t, _ in params}
    cur, cur_env, chain = cname, env, [cname]
    while not cur.startswith("General"):
        base, kws = run_init(cur, all_classes[cur], cur_env, utils)
        if base not in all_classes:
            raise TranslationError(f"{cur}: base class {base} not found under stepper/generic")
        _, bparams = signature(all_classes[base])
        names = [n for n, _, _ in bparams]
        extra = sorted(set(kws) - set(names))
        if extra:
            raise TranslationError(f"{cur}: passes unknown keywords {extra} to {base}")
        nxt = {}
        for n, t, d in bparams:
            if n in kws:
                v = kws[n]
                if v.ty != t and not (t == "K" and v.ty == "Z"):
                    raise TranslationError(f"{cur} -> {base}: keyword {n} has type {v.ty}, expected {t}")
                nxt[n] = Val(t, asK(v) if t == "K" and v.ty == "Z" else v.term)
            elif base.startswith("General"):
                continue                                   # left to the General class's own default: not emitted
            elif d is not None:
                nxt[n] = ev(d, {}, utils)
                if nxt[n].ty != t:
                    raise TranslationError(f"{base}: default of {n} has type {nxt[n].ty}, expected {t}")
            else:
                raise TranslationError(f"{cur}: required argument {n} of {base} is not passed")
        cur, cur_env = base, nxt
        chain.append(base)
    return params, cur_env, chain, {n: t for n, t, _ in signature(all_classes[cur])[1]}


def generate():
    names = genutils.generate()[1]
    utils = {n: (kind, kws) for n, kind, kws in names}
    # the generated utils take their scalars in the order of their keyword-only arguments
    all_classes = classes()
    todo = [c for c in all_classes if c.startswith("Normalized") or c.startswith("Difficulty")]
    if not todo:
        raise TranslationError("no Normalized* / Difficulty* classes found")
    parts = ["(* GENERATED by harness/translate/wiring.py from /repo/exponax/stepper/generic/_*.py -- do not edit. *)",
             "From Coq Require Import ZArith QArith List Bool.", "From EXV Require Import Base.Scalar Spectral.Symbols Gen.GenericUtils.",
             "Import ListNotations.", "", "Section Wiring.", "  Variable K : Ops.", ""]
    summary = []
    for c in todo:
        params, final, chain, gtypes = resolve(c, all_classes, utils)
        binders = " ".join(f"({n} : {COQTY[t]})" for n, t, _ in params)
        keys = sorted(final)                                 # alphabetical: independent of the order of the parameters in the source
        parts.append(f"  (* {' -> '.join(chain)}\n     keywords reaching {chain[-1]} (alphabetical): {', '.join(keys)} *)")
        ty = " * ".join(("(" + COQTY[gtypes[k]] + ")") if " " in COQTY[gtypes[k]] else COQTY[gtypes[k]] for k in keys)
        parts.append(f"  Definition gen_wire_{c} {binders} : {ty} :=\n    (" + ",\n     ".join(final[k].term for k in keys) + ").")
        summary.append(f"{c}: {', '.join(keys)}")
        parts.append("")
    parts.append("End Wiring.")
    parts.append("(* " + "\n   ".join(summary) + " *)")
    return "\n".join(parts) + "\n"


def run():
    try:
        text = generate()
    except Exception as e:
        msg = f"{type(e).__name__}: {e}".replace("(*", "( *").replace("*)", "* )")
        write_if_changed(OUT, "(* GENERATED by harness/translate/wiring.py -- TRANSLATION FAILED, no definitions.\n   " + msg + " *)\n")
        raise
    return write_if_changed(OUT, text)


if __name__ == "__main__":
    print(generate())
