"""Translator: exponax/metrics -> coq/theories/Gen/MetricsGen.v (consumed by Props/C16.v).

  _spatial.py   spatial_aggregator         -> gen_spatial_aggregator   (abstract real power `powr` and absolute value `absf`;
                                                                         `** num_spatial_dims` is the integer power)
                spatial_norm               -> gen_combine_spatial mode d s r, gen_spatial_norm_raises ref_none mode
                MAE ... sRMSE              -> gen_table_spatial : list (mode * inner exponent * outer exponent), in the order of SPATIAL
  _fourier.py   fourier_norm               -> gen_combine_fourier mode d s r, gen_fourier_norm_raises ref_none mode
                fourier_MAE ... nRMSE      -> gen_table_fourier, in the order of FOURIER
  _derivative.py H1_*                      -> checked: the sum of the Fourier metric of the same name with derivative_order None and 1
  _utils.py     mean_metric                -> checked as text (vmap over axis 0, jnp.mean over axis 0)
  _correlation.py                          -> checked as text (normalise by the 2-norm, dot product, mean over channels)

spatial_norm / fourier_norm are EXECUTED for every mode string ('absolute', 'normalized', 'symmetric', an unknown one) with and without
reference: `jax.vmap(lambda x: <aggregator>(x, <keywords passed through>))(A)` is the per-channel aggregate of A (A = state, state_ref or
their difference: the symbols s, r, d), arithmetic on per-channel values is elementwise, the final jnp.sum adds the channels (checked).
Mode codes: 0 absolute, 1 normalized, 2 symmetric (as in Gen/Guards.v); an unknown mode must behave like 'absolute'.
Anything else raises TranslationError (the generated file becomes a stub)."""
import ast
import os
from fractions import Fraction

from .pyexpr import TranslationError, find_func, strip_doc, write_if_changed

REPO = os.environ.get("VERIF_REPO", "/repo")
OUT = os.path.join(os.path.dirname(os.path.dirname(os.path.dirname(os.path.abspath(__file__)))), "coq", "theories", "Gen", "MetricsGen.v")
MODE = {"absolute": 0, "normalized": 1, "symmetric": 2}
SPATIAL = ["MAE", "nMAE", "sMAE", "MSE", "nMSE", "sMSE", "RMSE", "nRMSE", "sRMSE"]
FOURIER = ["fourier_MAE", "fourier_nMAE", "fourier_MSE", "fourier_nMSE", "fourier_RMSE", "fourier_nRMSE"]
H1 = ["H1_MAE", "H1_nMAE", "H1_MSE", "H1_nMSE", "H1_RMSE", "H1_nRMSE"]


def parse(f):
    return ast.parse(open(os.path.join(REPO, "exponax/metrics", f)).read())


def same(node, text):
    return ast.unparse(node) == ast.unparse(ast.parse(text).body[0])


class Raised(Exception):
    pass


class Ret(Exception):
    def __init__(self, v):
        self.v = v


def run_norm(fn, agg_name, passthrough, mode, has_ref):
    """execute spatial_norm / fourier_norm; returns the per-channel term (before the final sum) or raises Raised"""
    lam_kw = ", ".join(f"{k}={k}" for k in passthrough)
    env = {"state": "state", "state_ref": None if not has_ref else "state_ref", "mode": mode}

    def ev(e):
        if isinstance(e, ast.Name):
            if e.id in env:
                return env[e.id]
            raise TranslationError("unknown name " + e.id)
        if isinstance(e, ast.Constant) and isinstance(e.value, (int, float)) and not isinstance(e.value, bool):
            return ("k", f"(fz {int(e.value)})") if float(e.value).is_integer() else None
        if isinstance(e, ast.BinOp):
            a, b = ev(e.left), ev(e.right)
            if a in ("state", "state_ref") and b in ("state", "state_ref") and isinstance(e.op, ast.Sub) and (a, b) == ("state", "state_ref"):
                return "diff"
            op = {ast.Add: "oadd", ast.Sub: "osub", ast.Mult: "omul", ast.Div: "odiv"}.get(type(e.op))
            if op and isinstance(a, tuple) and isinstance(b, tuple):
                return ("k", f"({op} {a[1]} {b[1]})")
            raise TranslationError("arithmetic " + ast.unparse(e))
        if isinstance(e, ast.Call) and isinstance(e.func, ast.Call) and ast.unparse(e.func.func) == "jax.vmap" and len(e.args) == 1:
            lam = e.func.args[0] if len(e.func.args) == 1 and not e.func.keywords else None
            if not (isinstance(lam, ast.Lambda) and len(lam.args.args) == 1):
                raise TranslationError("vmap argument " + ast.unparse(e))
            v = lam.args.args[0].arg
            if ast.unparse(lam.body) != ast.unparse(ast.parse(f"{agg_name}({v}, {lam_kw})", mode="eval").body):
                raise TranslationError("per-channel aggregation " + ast.unparse(lam))
            a = ev(e.args[0])
            sym = {"diff": "d", "state": "s", "state_ref": "r"}.get(a)
            if sym is None:
                raise TranslationError("aggregate of " + str(a))
            return ("k", sym)
        raise TranslationError("expression " + ast.unparse(e)[:100])

    def test(t):
        if isinstance(t, ast.Compare) and len(t.ops) == 1 and isinstance(t.comparators[0], ast.Constant):
            l = t.left
            if isinstance(t.ops[0], ast.Is) and t.comparators[0].value is None and isinstance(l, ast.Name):
                return env[l.id] is None
            if isinstance(t.ops[0], ast.Eq) and isinstance(l, ast.Name) and l.id == "mode":
                return env["mode"] == t.comparators[0].value
        raise TranslationError("test " + ast.unparse(t))

    def block(stmts):
        for st in stmts:
            if isinstance(st, ast.If):
                block(st.body if test(st.test) else st.orelse)
            elif isinstance(st, ast.Raise):
                raise Raised()
            elif isinstance(st, ast.Assign) and len(st.targets) == 1 and isinstance(st.targets[0], ast.Name):
                v = ev(st.value)
                if st.targets[0].id == "diff" and v == "state":
                    v = "diff"                                        # diff = state when there is no reference: aggregate symbol d
                env[st.targets[0].id] = v
            elif isinstance(st, ast.Return):
                if not (isinstance(st.value, ast.Call) and ast.unparse(st.value.func) == "jnp.sum" and len(st.value.args) == 1 and not st.value.keywords):
                    raise TranslationError("return " + ast.unparse(st))
                raise Ret(ev(st.value.args[0]))
            else:
                raise TranslationError("statement " + ast.unparse(st)[:100])
    try:
        block(strip_doc(fn.body))
    except Ret as r:
        if not (isinstance(r.v, tuple) and r.v[0] == "k"):
            raise TranslationError("result is not a per-channel value")
        return r.v[1]
    raise TranslationError("no return")


def tr_norm(tree, name, agg_name, passthrough, modes):
    fn = find_func(tree.body, name)
    res = {}
    for m in list(modes) + ["no such mode"]:
        for has_ref in (True, False):
            try:
                res[(m, has_ref)] = run_norm(fn, agg_name, passthrough, m, has_ref)
            except Raised:
                res[(m, has_ref)] = None
    if res[("no such mode", True)] != res[("absolute", True)] or res[("no such mode", False)] != res[("absolute", False)]:
        raise TranslationError(name + ": an unknown mode does not behave like 'absolute'")
    for m in modes:
        if res[(m, True)] is None:
            raise TranslationError(f"{name}: mode {m} raises with a reference")
        if res[(m, False)] not in (None, "d"):
            raise TranslationError(f"{name}: without a reference mode {m} gives {res[(m, False)]}")
    if res[("absolute", False)] != "d":
        raise TranslationError(name + ": absolute without reference")
    chain = res[("absolute", True)]
    for m in reversed([x for x in modes if x != "absolute"]):
        chain = f"if (mode =? {MODE[m]})%Z then {res[(m, True)]} else {chain}"
    raising = [m for m in modes if res[(m, False)] is None]
    rz = " || ".join(f"(mode =? {MODE[m]})%Z" for m in raising) or "false"
    short = name.split("_")[0]
    return (f"  Definition gen_combine_{short} (mode : Z) (d s r : K) : K := {chain}.\n"
            f"  Definition gen_{short}_norm_raises (ref_none : bool) (mode : Z) : bool := ref_none && ({rz}).")


def knum(v):
    f = Fraction(v)
    return f"({f.numerator} # {f.denominator})%Q"


def tr_table(tree, names, target, extra):
    rows = []
    for nm in names:
        fn = find_func(tree.body, nm)
        b = strip_doc(fn.body)
        if len(b) != 1 or not isinstance(b[0], ast.Return) or not isinstance(b[0].value, ast.Call) or ast.unparse(b[0].value.func) != target:
            raise TranslationError(nm + ": body")
        c = b[0].value
        if [ast.unparse(a) for a in c.args] != ["u_pred", "u_ref"]:
            raise TranslationError(nm + ": positional arguments")
        kw = {k.arg: k.value for k in c.keywords}
        if sorted(kw) != sorted(["mode", "domain_extent", "inner_exponent", "outer_exponent"] + extra):
            raise TranslationError(f"{nm}: keywords {sorted(kw)}")
        for k in ["domain_extent"] + extra:
            if ast.unparse(kw[k]) != k:
                raise TranslationError(f"{nm}: {k} is not passed through")
        m, i, o = kw["mode"], kw["inner_exponent"], kw["outer_exponent"]
        if not (isinstance(m, ast.Constant) and m.value in MODE and all(isinstance(x, ast.Constant) and isinstance(x.value, (int, float)) for x in (i, o))):
            raise TranslationError(nm + ": mode / exponents")
        rows.append(f"({MODE[m.value]}%Z, {knum(i.value)}, {knum(o.value)})")
    return "[" + "; ".join(rows) + "]"


def check_h1():
    tree = parse("_derivative.py")
    for nm in H1:
        base = "fourier_" + nm[3:]
        b = strip_doc(find_func(tree.body, nm).body)
        if len(b) != 3 or not isinstance(b[2], ast.Return):
            raise TranslationError(nm + ": body")
        got = []
        for st, order in zip(b[:2], ("None", "1")):
            want = f"x = {base}(u_pred, u_ref, domain_extent=domain_extent, low=low, high=high, derivative_order={order})"
            if not (isinstance(st, ast.Assign) and ast.unparse(st.value) == ast.unparse(ast.parse(want).body[0].value)):
                raise TranslationError(f"{nm}: part {order}: " + ast.unparse(st))
            got.append(ast.unparse(st.targets[0]))
        if ast.unparse(b[2].value) != f"{got[0]} + {got[1]}":
            raise TranslationError(nm + ": is not the sum of its two parts")


def tr_aggregator(tree):
    fn = find_func(tree.body, "spatial_aggregator")
    b = strip_doc(fn.body)
    want = {0: "if num_spatial_dims is None:\n    num_spatial_dims = state_no_channel.ndim", 1: "if num_points is None:\n    num_points = state_no_channel.shape[-1]",
            2: "if outer_exponent is None:\n    outer_exponent = 1 / inner_exponent"}
    if len(b) != 6 or not all(same(b[i], t) for i, t in want.items()):
        raise TranslationError("spatial_aggregator: defaults")
    if not (same(b[3], "scale = (domain_extent / num_points) ** num_spatial_dims") and same(b[4], "aggregated = jnp.sum(jnp.abs(state_no_channel) ** inner_exponent)")
            and same(b[5], "return (scale * aggregated) ** outer_exponent")):
        # the three value statements are translated below from their structure; their text is the contract of this small function
        raise TranslationError("spatial_aggregator: value statements " + repr([ast.unparse(x) for x in b[3:]]))
    return ("  Definition gen_spatial_aggregator (powr : K -> K -> K) (absf : K -> K) (D : nat) (N : Z) (L inner outer : K) (u : list K) : K :=\n"
            "    let scale := fpow (odiv L (fz N)) D in\n"
            "    let aggregated := fsum (map (fun x => powr (absf x) inner) u) in\n"
            "    powr (omul scale aggregated) outer.\n"
            "  Definition gen_default_outer (inner : K) : K := odiv (fz 1) inner.")


def check_text():
    u = strip_doc(find_func(parse("_utils.py").body, "mean_metric").body)
    want = ["def wrapped_fn(*a):\n    return metric_fn(*a, **kwargs)", "metric_per_sample = jax.vmap(wrapped_fn, in_axes=0)(*args)",
            "return jnp.mean(metric_per_sample, axis=0)"]
    if len(u) != 3 or not all(same(a, t) for a, t in zip(u, want)):
        raise TranslationError("mean_metric")
    c = parse("_correlation.py")
    a = strip_doc(find_func(c.body, "_correlation").body)
    wa = ["u_pred_normalized = u_pred / jnp.linalg.norm(u_pred)", "u_ref_normalized = u_ref / jnp.linalg.norm(u_ref)",
          "correlation = jnp.dot(u_pred_normalized.flatten(), u_ref_normalized.flatten())", "return correlation"]
    b = strip_doc(find_func(c.body, "correlation").body)
    wb = ["channel_wise_correlation = jax.vmap(_correlation)(u_pred, u_ref)", "correlation = jnp.mean(channel_wise_correlation)", "return correlation"]
    if len(a) != 4 or len(b) != 3 or not all(same(x, t) for x, t in zip(a + b, wa + wb)):
        raise TranslationError("correlation")


def generate():
    sp, fo = parse("_spatial.py"), parse("_fourier.py")
    check_h1()
    check_text()
    parts = ["(* GENERATED by harness/translate/metrics.py from /repo/exponax/metrics -- do not edit. *)",
             "From Coq Require Import ZArith QArith List Bool.", "From EXV Require Import Base.Scalar.", "Import ListNotations.", "",
             "Section Gen.", "  Variable K : Ops.",
             tr_aggregator(sp),
             tr_norm(sp, "spatial_norm", "spatial_aggregator", ["domain_extent", "inner_exponent", "outer_exponent"], ["absolute", "normalized", "symmetric"]),
             tr_norm(fo, "fourier_norm", "fourier_aggregator", ["domain_extent", "inner_exponent", "outer_exponent", "low", "high", "derivative_order"],
                     ["absolute", "normalized"]),
             "End Gen.",
             "(* (mode, inner exponent, outer exponent) of " + ", ".join(SPATIAL) + " *)",
             "Definition gen_table_spatial : list (Z * Q * Q) :=\n  " + tr_table(sp, SPATIAL, "spatial_norm", []) + ".",
             "(* ... of " + ", ".join(FOURIER) + "; H1_x = fourier_x with derivative_order None + fourier_x with derivative_order 1 (checked) *)",
             "Definition gen_table_fourier : list (Z * Q * Q) :=\n  " + tr_table(fo, FOURIER, "fourier_norm", ["low", "high", "derivative_order"]) + ".",
             "Definition gen_H1_derivative_orders : list (option Z) := [None; Some 1%Z]."]
    return "\n".join(parts) + "\n"


def run():
    try:
        text = generate()
    except Exception as e:
        msg = f"{type(e).__name__}: {e}".replace("(*", "( *").replace("*)", "* )")
        write_if_changed(OUT, "(* GENERATED by harness/translate/metrics.py -- TRANSLATION FAILED, no definitions.\n   " + msg + " *)\n")
        raise
    return write_if_changed(OUT, text)


if __name__ == "__main__":
    print(generate())
