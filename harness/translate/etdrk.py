"""Translator: exponax/etdrk/_etdrk_{0..4}.py, _base_etdrk.py, _utils.py -> coq/theories/Gen/ETDRK.v

Emits, per order p: the integrand of every coefficient (closed form in lr, e = exp(lr), eh = exp(lr/2)) resolved through the
accumulate / mean / `dt *` / alias chain, the flags `.real applied` and `real-valued accumulator`, the contour point `lr`,
the half-step exponent, and the stage program of step_fourier as a Gallina term over pointwise-lifted states.
Anything outside the expected shape raises TranslationError (= tie broken)."""
import ast
import os

from .pyexpr import Expr, TranslationError, find_class, find_func, strip_doc, write_if_changed

REPO = os.environ.get("VERIF_REPO", "/repo")
OUT = os.path.join(os.path.dirname(os.path.dirname(os.path.dirname(os.path.abspath(__file__)))), "coq", "theories", "Gen", "ETDRK.v")


def _target_names(t):
    if isinstance(t, ast.Name):
        return [t.id]
    if isinstance(t, ast.Tuple):
        return [x.id for x in t.elts]
    raise TranslationError("assignment target " + ast.unparse(t))


def translate_coefs(p):
    src = open(f"{REPO}/exponax/etdrk/_etdrk_{p}.py").read()
    cls = find_class(ast.parse(src), f"ETDRK{p}")
    init = find_func(cls.body, "__init__")
    argnames = [a.arg for a in init.args.args] + [a.arg for a in init.args.kwonlyargs]
    if argnames != ["self", "dt", "linear_operator", "nonlinear_fun", "num_circle_points", "circle_radius"]:
        raise TranslationError(f"ETDRK{p}.__init__ signature {argnames}")
    res = dict(real_flags={}, integrand={}, alias={}, half_exp=None, real_acc=False)
    sym = {}       # python local -> ('acc', i) | ('mean', i) | ('roots',) | ('zeros', real?)
    scan_out = None
    closed = {}
    for st in strip_doc(init.body):
        s = ast.unparse(st)
        if s == "super().__init__(dt, linear_operator)":
            continue
        if s == "self._nonlinear_fun = nonlinear_fun":
            continue
        if isinstance(st, ast.FunctionDef) and st.name == "scan_body":
            a = [x.arg for x in st.args.args]
            if len(a) != 2:
                raise TranslationError("scan_body arity")
            accname, rootname = a
            env = {}
            for b in st.body:
                if isinstance(b, ast.Assign) and len(b.targets) == 1 and isinstance(b.targets[0], ast.Name):
                    nm = b.targets[0].id
                    if nm == "lr":
                        res["lr"] = Expr({"circle_radius": "r", rootname: "w", "L_dt": "z"}).tr(b.value)
                        env["lr"] = "lr"
                    elif nm == "exp_lr":
                        if ast.unparse(b.value) != "jnp.exp(lr)":
                            raise TranslationError("exp_lr = " + ast.unparse(b.value))
                        env["exp_lr"] = "e"
                    elif nm == "exp_lr_half":
                        v = b.value
                        if not (isinstance(v, ast.Call) and ast.unparse(v.func) == "jnp.exp" and len(v.args) == 1):
                            raise TranslationError("exp_lr_half = " + ast.unparse(v))
                        res["half_arg"] = Expr({"lr": "lr"}).tr(v.args[0])
                        env["exp_lr_half"] = "eh"
                    else:
                        flags = []
                        closed[nm] = (Expr(dict(env), on_real=lambda what: flags.append(what)).tr(b.value), bool(flags))
                elif isinstance(b, ast.Return):
                    if not (isinstance(b.value, ast.Tuple) and len(b.value.elts) == 2 and ast.unparse(b.value.elts[1]) == "None"):
                        raise TranslationError("scan_body return " + ast.unparse(b.value))
                    outs = b.value.elts[0]
                    outs = outs.elts if isinstance(outs, ast.Tuple) else [outs]
                    scan_out = []
                    for i, o in enumerate(outs):
                        if not (isinstance(o, ast.BinOp) and isinstance(o.op, ast.Add)):
                            raise TranslationError("accumulator update " + ast.unparse(o))
                        lhs = ast.unparse(o.left)
                        if lhs not in (f"{accname}[{i}]", accname if len(outs) == 1 else "?"):
                            raise TranslationError("accumulator update " + ast.unparse(o))
                        if isinstance(o.right, ast.Name) and o.right.id in closed:
                            scan_out.append(closed[o.right.id])
                        else:
                            flags = []
                            scan_out.append((Expr(dict(env), on_real=lambda what: flags.append(what)).tr(o.right), bool(flags)))
                else:
                    raise TranslationError("scan_body statement " + ast.unparse(b))
            continue
        if not isinstance(st, ast.Assign) or len(st.targets) != 1:
            raise TranslationError("statement " + s)
        tgt, val = st.targets[0], st.value
        ts = ast.unparse(tgt)
        vs = ast.unparse(val)
        if ts == "self._half_exp_term":
            if not (isinstance(val, ast.Call) and ast.unparse(val.func) == "jnp.exp" and len(val.args) == 1):
                raise TranslationError("_half_exp_term = " + vs)
            res["half_exp"] = Expr({"dt": "dt", "linear_operator": "lam"}).tr(val.args[0])
        elif ts == "roots":
            if vs != "roots_of_unity(num_circle_points)":
                raise TranslationError("roots = " + vs)
        elif ts == "L_dt":
            res["Ldt"] = Expr({"dt": "dt", "linear_operator": "lam"}).tr(val)
        elif ts == "zeros":
            if vs == "jnp.zeros_like(L_dt)":
                sym["zeros"] = False
            elif vs == "jnp.zeros_like(L_dt.real)":
                sym["zeros"] = True
            else:
                raise TranslationError("zeros = " + vs)
        elif isinstance(val, ast.Call) and ast.unparse(val.func) == "jax.lax.scan":
            if scan_out is None or len(val.args) != 3 or ast.unparse(val.args[0]) != "scan_body" or ast.unparse(val.args[2]) != "roots" or val.keywords:
                raise TranslationError("scan call " + vs)
            init_s = ast.unparse(val.args[1])
            k = len(scan_out)
            real_acc = None
            if init_s in ("jnp.zeros_like(L_dt)",) and k == 1:
                real_acc = False
            elif init_s in ("jnp.zeros_like(L_dt.real)",) and k == 1:
                real_acc = True
            elif init_s in (f"(zeros,) * {k}", "(" + ", ".join(["zeros"] * k) + ")") and "zeros" in sym:
                real_acc = sym["zeros"]
            else:
                raise TranslationError("scan init " + init_s)
            res["real_acc"] = real_acc
            if not (isinstance(tgt, ast.Tuple) and len(tgt.elts) == 2 and ast.unparse(tgt.elts[1]) == "_"):
                raise TranslationError("scan targets " + ts)
            names = _target_names(tgt.elts[0])
            if len(names) != k:
                raise TranslationError("scan targets arity")
            for i, nm in enumerate(names):
                sym[nm] = ("sum", i)
        elif isinstance(tgt, ast.Name) and isinstance(val, ast.BinOp) and isinstance(val.op, ast.Div):
            if not (isinstance(val.left, ast.Name) and sym.get(val.left.id, (None,))[0] == "sum" and ast.unparse(val.right) == "num_circle_points"):
                raise TranslationError("mean " + s)
            sym[tgt.id] = ("mean", sym[val.left.id][1])
        elif ts.startswith("self._coef_"):
            j = int(ts.split("_")[-1])
            if isinstance(val, ast.BinOp) and isinstance(val.op, ast.Mult) and ast.unparse(val.left) == "dt" and isinstance(val.right, ast.Name) \
                    and sym.get(val.right.id, (None,))[0] == "mean":
                expr, real = scan_out[sym[val.right.id][1]]
                res["integrand"][j] = expr
                res["real_flags"][j] = real
            elif vs.startswith("self._coef_") and int(vs.split("_")[-1]) in res["integrand"]:
                k2 = int(vs.split("_")[-1])
                res["alias"][j] = k2
                res["integrand"][j] = res["integrand"][k2]
                res["real_flags"][j] = res["real_flags"][k2]
            else:
                raise TranslationError("coefficient " + s)
        else:
            raise TranslationError("statement " + s)
    for key in ("lr", "Ldt"):
        if key not in res:
            raise TranslationError(f"ETDRK{p}: missing {key}")
    return res


class StepExpr(Expr):
    """expressions of step_fourier: names are per-mode functions applied at k; self._nonlinear_fun(x) is (NL x k)"""

    def __init__(self, fields, locals_):
        self.fields, self.locals_ = fields, locals_
        super().__init__({})

    def tr(self, e):
        if isinstance(e, ast.Call) and ast.unparse(e.func) == "self._nonlinear_fun":
            if len(e.args) != 1 or not isinstance(e.args[0], ast.Name) or e.args[0].id not in self.locals_:
                raise TranslationError("nonlinear_fun argument " + ast.unparse(e))
            return f"(NL {e.args[0].id} k)"
        if isinstance(e, ast.Name) and e.id in self.locals_:
            return f"({e.id} k)"
        if isinstance(e, ast.Attribute) and ast.unparse(e) in self.fields:
            return f"({self.fields[ast.unparse(e)]} k)"
        return super().tr(e)


def translate_step(p, ncoef):
    src = open(f"{REPO}/exponax/etdrk/_etdrk_{p}.py").read()
    cls = find_class(ast.parse(src), f"ETDRK{p}")
    fn = find_func(cls.body, "step_fourier")
    if [a.arg for a in fn.args.args] != ["self", "u_hat"]:
        raise TranslationError("step_fourier signature")
    fields = {"self._exp_term": "E", "self._half_exp_term": "Eh"}
    for j in ncoef:
        fields[f"self._coef_{j}"] = f"c{j}"
    locals_ = ["u_hat"]
    lines = []
    ret = None
    for st in strip_doc(fn.body):
        if isinstance(st, ast.Assign) and len(st.targets) == 1 and isinstance(st.targets[0], ast.Name):
            nm = st.targets[0].id
            v = st.value
            if isinstance(v, ast.Call) and ast.unparse(v.func) == "self._nonlinear_fun":
                if len(v.args) != 1 or not isinstance(v.args[0], ast.Name) or v.args[0].id not in locals_:
                    raise TranslationError("nonlinear_fun argument " + ast.unparse(v))
                lines.append(f"  let {nm} := NL {v.args[0].id} in")
            else:
                lines.append(f"  let {nm} := (fun k : I => {StepExpr(fields, locals_).tr(v)}) in")
            locals_.append(nm)
        elif isinstance(st, ast.Return):
            if isinstance(st.value, ast.Name) and st.value.id in locals_:
                ret = f"  {st.value.id}"
            else:
                ret = f"  (fun k : I => {StepExpr(fields, locals_).tr(st.value)})"
        else:
            raise TranslationError("step_fourier statement " + ast.unparse(st))
    if ret is None:
        raise TranslationError("step_fourier has no return")
    used_eh = "Eh" in "\n".join(lines + [ret])
    params = "E " + ("Eh " if p >= 3 else "") + " ".join(f"c{j}" for j in sorted(ncoef))
    if used_eh and p < 3:
        raise TranslationError("half exponential used in order < 3")
    hdr = f"Definition etdrk{p}_step (I : Type) ({params} : I -> K) (NL : (I -> K) -> (I -> K)) (u_hat : I -> K) : I -> K :=" if params.strip() != "E" \
        else f"Definition etdrk{p}_step (I : Type) (E : I -> K) (NL : (I -> K) -> (I -> K)) (u_hat : I -> K) : I -> K :="
    return "\n".join([hdr] + lines + [ret + "."])


def translate_base():
    src = open(f"{REPO}/exponax/etdrk/_base_etdrk.py").read()
    cls = find_class(ast.parse(src), "BaseETDRK")
    init = find_func(cls.body, "__init__")
    got = [ast.unparse(s) for s in strip_doc(init.body)]
    if got[0] != "self.dt = dt":
        raise TranslationError("BaseETDRK.__init__: " + got[0])
    st = strip_doc(init.body)[1]
    if not (isinstance(st, ast.Assign) and ast.unparse(st.targets[0]) == "self._exp_term" and isinstance(st.value, ast.Call)
            and ast.unparse(st.value.func) == "jnp.exp" and len(st.value.args) == 1) or len(got) != 2:
        raise TranslationError("BaseETDRK._exp_term")
    return Expr({"self.dt": "dt", "dt": "dt", "linear_operator": "lam"}).tr(st.value.args[0])


def translate_roots():
    src = open(f"{REPO}/exponax/etdrk/_utils.py").read()
    fn = find_func(ast.parse(src).body, "roots_of_unity")
    body = strip_doc(fn.body)
    if len(body) != 1 or not isinstance(body[0], ast.Return):
        raise TranslationError("roots_of_unity body")
    v = body[0].value
    # expected: jnp.exp(2j * jnp.pi * <rational expression in arange(1, M+1), M>)
    if not (isinstance(v, ast.Call) and ast.unparse(v.func) == "jnp.exp" and len(v.args) == 1):
        raise TranslationError("roots_of_unity: not an exponential")
    arg = v.args[0]
    # peel the factor 2j*pi: arg = ((2j * pi) * X) / M   or  (2j*pi*X/M) in any association handled by the calls table
    calls = {"jnp.arange": None}
    rng = []

    class R(Expr):
        def tr(self, e):
            if isinstance(e, ast.Call) and ast.unparse(e.func) == "jnp.arange":
                rng.append(ast.unparse(e))
                return "j"
            if isinstance(e, ast.Constant) and isinstance(e.value, complex):
                if e.value.real != 0:
                    raise TranslationError("complex literal")
                from .pyexpr import num
                return f"(omul ii {num(e.value.imag)})"
            if isinstance(e, ast.Attribute) and ast.unparse(e) == "jnp.pi":
                return "pi"
            return super().tr(e)
    txt = R({"M": "M"}).tr(arg)
    if rng != ["jnp.arange(1, M + 1)"]:
        raise TranslationError("roots_of_unity index range " + str(rng))
    return txt


def generate():
    parts = ["(* GENERATED by harness/translate/etdrk.py from /repo/exponax/etdrk/*.py -- do not edit. *)",
             "From Coq Require Import ZArith QArith List Bool.", "From EXV Require Import Base.Scalar.", "Import ListNotations.",
             "Local Open Scope fld_scope.", "", "Section GenETDRK.", "  Variable K : Ops.", ""]
    parts.append(f"Definition base_exp_arg (dt lam : K) : K := {translate_base()}.")
    parts.append(f"(* roots_of_unity M = exp (root_arg ii pi j M) for j = 1..M, ii = imaginary unit *)")
    parts.append(f"Definition root_arg (ii pi j M : K) : K := {translate_roots()}.")
    flags = []
    for p in (1, 2, 3, 4):
        r = translate_coefs(p)
        parts.append(f"\n(* ---- ETDRK{p} ---- *)")
        parts.append(f"Definition etdrk{p}_Ldt (dt lam : K) : K := {r['Ldt']}.")
        parts.append(f"Definition etdrk{p}_lr (r w z : K) : K := {r['lr']}.")
        if p >= 3:
            if r.get("half_exp") is None or "half_arg" not in r:
                raise TranslationError(f"ETDRK{p}: half-step exponential missing")
            parts.append(f"Definition etdrk{p}_half_exp_arg (dt lam : K) : K := {r['half_exp']}.")
            parts.append(f"Definition etdrk{p}_half_arg (lr : K) : K := {r['half_arg']}.")
        for j in sorted(r["integrand"]):
            parts.append(f"Definition etdrk{p}_integrand_{j} (lr e eh : K) : K := {r['integrand'][j]}.")
            flags.append((p, j, r["real_flags"][j] or r["real_acc"]))
        parts.append(translate_step(p, sorted(r["integrand"])))
    # ETDRK0
    src = open(f"{REPO}/exponax/etdrk/_etdrk_0.py").read()
    fn = find_func(find_class(ast.parse(src), "ETDRK0").body, "step_fourier")
    body = strip_doc(fn.body)
    if len(body) != 1 or not isinstance(body[0], ast.Return):
        raise TranslationError("ETDRK0.step_fourier")
    parts.append("\n(* ---- ETDRK0 ---- *)")
    parts.append("Definition etdrk0_step (I : Type) (E : I -> K) (u_hat : I -> K) : I -> K :=\n  (fun k : I => "
                 + StepExpr({"self._exp_term": "E"}, ["u_hat"]).tr(body[0].value) + ").")
    parts.append("\nEnd GenETDRK.\n")
    for p in (0, 1, 2, 3, 4):
        parts.append(f"Arguments etdrk{p}_step K {{I}}.")
    parts.append("(* (order, coefficient index, real part taken?) *)")
    parts.append("Definition etdrk_takes_real : list (nat * nat * bool) :=\n  [" + "; ".join(f"({p}, {j}, {'true' if f else 'false'})" for p, j, f in flags) + "]%nat.")
    # order dispatch in BaseStepper.__init__
    parts.append(translate_dispatch())
    parts.append(check_base_plumbing())
    return "\n".join(parts) + "\n"


def translate_dispatch():
    src = open(f"{REPO}/exponax/_base_stepper.py").read()
    init = find_func(find_class(ast.parse(src), "BaseStepper").body, "__init__")
    chain = [s for s in init.body if isinstance(s, ast.If) and ast.unparse(s.test).startswith("order ==")]
    if len(chain) != 1:
        raise TranslationError("order dispatch not found")
    node, table, default = chain[0], [], None
    while True:
        t = node.test
        if not (isinstance(t, ast.Compare) and ast.unparse(t.left) == "order" and isinstance(t.ops[0], ast.Eq) and isinstance(t.comparators[0], ast.Constant)):
            raise TranslationError("dispatch test " + ast.unparse(t))
        if len(node.body) != 1 or not isinstance(node.body[0], ast.Assign) or ast.unparse(node.body[0].targets[0]) != "self._integrator":
            raise TranslationError("dispatch body")
        call = node.body[0].value
        cname = ast.unparse(call.func)
        args = [ast.unparse(a) for a in call.args] + [f"{k.arg}={ast.unparse(k.value)}" for k in call.keywords]
        want = ["dt", "linear_operator"] + ([] if cname == "ETDRK0" else ["nonlinear_fun", "num_circle_points=num_circle_points", "circle_radius=circle_radius"])
        if args != want or not cname.startswith("ETDRK"):
            raise TranslationError(f"dispatch call {cname}({args})")
        table.append((t.comparators[0].value, int(cname[5:])))
        if len(node.orelse) == 1 and isinstance(node.orelse[0], ast.If):
            node = node.orelse[0]
        else:
            if not (len(node.orelse) == 1 and isinstance(node.orelse[0], ast.Raise)):
                raise TranslationError("dispatch default is not a raise")
            break
    body = " ".join(f"| {o}%Z => Some {c}%nat" for o, c in table)
    return ("\n(* BaseStepper.__init__: order -> ETDRK class index; None = NotImplementedError *)\n"
            f"Definition order_dispatch (order : Z) : option nat :=\n  match order with {body} | _ => None end.\n")


def check_base_plumbing():
    """BaseStepper: everything around the integrator is compared with its expected text - the derivative operator is built from the
    stepper's own (num_spatial_dims, domain_extent, num_points), both builders receive it, step = ifft . step_fourier . fft with the
    stepper's own grid, step_fourier delegates to the integrator, __call__ checks the shape and calls step"""
    def same(node, text):
        return ast.unparse(node) == ast.unparse(ast.parse(text).body[0])
    cls = find_class(ast.parse(open(f"{REPO}/exponax/_base_stepper.py").read()), "BaseStepper")
    init = [s for s in find_func(cls.body, "__init__").body if not (isinstance(s, ast.Expr) and isinstance(s.value, ast.Constant))]
    want = ["self.num_spatial_dims = num_spatial_dims", "self.domain_extent = domain_extent", "self.num_points = num_points", "self.dt = dt",
            "self.num_channels = num_channels", "self.dx = domain_extent / num_points",
            "derivative_operator = build_derivative_operator(num_spatial_dims, domain_extent, num_points)",
            "linear_operator = self._build_linear_operator(derivative_operator)",
            "single_channel_shape = (1,) + wavenumber_shape(self.num_spatial_dims, self.num_points)",
            "multi_channel_shape = (self.num_channels,) + wavenumber_shape(self.num_spatial_dims, self.num_points)"]
    if len(init) != 13 or not all(same(a, t) for a, t in zip(init, want)):
        raise TranslationError("BaseStepper.__init__ head: " + repr([ast.unparse(x) for x in init[:10]])[:400])
    g = init[10]
    if not (isinstance(g, ast.If) and ast.unparse(g.test) == "linear_operator.shape not in (single_channel_shape, multi_channel_shape)"
            and len(g.body) == 1 and isinstance(g.body[0], ast.Raise) and not g.orelse):
        raise TranslationError("BaseStepper.__init__: operator shape guard")
    if not same(init[11], "nonlinear_fun = self._build_nonlinear_fun(derivative_operator)"):
        raise TranslationError("BaseStepper.__init__: nonlinear function")
    if not (isinstance(init[12], ast.If) and ast.unparse(init[12].test) == "order == 0"):
        raise TranslationError("BaseStepper.__init__: dispatch position")

    def body(name):
        return [s for s in find_func(cls.body, name).body if not (isinstance(s, ast.Expr) and isinstance(s.value, ast.Constant))]
    st = body("step")
    ws = ["u_hat = fft(u, num_spatial_dims=self.num_spatial_dims)", "u_next_hat = self.step_fourier(u_hat)",
          "u_next = ifft(u_next_hat, num_spatial_dims=self.num_spatial_dims, num_points=self.num_points)", "return u_next"]
    sf = body("step_fourier")
    ca = body("__call__")
    if len(st) != 4 or not all(same(a, t) for a, t in zip(st, ws)):
        raise TranslationError("BaseStepper.step")
    if len(sf) != 1 or not same(sf[0], "return self._integrator.step_fourier(u_hat)"):
        raise TranslationError("BaseStepper.step_fourier")
    if not (len(ca) == 3 and same(ca[0], "expected_shape = (self.num_channels,) + spatial_shape(self.num_spatial_dims, self.num_points)")
            and isinstance(ca[1], ast.If) and ast.unparse(ca[1].test) == "u.shape != expected_shape" and isinstance(ca[1].body[0], ast.Raise)
            and same(ca[2], "return self.step(u)")):
        raise TranslationError("BaseStepper.__call__")
    return ("\n(* BaseStepper plumbing compared with its expected text: derivative operator from the stepper's own grid, both builders receive it,\n"
            "   step = ifft . step_fourier . fft, step_fourier = the integrator's, __call__ = shape guard then step *)\n"
            "Definition base_stepper_plumbing_checked : bool := true.\n")


def run():
    return write_if_changed(OUT, generate())


if __name__ == "__main__":
    print(generate())
