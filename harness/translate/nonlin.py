"""Translator: the nonlinear functions -> coq/theories/Gen/NonlinFuns.v (consumed by Tie/NonlinTie.v, C03).

  exponax/nonlin_fun/_*.py                 every class that defines __call__          -> gen_<name>
  exponax/stepper/reaction/_*.py           the private *NonlinearFun classes          -> gen_<name>
  + the methods they call (BaseNonlinearFun.fft / ifft / dealias, the _..._eval helpers of ConvectionNonlinearFun, zero_fix),
    the module functions _cross_product_3d and _spectral.build_laplace_operator, and the constructor statements that define the
    attributes __call__ reads (self.scale = scale, self.inv_laplacian = jnp.where(...), the sub-objects of GeneralNonlinearFun ...).

Vocabulary of the output = the vocabulary of Nonlin/Terms.v: a spectral array is described by its entries `fld = idx -> K`
(functions of the signed wavenumber vector); M is the dealiasing mask, P2 / P3 the pseudo-spectral products, dc c the derivative
operator along axis c, ND = rfftn(1) at the mean mode.  Every value of the source carries
  * a SPACE  (spectral / physical),
  * a list of leading-axis DOMAINS  one: (1,)  ch: the channels of u_hat  ax: the spatial-dimension axis (D,)  cd: ch and ax
    identified (the code checks C = D)  lit n: n explicit entries, and an entry function of the indices.
The translation is by abstract interpretation of the Python AST; everything that is not listed here raises TranslationError:

  physical values are POLYNOMIALS in inverse transforms of masked spectra.  `ifft(M x)` is a factor; + - * ** (literal) and
  scalar coefficients build polynomials; `jnp.sum` over a leading axis builds a finite sum;  f - jnp.mean(f) (same f, all axes)
  is the mean-free part; `if self.<flag>` builds a conditional.
  self.fft = M . rfftn, with the contracts (all are properties of rfftn / irfftn and of the elementwise product, not of exponax):
     rfftn is linear;  rfftn(1) = ND delta0;  rfftn(irfftn(M x)) = M x;  M rfftn(irfftn(M a) irfftn(M b)) = P2 a b;  same for P3;
     the mean of f is rfftn(f) at the mean mode / ND, so that the transform of f - mean(f) is the transform of f without its mean mode.
  A factor that is not of the form irfftn(M x) (an un-dealiased product), a transform that is not followed by the mask, a product
  of more than three fields are errors: the vocabulary cannot express them (prod2 / prod3 of Nonlin/Conv.v mask their inputs and
  their output).
  spectral values: + - * / by coefficients and spectra, ** literal, jnp.where(x == 0 | x != 0, a, b), jnp.sum over a leading axis,
  x[None, :], x[:, None], x[i], x[i:i+1], jnp.stack, jnp.zeros_like, broadcasting of the leading axes (right-aligned; ch against ax
  only under the guard C = D; lit n against ax only when the constructor checks D = n).
  statements: assignments, augmented assignments, `if self.<bool>` (merged), static `if` (mask present / literal integers),
  `if <test>: raise` for the known guards, `for c in self.<tuple>` (unrolled), return.
  calls: self.<method>(...) is inlined; self.<sub-object>(u_hat) and super().__call__(u_hat) apply the generated definition of that class
  to the constructor arguments the sub-object / the parent was built with; jax.vmap(self.<method>)(x) maps over the first axis.

Closed over the package: a class under exponax/ that derives from BaseNonlinearFun (or is defined in exponax/nonlin_fun/) and defines
__call__ (or, without a __call__ of its own, any other method than __init__) and is neither in COVER nor in EXCLUDED (nor the abstract
declaration) is an error, and so is a stale COVER / EXCLUDED entry.
Not translated (other properties / the correspondence of harness/props/c03.py): the cutoff of the mask (BaseNonlinearFun.__init__),
_spectral.fft / ifft, the construction of the Kolmogorov forcing arrays, the _build_nonlinear_fun wiring of the steppers."""
import ast
import glob
import os
import re

from .pyexpr import TranslationError, find_func, num, strip_doc, write_if_changed

REPO = os.environ.get("VERIF_REPO", "/repo")
OUT = os.path.join(os.path.dirname(os.path.dirname(os.path.dirname(os.path.abspath(__file__)))), "coq", "theories", "Gen", "NonlinFuns.v")
ROOT = ("exponax/nonlin_fun/_base.py", "BaseNonlinearFun")
SPECTRAL = "exponax/_spectral.py"

ONE, CH, AX, CD, LST = ("one",), ("ch",), ("ax",), ("cd",), ("list",)


def LIT(n):
    return ("lit", n)


# class -> gen: name of the definition; params: constructor arguments that become its arguments (in this order);
#          unroll: a tuple argument of unknown length is translated for these lengths (one definition each, suffix _<n>);
#          opaque: attributes taken as given arrays (arguments of the definition), their construction is not translated;
#          one: helper methods whose argument has exactly one channel (assumption, see the comment)
COVER = {
    "ZeroNonlinearFun": dict(gen="zero", params=[]),
    # the loop over self.coefficients is unrolled; the vocabulary has products of at most three fields (P3): degree <= 3
    "PolynomialNonlinearFun": dict(gen="polynomial", params=["coefficients"], unroll=("coefficients", (2, 3, 4))),
    # single_channel = True is the mode for one-channel states (GeneralConvectionStepper sets num_channels = 1 with it):
    # the two _single_channel_* helpers are translated for a state with exactly one channel
    "ConvectionNonlinearFun": dict(gen="convection", params=["scale", "single_channel", "conservative"],
                                   one=("_single_channel_conservative_eval", "_single_channel_nonconservative_eval")),
    "GradientNormNonlinearFun": dict(gen="gradient_norm", params=["scale", "zero_mode_fix"]),
    "GeneralNonlinearFun": dict(gen="general_nonlinear", params=["scale_list", "zero_mode_fix"]),
    "VorticityConvection2d": dict(gen="vorticity_conv", params=["convection_scale"]),
    # self.injection (built from build_wavenumbers / build_scaling_array; modelled in Nonlin/Injection.v, C12) is an argument
    "VorticityConvection2dKolmogorov": dict(gen="vorticity_conv_kolmogorov", params=["convection_scale"], opaque=["injection"]),
    # order: the default (2), the only one the model knows
    "Leray": dict(gen="leray", params=[], default=["order"]),
    "ProjectedConvection3d": dict(gen="projected_conv", params=[]),
    "ProjectedConvection3dKolmogorov": dict(gen="projected_conv_kolmogorov", params=[], opaque=["injection"]),
    "CahnHilliardNonlinearFun": dict(gen="cahn_hilliard", params=["scale"]),
    "GrayScottNonlinearFun": dict(gen="gray_scott", params=["feed_rate", "kill_rate"]),
    # defined in the tree but not exported (commented out in reaction/__init__.py); translated all the same
    "BelousovZhabotinskyNonlinearFun": dict(gen="belousov_zhabotinsky", params=[]),
}
EXCLUDED = {
}
MODULE_FUNCS = {"build_laplace_operator": SPECTRAL, "_cross_product_3d": None}     # None: defined in the module that calls it
RESERVED = re.compile(r"^(K|M|P2|P3|ii|s|D|ND|u|u_hat|k|fld|dc|axes|gen_.*|[a-z]{1,2}\d+)$")


# ---- values ----------------------------------------------------------------------------------------------------
class Coef:                     # a scalar of K
    def __init__(self, term):
        self.term = term


class Bool:
    def __init__(self, term):
        self.term = term


class SInt:                     # an integer known at translation time
    def __init__(self, v):
        self.v = v


class Token:                    # num_spatial_dims / num_points / dealiasing_fraction / derivative_operator handed through constructors
    def __init__(self, name):
        self.name = name


class Mask:
    pass


class NoMask:
    pass


class NChan:                    # u_hat.shape[0]
    pass


class CList:                    # tuple of floats of known length, symbolic
    def __init__(self, term, n):
        self.term, self.n = term, n


class CTuple:                   # tuple of floats, given entry by entry
    def __init__(self, items):
        self.items = items


class PyList:
    def __init__(self, items):
        self.items = items


class PhysMean:                 # jnp.mean(f) of a physical field without leading axes
    def __init__(self, node):
        self.node = node


class Spec:                     # entry of a spectral array: a term of type fld; inner: x when the term is (M x)
    def __init__(self, term, inner=None):
        self.term, self.inner = term, inner


class RawSpec:                  # rfftn(p), not yet masked
    def __init__(self, node):
        self.node = node


class SCond:                    # entry of a boolean spectral array: a bool term in the mode k
    def __init__(self, term):
        self.term = term


class Ix:                       # index of one leading axis: c (nat term, spatial axis) and / or u (fld term, the channel) and / or i (literal)
    def __init__(self, c=None, u=None, i=None):
        self.c, self.u, self.i = c, u, i


class Arr:
    def __init__(self, space, doms, f, whole=None):
        self.space, self.doms, self.f, self.whole = space, list(doms), f, whole


class DcArr(Arr, Token):        # the derivative operator handed through the constructors: the array (D, ...) with entries dc c
    def __init__(self):
        Arr.__init__(self, "spec", [AX], lambda ixs: Spec(f"(dc {ixs[0].c})"))
        self.name = "derivative_operator"


class Obj:                      # instance of a nonlinear-function class: the class and the values of its constructor arguments
    def __init__(self, tr, cname, args, where):
        self.tr, self.cname, self.args, self.where = tr, cname, args, where
        self.cache = {}


# physical nodes: ("mono", [Spec]) ("const", coefterm) ("scale", coefterm, n) ("add", a, b) ("sum", dom, fn(ix)->n) ("meanfree", n) ("if", c, a, b)
SIMPLE = ("mono", "const", "scale", "add")


class Frame:
    def __init__(self, obj, cd=False, owner=None):
        self.obj, self.cd, self.owner = obj, cd, owner or obj.cname      # owner: the class whose method is being executed


class Translator:
    def __init__(self):
        self.files = {}
        self.classes = {}       # name -> (rel file, ClassDef)
        self.n = 0
        self.notes = []
        self.static_c = None
        self.depth = 0

    # ---- source access ----------------------------------------------------------------------------------------
    def tree(self, rel):
        if rel not in self.files:
            self.files[rel] = ast.parse(open(os.path.join(REPO, rel)).read())
        return self.files[rel]

    def parent(self, cname):
        rel, c = self.classes[cname]
        names = [ast.unparse(b) for b in c.bases]
        if (rel, cname) == ROOT:
            return None
        if len(names) != 1 or names[0] not in self.classes:
            raise TranslationError(f"{cname}: bases {names} (a single base class among the nonlinear functions is expected)")
        return names[0]

    def method(self, cname, name):
        c = cname
        while c is not None:
            for m in self.classes[c][1].body:
                if isinstance(m, ast.FunctionDef) and m.name == name:
                    return c, m
            c = self.parent(c)
        return None, None

    def fresh(self, stem):
        self.n += 1
        return f"{stem}{self.n}"

    # ---- constructor: attributes on demand ------------------------------------------------------------------------
    def ctor(self, cname):
        init = [m for m in self.classes[cname][1].body if isinstance(m, ast.FunctionDef) and m.name == "__init__"]
        if len(init) != 1:
            raise TranslationError(f"{cname}: exactly one __init__ expected in the class body")
        return init[0]

    def ctor_params(self, cname):
        a = self.ctor(cname).args
        if a.vararg or a.kwarg or a.posonlyargs or [x.arg for x in a.args][:1] != ["self"]:
            raise TranslationError(f"{cname}.__init__: signature")
        pos = [x.arg for x in a.args[1:]]
        defaults = dict(zip(pos[len(pos) - len(a.defaults):], a.defaults)) if a.defaults else {}
        ann = {x.arg: x.annotation for x in a.args[1:] + a.kwonlyargs}
        for x, d in zip(a.kwonlyargs, a.kw_defaults):
            if d is not None:
                defaults[x.arg] = d
        return pos, [x.arg for x in a.kwonlyargs], defaults, ann

    def bind_ctor(self, cname, call, env, fr, where):
        """values of the constructor arguments of `cname` for the call `call` (an ast.Call) evaluated in env"""
        pos, kwonly, defaults, ann = self.ctor_params(cname)
        vals = {}
        if len(call.args) > len(pos):
            raise TranslationError(f"{where}: too many positional arguments for {cname}")
        for p, a in zip(pos, call.args):
            vals[p] = self.ev(a, env, fr)
        for k in call.keywords:
            if k.arg is None or k.arg in vals or k.arg not in pos + kwonly:
                raise TranslationError(f"{where}: keyword {k.arg} for {cname}")
            vals[k.arg] = self.ev(k.value, env, fr)
        for p in pos + kwonly:
            if p not in vals:
                if p not in defaults:
                    raise TranslationError(f"{where}: argument {p} of {cname} missing")
                vals[p] = ("default", defaults[p])
        return vals

    def ctor_arg(self, obj, name):
        v = obj.args[name]
        if isinstance(v, tuple) and v and v[0] == "default":
            d = v[1]
            if isinstance(d, ast.Constant) and d.value is None:
                v = None
            else:
                v = self.ev(d, {}, Frame(obj))
                if isinstance(v, Coef) and isinstance(d, ast.Constant) and isinstance(d.value, int) and not isinstance(d.value, bool) \
                        and ast.unparse(self.ctor_params(obj.cname)[3][name]) == "int":
                    v = SInt(d.value)
            obj.args[name] = v
        return v

    def ctor_local(self, obj, name):
        """value of a local name of the constructor of obj: a constructor argument, or a name assigned exactly once at top level"""
        key = "local:" + name
        if key in obj.cache:
            return obj.cache[key]
        init = self.ctor(obj.cname)
        sets = [s for s in ast.walk(init) if isinstance(s, (ast.Assign, ast.AugAssign, ast.AnnAssign, ast.For, ast.With, ast.NamedExpr, ast.comprehension))
                and any(isinstance(n, ast.Name) and n.id == name and isinstance(n.ctx, (ast.Store, ast.Del)) for n in ast.walk(s))]
        if name in obj.args:
            if sets:
                raise TranslationError(f"{obj.cname}.__init__: the argument `{name}` is re-assigned")
            v = self.ctor_arg(obj, name)
        else:
            if len(sets) != 1 or sets[0] not in init.body or not isinstance(sets[0], ast.Assign) or len(sets[0].targets) != 1 \
                    or not isinstance(sets[0].targets[0], ast.Name):
                raise TranslationError(f"{obj.cname}.__init__: `{name} = ...` expected exactly once at top level")
            v = self.ev(sets[0].value, CtorEnv(self, obj), Frame(obj))
        obj.cache[key] = v
        return v

    def ctor_guards(self, obj):
        """`if <test>: raise` statements of the constructor: D = n / len(list) = n"""
        if "guards" in obj.cache:
            return obj.cache["guards"]
        g = {}
        obj.cache["guards"] = g
        for st in self.ctor(obj.cname).body:
            if isinstance(st, ast.If) and len(st.body) == 1 and isinstance(st.body[0], ast.Raise) and not st.orelse:
                t = st.test
                ok = False
                if isinstance(t, ast.Compare) and len(t.ops) == 1 and isinstance(t.ops[0], ast.NotEq) and isinstance(t.comparators[0], ast.Constant) \
                        and isinstance(t.comparators[0].value, int):
                    n = t.comparators[0].value
                    if isinstance(t.left, ast.Name) and t.left.id in obj.args and isinstance(self.ctor_arg(obj, t.left.id), Token) \
                            and self.ctor_arg(obj, t.left.id).name == "num_spatial_dims":
                        g["D"] = n
                        ok = True
                    elif isinstance(t.left, ast.Call) and ast.unparse(t.left.func) == "len" and len(t.left.args) == 1 and isinstance(t.left.args[0], ast.Name) \
                            and t.left.args[0].id in obj.args:
                        v = self.ctor_arg(obj, t.left.args[0].id)
                        if isinstance(v, CList) and v.n == n:
                            ok = True
                if not ok:
                    raise TranslationError(f"{obj.cname}.__init__: guard `{ast.unparse(t)}`")
                self.notes.append(f"{obj.cname}.__init__ raises unless not ({ast.unparse(t)})")
        p = self.super_obj(obj)
        if p is not None:
            for k, v in self.ctor_guards(p).items():
                g.setdefault(k, v)
        return g

    def super_obj(self, obj):
        if "super" in obj.cache:
            return obj.cache["super"]
        par = self.parent(obj.cname)
        res = None
        if par is not None:
            init = self.ctor(obj.cname)
            calls = [s for s in ast.walk(init) if isinstance(s, ast.Call) and ast.unparse(s.func) == "super().__init__"]
            tops = [s for s in init.body if isinstance(s, ast.Expr) and s.value in calls]
            if len(calls) != 1 or len(tops) != 1:
                raise TranslationError(f"{obj.cname}.__init__: exactly one top-level super().__init__(...) expected")
            vals = self.bind_ctor(par, calls[0], CtorEnv(self, obj), Frame(obj), obj.cname + ".__init__")
            res = Obj(self, par, vals, obj.cname)
            if (self.classes[par][0], par) == ROOT:
                self.check_root(res, obj.cname)
            else:
                self.check_forward(obj, res)
        obj.cache["super"] = res
        return res

    def check_root(self, root, where):
        for a in ("num_spatial_dims", "num_points"):
            v = self.ctor_arg(root, a)
            if not (isinstance(v, Token) and v.name == a):
                raise TranslationError(f"{where}: BaseNonlinearFun.__init__ must receive `{a}` unchanged")
        v = self.ctor_arg(root, "dealiasing_fraction")
        if not (v is None or (isinstance(v, Token) and v.name == "dealiasing_fraction")):
            raise TranslationError(f"{where}: BaseNonlinearFun.__init__ must receive `dealiasing_fraction` unchanged (or nothing)")

    def check_forward(self, obj, sub):
        """a sub-object / parent shares D, N, the derivative operator and the mask with the object that builds it"""
        pos, kwonly, _, _ = self.ctor_params(sub.cname)
        for a in ("num_spatial_dims", "num_points", "derivative_operator", "dealiasing_fraction"):
            if a in pos + kwonly:
                v = self.ctor_arg(sub, a)
                if not (isinstance(v, Token) and v.name == a):
                    raise TranslationError(f"{obj.cname}.__init__: {sub.cname}(...) must receive `{a}` of the enclosing object unchanged "
                                           f"(the generated terms share D, N, dc and the mask M)")

    def root_of(self, obj):
        while True:
            p = self.super_obj(obj)
            if p is None:
                return obj
            obj = p

    def attr(self, obj, name):
        key = "attr:" + name
        if key in obj.cache:
            return obj.cache[key]
        if (self.classes[obj.cname][0], obj.cname) == ROOT:
            if name in ("num_spatial_dims", "num_points"):
                v = Token(name)
            elif name == "dealiasing_mask":
                self.check_root_ctor()
                v = NoMask() if self.ctor_arg(obj, "dealiasing_fraction") is None else Mask()
            else:
                raise TranslationError(f"BaseNonlinearFun has no translated attribute `{name}`")
            obj.cache[key] = v
            return v
        init = self.ctor(obj.cname)
        sets = [s for s in ast.walk(init) if isinstance(s, (ast.Assign, ast.AugAssign, ast.AnnAssign))
                and any(ast.unparse(t) == "self." + name for t in (s.targets if isinstance(s, ast.Assign) else [s.target]))]
        if not sets:
            p = self.super_obj(obj)
            v = self.attr(p, name)
        else:
            if len(sets) != 1 or sets[0] not in init.body or not isinstance(sets[0], ast.Assign) or len(sets[0].targets) != 1:
                raise TranslationError(f"{obj.cname}.__init__: `self.{name} = ...` expected exactly once at top level")
            e = sets[0].value
            if isinstance(e, ast.Call) and isinstance(e.func, ast.Name) and e.func.id in self.classes:
                sub = Obj(self, e.func.id, self.bind_ctor(e.func.id, e, CtorEnv(self, obj), Frame(obj), obj.cname + ".__init__"), obj.cname)
                self.check_forward(obj, sub)
                self.ctor_guards(sub)
                v = sub
            else:
                v = self.ev(e, CtorEnv(self, obj), Frame(obj))
        obj.cache[key] = v
        return v

    def check_root_ctor(self):
        """BaseNonlinearFun.__init__: the mask is None exactly when dealiasing_fraction is None, otherwise low_pass_filter_mask(...)
        (its cutoff is tied by the correspondence (a) of harness/props/c03.py and C03_cutoffs)"""
        init = self.ctor(ROOT[1])
        ifs = [s for s in init.body if isinstance(s, ast.If)]
        ok = len(ifs) == 1 and ast.unparse(ifs[0].test) == "dealiasing_fraction is None" and len(ifs[0].body) == 1 \
            and ast.unparse(ifs[0].body[0]) == "self.dealiasing_mask = None"
        if ok:
            sets = [s for s in ast.walk(ifs[0]) if isinstance(s, ast.Assign) and ast.unparse(s.targets[0]) == "self.dealiasing_mask"]
            others = [s for s in ast.walk(init) if isinstance(s, ast.Assign) and ast.unparse(s.targets[0]) == "self.dealiasing_mask"]
            ok = len(sets) == 2 and len(others) == 2 and sets[1] in ifs[0].orelse and isinstance(sets[1].value, ast.Call) \
                and ast.unparse(sets[1].value.func) == "low_pass_filter_mask"
        if not ok:
            raise TranslationError("BaseNonlinearFun.__init__: `if dealiasing_fraction is None: self.dealiasing_mask = None else: ... "
                                   "self.dealiasing_mask = low_pass_filter_mask(...)` expected")

    # ---- entries -------------------------------------------------------------------------------------------------
    def err(self, where, msg):
        return TranslationError(f"{where}: {msg}")

    def pmul(self, a, b, src):
        if a[0] == "scale":
            return ("scale", a[1], self.pmul(a[2], b, src))
        if b[0] == "scale":
            return ("scale", b[1], self.pmul(a, b[2], src))
        if a[0] == "add":
            return ("add", self.pmul(a[1], b, src), self.pmul(a[2], b, src))
        if b[0] == "add":
            return ("add", self.pmul(a, b[1], src), self.pmul(a, b[2], src))
        if a[0] == "const":
            return ("scale", a[1], b)
        if b[0] == "const":
            return ("scale", b[1], a)
        if a[0] == "mono" and b[0] == "mono":
            return ("mono", a[1] + b[1])
        raise TranslationError(f"product of physical fields that are sums over an axis / mean-free parts / conditionals in `{src}`")

    def ebin(self, op, x, y, src):
        """elementwise binary operation on entries (Spec / physical node / Coef)"""
        tx, ty = type(x), type(y)
        if tx is Coef and ty is Coef:
            f = {"+": "oadd", "-": "osub", "*": "omul", "/": "odiv"}[op]
            return Coef(f"({f} {x.term} {y.term})")
        if tx is Spec and ty is Spec:
            if op == "*":
                return Spec(f"(fmulp {x.term} {y.term})")
            if op == "+":
                return Spec(f"(fadd {x.term} {y.term})")
            if op == "-":
                return Spec(f"(fadd {x.term} (fscal (oopp o1) {y.term}))")
        if tx is Coef and ty is Spec:
            if op == "*":
                return Spec(f"(fscal {x.term} {y.term})")
            if op == "/":
                return Spec(f"(fun k => odiv {x.term} ({y.term} k))")
        if tx is Spec and ty is Coef and op == "*":
            return Spec(f"(fscal {y.term} {x.term})")
        px = x if tx is tuple else ("const", x.term) if tx is Coef else None
        py = y if ty is tuple else ("const", y.term) if ty is Coef else None
        if px is not None and py is not None:
            if op == "+":
                return ("add", px, py)
            if op == "-":
                return ("add", px, ("scale", "(oopp o1)", py))
            if op == "*":
                return self.pmul(px, py, src)
        if tx is tuple and ty is PhysMean and op == "-":
            if self.pkey(x) != self.pkey(y.node):
                raise TranslationError(f"`{src}`: f - jnp.mean(g) with g different from f")
            return ("meanfree", x)
        raise TranslationError(f"operation `{op}` between {self.kindname(x)} and {self.kindname(y)} in `{src}`")

    def kindname(self, x):
        return {Spec: "a spectrum", RawSpec: "an unmasked transform (self.fft without its dealiasing)", Coef: "a scalar", tuple: "a physical field",
                PhysMean: "a mean", SCond: "a boolean array"}.get(type(x), type(x).__name__)

    def epow(self, x, n, src):
        if not isinstance(n, int) or n < 1 or n > 8:
            raise TranslationError(f"exponent in `{src}`")
        r = x
        for _ in range(n - 1):
            r = self.ebin("*", r, x, src)
        return r

    def eneg(self, x, src):
        if isinstance(x, Coef):
            return Coef(f"(oopp {x.term})")
        if isinstance(x, Spec):
            return Spec(f"(fscal (oopp o1) {x.term})")
        if isinstance(x, tuple):
            return ("scale", "(oopp o1)", x)
        raise TranslationError(f"negation of {self.kindname(x)} in `{src}`")

    def emask(self, x, src):
        if isinstance(x, Spec):
            return Spec(f"(M {x.term})", inner=x)
        if isinstance(x, RawSpec):
            return Spec(self.fin(x.node))
        raise TranslationError(f"the dealiasing mask multiplies {self.kindname(x)} in `{src}`")

    def eif(self, c, a, b, src):
        if isinstance(a, Coef) and isinstance(b, Coef):
            return Coef(f"(if {c} then {a.term} else {b.term})")
        if isinstance(a, Spec) and isinstance(b, Spec):
            return Spec(f"(if {c} then {a.term} else {b.term})")
        if isinstance(a, tuple) and isinstance(b, tuple):
            return ("if", c, a, b)
        raise TranslationError(f"branches of `{src}` give {self.kindname(a)} / {self.kindname(b)}")

    # ---- iteration over a domain ---------------------------------------------------------------------------------------
    def iterate(self, dom, body, src):
        """list of body(ix) over the domain; body returns a term"""
        if dom == ONE:
            return f"[{body(Ix())}]"
        if dom[0] == "lit":
            return "[" + "; ".join(body(self.lit_ix(i)) for i in range(dom[1])) + "]"
        c, u = self.fresh("c"), self.fresh("ui")
        if dom == AX:
            return f"(map (fun {c} => {body(Ix(c=c))}) axes)"
        if dom == CH:
            t = body(Ix(u=u))
            return "u_hat" if t == u else f"(map (fun {u} => {t}) u_hat)"
        if dom == CD:
            t = body(Ix(c=c, u=u))
            uc, uu = re.search(rf"\b{c}\b", t), re.search(rf"\b{u}\b", t)
            if uc and uu:
                return f"(map2 (fun {c} {u} => {t}) axes u_hat)"
            if uc:
                return f"(map (fun {c} => {t}) axes)"
            return "u_hat" if t == u else f"(map (fun {u} => {t}) u_hat)"
        raise TranslationError(f"iteration over the axis kind {dom} in `{src}`")

    def lit_ix(self, i):
        return Ix(c=f"{i}%nat", u=f"(nth {i} u_hat fzero)", i=i)

    # ---- physical polynomial -> spectrum (self.fft) ----------------------------------------------------------------------
    def fin(self, n):
        t = n[0]
        if t == "mono":
            fs = n[1]
            for f in fs:
                if f.inner is None:
                    raise TranslationError("a physical field that is not the inverse transform of a dealiased spectrum enters a product / transform: " + f.term)
            if len(fs) == 1:
                return f"(M {fs[0].term})"
            if len(fs) == 2:
                return f"(P2 {fs[0].inner.term} {fs[1].inner.term})"
            if len(fs) == 3:
                return f"(P3 {fs[0].inner.term} {fs[1].inner.term} {fs[2].inner.term})"
            raise TranslationError(f"product of {len(fs)} physical fields: the vocabulary of Nonlin/Terms.v has P2 and P3 only")
        if t == "const":
            return f"(M (gen_const_hat {n[1]}))"
        if t == "scale":
            return f"(fscal {n[1]} {self.fin(n[2])})"
        if t == "add":
            return f"(fadd {self.fin(n[1])} {self.fin(n[2])})"
        if t == "sum":
            return "(fsumf " + self.iterate(n[1], lambda ix: self.fin(n[2](ix)), "jnp.sum") + ")"
        if t == "meanfree":
            return f"(gen_drop_mean {self.fin(n[1])})"
        if t == "if":
            return f"(if {n[1]} then {self.fin(n[2])} else {self.fin(n[3])})"
        raise TranslationError("physical node " + t)

    def pkey(self, n):
        """canonical text of a physical node (binders numbered from a private counter)"""
        save = self.n
        self.n = 10 ** 6
        try:
            t = n[0]
            if t == "mono":
                return "mono(" + ",".join(f.term for f in n[1]) + ")"
            if t == "const":
                return "const(" + n[1] + ")"
            if t == "scale":
                return f"scale({n[1]},{self.pkey(n[2])})"
            if t == "add":
                return f"add({self.pkey(n[1])},{self.pkey(n[2])})"
            if t == "sum":
                return "sum" + self.iterate(n[1], lambda ix: self.pkey(n[2](ix)), "jnp.mean")
            if t == "meanfree":
                return f"meanfree({self.pkey(n[1])})"
            return f"if({n[1]},{self.pkey(n[2])},{self.pkey(n[3])})"
        finally:
            self.n = save

    # ---- arrays ------------------------------------------------------------------------------------------------------
    def join(self, x, y, fr, src):
        if x == y:
            return x
        if x == ONE:
            return y
        if y == ONE:
            return x
        s = {x, y}
        if s <= {CH, AX, CD}:
            if fr.cd:
                return CD
            raise TranslationError(f"broadcast of the channel axis against the spatial-dimension axis in `{src}` (no check that C = D precedes it)")
        for a, b in ((x, y), (y, x)):
            if a[0] == "lit":
                if b in (AX, CD) and self.ctor_guards(fr.obj).get("D") == a[1]:
                    return a
                if b in (CH, CD) and self.static_c == a[1]:
                    return a
        raise TranslationError(f"broadcast of the axis kinds {x[0]}{x[1:] or ''} and {y[0]}{y[1:] or ''} in `{src}`")

    def arr_bin(self, op, a, b, fr, src):
        """a, b: Arr / Coef / Mask"""
        if isinstance(a, Mask) or isinstance(b, Mask):
            m, x = (a, b) if isinstance(a, Mask) else (b, a)
            if op != "*" or not isinstance(x, Arr):
                raise TranslationError(f"use of the dealiasing mask in `{src}`")
            if x.doms == [LST]:
                raise TranslationError(f"mask applied to a list result in `{src}`")
            return Arr("spec", x.doms, lambda ixs: self.emask(x.f(ixs), src))
        if isinstance(a, Coef) and isinstance(b, Coef):
            return self.ebin(op, a, b, src)
        if isinstance(a, PhysMean) or isinstance(b, PhysMean):
            if isinstance(a, Arr) and a.doms == [] and isinstance(b, PhysMean):
                return Arr("phys", [], lambda ixs: self.ebin(op, a.f([]), b, src))
            raise TranslationError(f"use of jnp.mean in `{src}`")
        if isinstance(a, Coef):
            if b.doms == [LST]:
                return Arr(b.space, [LST], None, whole=f"(map (fun x => {self.ebin(op, a, Spec('x'), src).term}) {b.whole})")
            return Arr(b.space if b.space != "cond" else None, b.doms, lambda ixs: self.ebin(op, a, b.f(ixs), src))
        if isinstance(b, Coef):
            if a.doms == [LST]:
                return Arr(a.space, [LST], None, whole=f"(map (fun x => {self.ebin(op, Spec('x'), b, src).term}) {a.whole})")
            return Arr(a.space, a.doms, lambda ixs: self.ebin(op, a.f(ixs), b, src))
        if not (isinstance(a, Arr) and isinstance(b, Arr)):
            raise TranslationError(f"operands of `{src}`")
        if a.space != b.space or a.space not in ("spec", "phys"):
            raise TranslationError(f"`{src}` combines a {a.space} array with a {b.space} array")
        if a.doms == [LST] or b.doms == [LST]:
            if a.space != "spec" or len(a.doms) != 1 or len(b.doms) != 1:
                raise TranslationError(f"list operands of `{src}`")
            return Arr("spec", [LST], None, whole=f"(map2 (fun x y => {self.ebin(op, Spec('x'), Spec('y'), src).term}) {self.as_list(a, src)} {self.as_list(b, src)})")
        na, nb = len(a.doms), len(b.doms)
        n = max(na, nb)
        da, db = [ONE] * (n - na) + a.doms, [ONE] * (n - nb) + b.doms
        doms = [self.join(x, y, fr, src) for x, y in zip(da, db)]
        return Arr(a.space, doms, lambda ixs: self.ebin(op, a.f(ixs[n - na:]), b.f(ixs[n - nb:]), src))

    def as_list(self, a, src):
        if a.whole is not None:
            return a.whole
        if len(a.doms) != 1 or a.space != "spec":
            raise TranslationError(f"`{src}`: a spectral array with one leading axis is expected, found axes {a.doms}")
        return self.iterate(a.doms[0], lambda ix: self.spec(a.f([ix]), src).term, src)

    def spec(self, e, src):
        if not isinstance(e, Spec):
            raise TranslationError(f"`{src}`: a spectrum is expected, found {self.kindname(e)}")
        return e

    # ---- expressions ----------------------------------------------------------------------------------------------------
    def ev(self, e, env, fr):
        src = ast.unparse(e)
        if isinstance(e, ast.Constant):
            if isinstance(e.value, bool):
                return Bool("true" if e.value else "false")
            if isinstance(e.value, (int, float)):
                return Coef(num(e.value))
            if e.value is None:
                return None
            raise TranslationError("literal " + src)
        if isinstance(e, ast.Name):
            try:
                return env[e.id]
            except KeyError:
                raise TranslationError("unknown name " + src)
        if isinstance(e, ast.Attribute):
            if isinstance(e.value, ast.Name) and e.value.id == "self":
                return self.attr(fr.obj, e.attr)
            raise TranslationError("attribute " + src)
        if isinstance(e, (ast.List, ast.Tuple)):
            return PyList([self.ev(x, env, fr) for x in e.elts])
        if isinstance(e, ast.UnaryOp):
            if isinstance(e.op, ast.UAdd):
                return self.ev(e.operand, env, fr)
            if isinstance(e.op, ast.USub):
                if isinstance(e.operand, ast.Constant) and isinstance(e.operand.value, (int, float)) and not isinstance(e.operand.value, bool):
                    return Coef(num(-e.operand.value))
                v = self.ev(e.operand, env, fr)
                if isinstance(v, Coef):
                    return self.eneg(v, src)
                if isinstance(v, Arr) and v.doms != [LST]:
                    return Arr(v.space, v.doms, lambda ixs: self.eneg(v.f(ixs), src))
                raise TranslationError("negation in " + src)
            if isinstance(e.op, ast.Not):
                v = self.ev(e.operand, env, fr)
                if isinstance(v, Bool):
                    return Bool(f"(negb {v.term})")
            raise TranslationError("unary operator in " + src)
        if isinstance(e, ast.BinOp):
            if isinstance(e.op, ast.Pow):
                n = self.sint(e.right, env, fr)
                if n is None:
                    raise TranslationError("exponent of " + src)
                v = self.ev(e.left, env, fr)
                if isinstance(v, Coef):
                    return Coef(f"(fpow {v.term} {n})")
                if isinstance(v, Arr) and v.doms != [LST]:
                    return Arr(v.space, v.doms, lambda ixs: self.epow(v.f(ixs), n, src))
                raise TranslationError("power in " + src)
            op = {ast.Add: "+", ast.Sub: "-", ast.Mult: "*", ast.Div: "/"}.get(type(e.op))
            if op is None:
                raise TranslationError("operator in " + src)
            a, b = self.ev(e.left, env, fr), self.ev(e.right, env, fr)
            for v in (a, b):
                if not isinstance(v, (Arr, Coef, Mask, PhysMean)):
                    raise TranslationError(f"operand of kind {type(v).__name__} in `{src}`")
            return self.arr_bin(op, a, b, fr, src)
        if isinstance(e, ast.Subscript):
            return self.subscript(e, env, fr)
        if isinstance(e, ast.Call):
            return self.call(e, env, fr)
        raise TranslationError("expression " + src)

    def sint(self, e, env, fr):
        """integer known at translation time, or None"""
        if isinstance(e, ast.Constant) and isinstance(e.value, int) and not isinstance(e.value, bool):
            return e.value
        if isinstance(e, ast.Name):
            try:
                v = env[e.id]
            except (KeyError, TranslationError):
                return None
            return v.v if isinstance(v, SInt) else None
        if isinstance(e, ast.BinOp) and isinstance(e.op, (ast.Mod, ast.Add, ast.Sub, ast.Mult)):
            a, b = self.sint(e.left, env, fr), self.sint(e.right, env, fr)
            if a is None or b is None or (isinstance(e.op, ast.Mod) and b == 0):
                return None
            return {ast.Mod: a % b if b else 0, ast.Add: a + b, ast.Sub: a - b, ast.Mult: a * b}[type(e.op)]
        return None

    def static_test(self, t, env, fr):
        """True / False when the test is decided at translation time, else None"""
        if isinstance(t, ast.Compare) and len(t.ops) == 1:
            op, l, r = t.ops[0], t.left, t.comparators[0]
            if isinstance(op, (ast.Is, ast.IsNot)) and isinstance(r, ast.Constant) and r.value is None:
                try:
                    v = self.ev(l, env, fr)
                except (KeyError, TranslationError):
                    return None
                if isinstance(v, (Mask, NoMask)):
                    # the translation describes an object WITH a dealiasing mask (M); without one, M is the identity
                    isnone = isinstance(v, NoMask)
                    return isnone if isinstance(op, ast.Is) else not isnone
                return None
            a, b = self.sint(l, env, fr), self.sint(r, env, fr)
            if a is not None and b is not None and isinstance(op, (ast.Eq, ast.NotEq, ast.Lt, ast.LtE, ast.Gt, ast.GtE)):
                return {ast.Eq: a == b, ast.NotEq: a != b, ast.Lt: a < b, ast.LtE: a <= b, ast.Gt: a > b, ast.GtE: a >= b}[type(op)]
        return None

    def subscript(self, e, env, fr):
        src = ast.unparse(e)
        if isinstance(e.value, ast.Attribute) and e.value.attr == "shape" and isinstance(e.value.value, ast.Name):
            v = env[e.value.value.id]
            if isinstance(v, Arr) and v.doms and self.sint(e.slice, env, fr) == 0:
                d = v.doms[0]
                if d in (CH, CD):
                    return NChan()
                if d == ONE:
                    return SInt(1)
                if d[0] == "lit":
                    return SInt(d[1])
            raise TranslationError("shape access " + src)
        v = self.ev(e.value, env, fr)
        s = e.slice
        if isinstance(v, CList):
            i = self.sint(s, env, fr)
            if i is None or not 0 <= i < v.n:
                raise TranslationError("index in " + src)
            return Coef(f"(nth {i} {v.term} o0)")
        if isinstance(v, (CTuple, PyList)):
            i = self.sint(s, env, fr)
            if i is None or not 0 <= i < len(v.items):
                raise TranslationError("index in " + src)
            return v.items[i]
        if not isinstance(v, Arr) or v.doms == [LST]:
            raise TranslationError(f"subscript `{src}` on a value of kind {type(v).__name__}")
        elts = list(s.elts) if isinstance(s, ast.Tuple) else [s]
        plan, pos = [], 0          # plan: per result axis ("new",) / ("keep", j); fixed: source axis -> Ix
        fixed = {}
        for k, x in enumerate(elts):
            if isinstance(x, ast.Constant) and x.value is None:
                plan.append(("new",))
            elif isinstance(x, ast.Constant) and x.value is Ellipsis:
                if k != len(elts) - 1:
                    raise TranslationError(f"`...` is not the last index in `{src}`")
            elif isinstance(x, ast.Slice) and x.lower is None and x.upper is None and x.step is None:
                if pos >= len(v.doms):
                    raise TranslationError(f"`{src}`: the slice `:` addresses a spatial axis")
                plan.append(("keep", pos))
                pos += 1
            else:
                if pos >= len(v.doms):
                    raise TranslationError(f"`{src}`: the index addresses a spatial axis")
                keep = False
                if isinstance(x, ast.Slice):
                    lo, hi = self.sint(x.lower, env, fr) if x.lower is not None else None, self.sint(x.upper, env, fr) if x.upper is not None else None
                    if x.step is not None or lo is None or hi is None or hi != lo + 1:
                        raise TranslationError(f"`{src}`: only the slices `:` and `i:i+1` are translated")
                    i, keep = lo, True
                else:
                    i = self.sint(x, env, fr)
                if i is None or i < 0:
                    raise TranslationError(f"`{src}`: index")
                fixed[pos] = self.index_ix(v.doms[pos], i, fr, src)
                if keep:
                    plan.append(("fixed1", pos))
                pos += 1
        for j in range(pos, len(v.doms)):
            plan.append(("keep", j))
        doms = [ONE if p[0] in ("new", "fixed1") else v.doms[p[1]] for p in plan]
        nsrc = len(v.doms)

        def f(ixs):
            full = [None] * nsrc
            for p, ix in zip(plan, ixs):
                if p[0] == "keep":
                    full[p[1]] = ix
            for j, ix in fixed.items():
                full[j] = ix
            return v.f(full)
        return Arr(v.space, doms, f)

    def index_ix(self, dom, i, fr, src):
        if dom == ONE:
            if i != 0:
                raise TranslationError(f"`{src}`: index {i} on an axis of length 1")
            return Ix()
        if dom[0] == "lit":
            if i >= dom[1]:
                raise TranslationError(f"`{src}`: index {i} on an axis of length {dom[1]}")
            return self.lit_ix(i)
        if dom == AX:
            d = self.ctor_guards(fr.obj).get("D")
            if d is not None and i >= d:
                raise TranslationError(f"`{src}`: index {i} on the spatial-dimension axis, D = {d}")
            return Ix(c=f"{i}%nat")
        if dom == CH:
            if self.static_c is not None and i >= self.static_c:
                raise TranslationError(f"`{src}`: index {i} on the channel axis, C = {self.static_c}")
            return Ix(u=f"(nth {i} u_hat fzero)")
        if dom == CD:
            return Ix(c=f"{i}%nat", u=f"(nth {i} u_hat fzero)")
        raise TranslationError(f"`{src}`: index on an axis of kind {dom}")

    def kwargs(self, e, allowed):
        kw = {}
        for k in e.keywords:
            if k.arg is None or k.arg not in allowed or k.arg in kw:
                raise TranslationError("keyword in " + ast.unparse(e))
            kw[k.arg] = k.value
        return kw

    def call(self, e, env, fr):
        src = ast.unparse(e)
        fn = ast.unparse(e.func)
        # self.<method>(...) / self.<sub-object>(...)
        if isinstance(e.func, ast.Attribute) and isinstance(e.func.value, ast.Name) and e.func.value.id == "self":
            name = e.func.attr
            owner, m = self.method(fr.obj.cname, name)
            if m is not None:
                if e.keywords:
                    raise TranslationError("keyword arguments in " + src)
                return self.inline(owner, m, [self.ev(a, env, fr) for a in e.args], fr, src)
            v = self.attr(fr.obj, name)
            if isinstance(v, Obj):
                if e.keywords or len(e.args) != 1:
                    raise TranslationError("call form " + src)
                return self.apply_gen(v, self.ev(e.args[0], env, fr), fr, src)
            raise TranslationError("call of " + src)
        if fn == "super().__call__":
            if e.keywords or len(e.args) != 1:
                raise TranslationError("call form " + src)
            p = self.super_obj(fr.obj)
            if p is None or p.cname not in COVER:
                raise TranslationError("super().__call__ without a translated parent class in " + src)
            return self.apply_gen(p, self.ev(e.args[0], env, fr), fr, src)
        if isinstance(e.func, ast.Call) and ast.unparse(e.func.func) == "jax.vmap":
            g = e.func
            if g.keywords or len(g.args) != 1 or e.keywords or len(e.args) != 1 or not (isinstance(g.args[0], ast.Attribute)
                                                                                      and isinstance(g.args[0].value, ast.Name) and g.args[0].value.id == "self"):
                raise TranslationError("vmap form " + src)
            owner, m = self.method(fr.obj.cname, g.args[0].attr)
            x = self.ev(e.args[0], env, fr)
            if m is None or not isinstance(x, Arr) or not x.doms or x.doms == [LST]:
                raise TranslationError("vmap form " + src)
            probe = self.inline(owner, m, [Arr(x.space, x.doms[1:], lambda ixs: x.f([self.probe_ix(x.doms[0])] + ixs))], fr, src)
            if not isinstance(probe, Arr):
                raise TranslationError("vmap of a method that does not return an array: " + src)

            def f(ixs):
                r = self.inline(owner, m, [Arr(x.space, x.doms[1:], lambda jxs: x.f([ixs[0]] + jxs))], fr, src)
                return r.f(ixs[1:])
            return Arr(probe.space, [x.doms[0]] + probe.doms, f)
        if fn == "jnp.sum":
            kw = self.kwargs(e, ("axis", "keepdims"))
            ax = self.sint(kw["axis"], env, fr) if "axis" in kw else None
            if len(e.args) != 1 or ax is None or ax < 0:
                raise TranslationError("jnp.sum form (one array, axis = non-negative literal) " + src)
            keep = False
            if "keepdims" in kw:
                if not (isinstance(kw["keepdims"], ast.Constant) and isinstance(kw["keepdims"].value, bool)):
                    raise TranslationError("jnp.sum keepdims " + src)
                keep = kw["keepdims"].value
            v = self.ev(e.args[0], env, fr)
            if not isinstance(v, Arr) or v.doms == [LST] or v.space not in ("spec", "phys"):
                raise TranslationError("jnp.sum of " + src)
            if ax >= len(v.doms):
                raise TranslationError(f"`{src}`: axis {ax} is a spatial axis (the array has {len(v.doms)} leading axes)")
            dom = v.doms[ax]
            if dom == ONE or dom[0] == "lit":
                raise TranslationError(f"`{src}`: sum over an axis of kind {dom[0]}")
            doms = v.doms[:ax] + ([ONE] if keep else []) + v.doms[ax + 1:]

            def f(ixs):
                pre, post = ixs[:ax], ixs[ax + (1 if keep else 0):]
                if v.space == "spec":
                    return Spec("(fsumf " + self.iterate(dom, lambda ix: self.spec(v.f(pre + [ix] + post), src).term, src) + ")")
                return ("sum", dom, lambda ix: self.pnode(v.f(pre + [ix] + post), src))
            return Arr(v.space, doms, f)
        if fn == "jnp.mean":
            if e.keywords or len(e.args) != 1:
                raise TranslationError("jnp.mean form (the mean over all axes of one field) " + src)
            v = self.ev(e.args[0], env, fr)
            if not isinstance(v, Arr) or v.space != "phys" or v.doms != []:
                raise TranslationError(f"`{src}`: the mean over all axes of a physical field without channel axis is expected")
            return PhysMean(self.pnode(v.f([]), src))
        if fn == "jnp.where":
            if e.keywords or len(e.args) != 3:
                raise TranslationError("jnp.where form " + src)
            c = e.args[0]
            if not (isinstance(c, ast.Compare) and len(c.ops) == 1 and isinstance(c.ops[0], (ast.Eq, ast.NotEq)) and isinstance(c.comparators[0], ast.Constant)
                    and c.comparators[0].value == 0 and not isinstance(c.comparators[0].value, bool)):
                raise TranslationError("jnp.where condition (x == 0 / x != 0) " + src)
            x = self.ev(c.left, env, fr)
            a, b = self.ev(e.args[1], env, fr), self.ev(e.args[2], env, fr)
            if not isinstance(x, Arr) or x.space != "spec" or x.doms == [LST]:
                raise TranslationError("jnp.where condition " + src)
            neg = isinstance(c.ops[0], ast.NotEq)
            doms = x.doms
            parts = []
            for v in (a, b):
                if isinstance(v, Coef):
                    parts.append(None)
                elif isinstance(v, Arr) and v.space == "spec" and v.doms != [LST]:
                    n = max(len(doms), len(v.doms))
                    doms = [self.join(p, q, fr, src) for p, q in zip([ONE] * (n - len(doms)) + doms, [ONE] * (n - len(v.doms)) + v.doms)]
                    parts.append(v)
                else:
                    raise TranslationError("jnp.where branch " + src)
            nd = len(doms)

            def f(ixs):
                def at(v, w):
                    if w is None:
                        return v.term
                    return f"({self.spec(w.f(ixs[nd - len(w.doms):]), src).term} k)"
                t = f"(oeqb ({self.spec(x.f(ixs[nd - len(x.doms):]), src).term} k) o0)"
                if neg:
                    t = f"(negb {t})"
                return Spec(f"(fun k => if {t} then {at(a, parts[0])} else {at(b, parts[1])})")
            return Arr("spec", doms, f)
        if fn == "jnp.stack":
            kw = self.kwargs(e, ("axis",))
            if "axis" in kw and self.sint(kw["axis"], env, fr) != 0:
                raise TranslationError("jnp.stack axis " + src)
            if len(e.args) != 1 or not isinstance(e.args[0], (ast.List, ast.Tuple)) or not e.args[0].elts:
                raise TranslationError("jnp.stack form " + src)
            items = [self.ev(x, env, fr) for x in e.args[0].elts]
            if any(not isinstance(i, Arr) or i.doms != [] or i.space != items[0].space for i in items):
                raise TranslationError("jnp.stack of arrays with leading axes / of different kinds: " + src)
            return Arr(items[0].space, [LIT(len(items))], lambda ixs: items[ixs[0].i].f([]))
        if fn == "jnp.zeros_like":
            if e.keywords or len(e.args) != 1:
                raise TranslationError("jnp.zeros_like form " + src)
            v = self.ev(e.args[0], env, fr)
            if not isinstance(v, Arr) or v.space != "spec" or v.doms == [LST]:
                raise TranslationError("jnp.zeros_like of " + src)
            return Arr("spec", v.doms, lambda ixs: Spec("fzero"))
        # raw transforms of _spectral.py (only inside BaseNonlinearFun.fft / ifft)
        if fn in ("fft", "ifft") and (self.classes[fr.owner][0], fr.owner) == ROOT and self.imported(fr.owner, fn) == SPECTRAL:
            want = {"fft": {"num_spatial_dims": "num_spatial_dims"}, "ifft": {"num_spatial_dims": "num_spatial_dims", "num_points": "num_points"}}[fn]
            kw = self.kwargs(e, tuple(want))
            if len(e.args) != 1 or set(kw) != set(want) or any(ast.unparse(kw[k]) != "self." + a for k, a in want.items()):
                raise TranslationError(f"{fn} form " + src)
            v = self.ev(e.args[0], env, fr)
            if not isinstance(v, Arr) or v.doms == [LST]:
                raise TranslationError(f"{fn} of " + src)
            if fn == "ifft":
                if v.space != "spec":
                    raise TranslationError("ifft of a physical array: " + src)
                return Arr("phys", v.doms, lambda ixs: self.raw_ifft(v.f(ixs), src))
            if v.space != "phys":
                raise TranslationError("fft of a spectral array: " + src)
            return Arr("spec", v.doms, lambda ixs: RawSpec(self.pnode(v.f(ixs), src)))
        if isinstance(e.func, ast.Name) and e.func.id in MODULE_FUNCS:
            rel = self.imported(fr.owner, e.func.id)
            want = MODULE_FUNCS[e.func.id]
            if (want is None and rel != self.classes[fr.owner][0]) or (want is not None and rel != want):
                raise TranslationError(f"`{e.func.id}` is not the function of {want or 'the same module'} in {src}")
            return self.inline_func(find_func(self.tree(rel).body, e.func.id), e, env, fr, src)
        raise TranslationError("call " + fn)

    def probe_ix(self, dom):
        return self.lit_ix(0) if dom[0] == "lit" else Ix(c="c0", u="ui0")

    def pnode(self, x, src):
        if isinstance(x, tuple):
            return x
        if isinstance(x, Coef):
            return ("const", x.term)
        raise TranslationError(f"`{src}`: a physical field is expected, found {self.kindname(x)}")

    def raw_ifft(self, x, src):
        if not isinstance(x, Spec):
            raise TranslationError(f"inverse transform of {self.kindname(x)} in `{src}`")
        if x.inner is None:
            raise TranslationError(f"inverse transform of a spectrum that was not dealiased (`{src}`): the products P2 / P3 of the model mask their inputs")
        return ("mono", [x])

    def imported(self, cname, name):
        """file that defines the module-level name used in the module of class cname"""
        rel = self.classes[cname][0]
        tree = self.tree(rel)
        for n in tree.body:
            if isinstance(n, ast.FunctionDef) and n.name == name:
                return rel
            if isinstance(n, ast.ImportFrom):
                for a in n.names:
                    if (a.asname or a.name) == name:
                        if a.asname not in (None, name):
                            raise TranslationError(f"{rel}: `{name}` is an alias")
                        base = os.path.dirname(rel)
                        for _ in range(n.level - 1):
                            base = os.path.dirname(base)
                        return os.path.join(base, *(n.module or "").split(".")) + ".py"
        raise TranslationError(f"{rel}: module-level name `{name}` not found")

    # ---- calls of source functions -----------------------------------------------------------------------------------------
    def bind_args(self, fn, vals, kwvals, skip_self, where):
        a = fn.args
        if a.vararg or a.kwarg or a.posonlyargs:
            raise TranslationError(where + ": signature")
        pos = [x.arg for x in a.args][(1 if skip_self else 0):]
        kwonly = [x.arg for x in a.kwonlyargs]
        env = {}
        if len(vals) > len(pos):
            raise TranslationError(where + ": too many arguments")
        for p, v in zip(pos, vals):
            env[p] = v
        for k, v in kwvals.items():
            if k in env or k not in pos + kwonly:
                raise TranslationError(f"{where}: keyword {k}")
            env[k] = v
        defaults = dict(zip(pos[len(pos) - len(a.defaults):], a.defaults)) if a.defaults else {}
        for x, d in zip(a.kwonlyargs, a.kw_defaults):
            if d is not None:
                defaults[x.arg] = d
        for p in pos + kwonly:
            if p not in env:
                if p not in defaults or not isinstance(defaults[p], ast.Constant):
                    raise TranslationError(f"{where}: argument {p} missing")
                d = defaults[p].value
                env[p] = SInt(d) if isinstance(d, int) and not isinstance(d, bool) else Coef(num(d))
        return env

    def inline(self, owner, m, vals, fr, src):
        if m.decorator_list:
            raise TranslationError(f"{owner}.{m.name}: decorated method")
        env = self.bind_args(m, vals, {}, True, f"{owner}.{m.name}")
        one = COVER.get(fr.obj.cname, {}).get("one", ())
        if m.name in one:
            for p, v in list(env.items()):
                if isinstance(v, Arr) and v.doms == [CH]:
                    # the helper is translated for a state with exactly one channel: its only channel
                    env[p] = Arr(v.space, [ONE], (lambda w: lambda ixs: w.f([Ix(u="(nth 0 u_hat fzero)")]))(v))
        self.depth += 1
        if self.depth > 12:
            raise TranslationError("call depth in " + src)
        try:
            sub = Frame(fr.obj, fr.cd, owner)
            r = self.block(strip_doc(m.body), env, sub, f"{owner}.{m.name}")
        finally:
            self.depth -= 1
        if r is None:
            raise TranslationError(f"{owner}.{m.name}: no return value")
        return r

    def inline_func(self, fn, e, env, fr, src):
        vals = []
        for a in e.args:
            vals.append(self.ev(a, env, fr))
        kw = {}
        for k in e.keywords:
            if k.arg is None:
                raise TranslationError("keyword in " + src)
            n = self.sint(k.value, env, fr)          # integer arguments (order=2) are known at translation time
            kw[k.arg] = SInt(n) if n is not None else self.ev(k.value, env, fr)
        fenv = self.bind_args(fn, vals, kw, False, fn.name)
        self.depth += 1
        try:
            r = self.block(strip_doc(fn.body), fenv, Frame(fr.obj, fr.cd, fr.owner), fn.name)
        finally:
            self.depth -= 1
        if r is None:
            raise TranslationError(f"{fn.name}: no return value")
        return r

    def gen_name(self, obj):
        cfg = COVER[obj.cname]
        name, args = "gen_" + cfg["gen"], []
        for p in cfg["params"]:
            v = self.ctor_arg(obj, p)
            if "unroll" in cfg and cfg["unroll"][0] == p:
                if isinstance(v, PyList) and all(isinstance(i, Coef) for i in v.items):
                    v = CTuple(v.items)
                if not isinstance(v, CTuple) or len(v.items) not in cfg["unroll"][1]:
                    raise TranslationError(f"{obj.where}: `{p}` of {obj.cname} must be a literal list of {cfg['unroll'][1]} scalars")
                name += f"_{len(v.items)}"
                args += [i.term for i in v.items]
            elif isinstance(v, (Coef, Bool, CList)):
                args.append(v.term)
            else:
                raise TranslationError(f"{obj.where}: argument `{p}` of {obj.cname} has kind {type(v).__name__}")
        for p in cfg.get("default", []):
            v = obj.args[p]
            if not (isinstance(v, tuple) and v and v[0] == "default") and not (isinstance(v, SInt) and v.v == self.default_of(obj.cname, p)):
                raise TranslationError(f"{obj.where}: `{p}` of {obj.cname} must be left at its default")
        for p in cfg.get("opaque", []):
            args.append(p)
        return name, args

    def default_of(self, cname, p):
        d = self.ctor_params(cname)[2].get(p)
        return d.value if isinstance(d, ast.Constant) else None

    def apply_gen(self, obj, x, fr, src):
        """application of the generated definition of obj's class to the array x"""
        if obj.cname not in COVER:
            raise TranslationError(f"`{src}`: {obj.cname} is not translated")
        if obj.cname not in self.sigs:
            raise TranslationError(f"`{src}`: {obj.cname} is translated after its user (order of COVER)")
        if COVER[obj.cname].get("opaque"):
            raise TranslationError(f"`{src}`: call of a class with opaque attributes")
        name, args = self.gen_name(obj)
        sig = self.sigs[obj.cname]
        head = " ".join([name] + args)
        if not isinstance(x, Arr) or x.space != "spec":
            raise TranslationError(f"`{src}`: argument")
        if sig["kind"] == "chanwise":
            if x.doms == [LST]:
                return Arr("spec", [LST], None, whole=f"(map (fun x => {head} x) {x.whole})")
            return Arr("spec", x.doms, lambda ixs: Spec(f"({head} {self.spec(x.f(ixs), src).term})"))
        if sig["kind"] == "one":
            if x.doms != [ONE]:
                raise TranslationError(f"`{src}`: {obj.cname} takes a one-channel state, the argument has axes {x.doms}")
            return Arr("spec", [ONE], lambda ixs: Spec(f"({head} {self.spec(x.f(ixs), src).term})"))
        whole = f"({head} {self.as_list(x, src)})"
        out = sig["out"]
        if out is not None and out[0] == "lit":
            return Arr("spec", [out], lambda ixs: Spec(f"(nth {ixs[0].i} {whole} fzero)"), whole=whole)
        return Arr("spec", [LST], None, whole=whole)

    # ---- statements ----------------------------------------------------------------------------------------------------------
    def returns(self, body):
        if not body:
            return False
        last = body[-1]
        if isinstance(last, ast.Return):
            return True
        return isinstance(last, ast.If) and self.returns(last.body) and self.returns(last.orelse)

    def guard(self, st, env, fr, where):
        t = st.test
        if isinstance(t, ast.Compare) and len(t.ops) == 1:
            sv = self.static_test(t, env, fr)
            if sv is False:
                return
            if sv is True:
                raise TranslationError(f"{where}: `{ast.unparse(t)}` holds: the method raises")
            if isinstance(t.ops[0], ast.NotEq):
                l = self.ev(t.left, env, fr)
                r = t.comparators[0]
                if isinstance(l, NChan):
                    n = self.sint(r, env, fr)
                    if n is not None:
                        if self.static_c not in (None, n):
                            raise TranslationError(f"{where}: contradictory channel counts")
                        self.static_c = n
                        self.notes.append(f"{where} raises unless the state has {n} channels")
                        return
                    rv = self.ev(r, env, fr)
                    if isinstance(rv, Token) and rv.name == "num_spatial_dims":
                        fr.cd = True
                        self.notes.append(f"{where} raises unless the number of channels is D")
                        return
        raise TranslationError(f"{where}: guard `{ast.unparse(t)}`")

    def boolean(self, t, env, fr, where):
        v = self.ev(t, env, fr)
        if not isinstance(v, Bool):
            raise TranslationError(f"{where}: condition `{ast.unparse(t)}`")
        return v.term

    def merge(self, c, a, b, src):
        if isinstance(a, Arr) and isinstance(b, Arr):
            if a.space == b.space and a.doms == b.doms and a.doms != [LST]:
                return Arr(a.space, a.doms, lambda ixs: self.eif(c, a.f(ixs), b.f(ixs), src))
            if a.space == b.space == "spec":
                return Arr("spec", [LST], None, whole=f"(if {c} then {self.as_list(a, src)}\n     else {self.as_list(b, src)})")
        if isinstance(a, Coef) and isinstance(b, Coef):
            return self.eif(c, a, b, src)
        raise TranslationError(f"the branches of `{src}` give values of different kinds")

    def block(self, stmts, env, fr, where):
        for idx, st in enumerate(stmts):
            rest = stmts[idx + 1:]
            if isinstance(st, ast.Expr) and isinstance(st.value, ast.Constant) and isinstance(st.value.value, str):
                continue
            if isinstance(st, ast.Return):
                if rest or st.value is None:
                    raise TranslationError(f"{where}: statements after return / bare return")
                return self.ev(st.value, env, fr)
            if isinstance(st, ast.Assign):
                if len(st.targets) != 1 or not isinstance(st.targets[0], ast.Name):
                    raise TranslationError(f"{where}: assignment target `{ast.unparse(st)[:60]}`")
                env[st.targets[0].id] = self.ev(st.value, env, fr)
                continue
            if isinstance(st, ast.AugAssign):
                if not isinstance(st.target, ast.Name):
                    raise TranslationError(f"{where}: assignment target `{ast.unparse(st)[:60]}`")
                load = ast.Name(id=st.target.id, ctx=ast.Load())
                env[st.target.id] = self.ev(ast.BinOp(left=load, op=st.op, right=st.value), env, fr)
                continue
            if isinstance(st, ast.For):
                if st.orelse or not isinstance(st.target, ast.Name):
                    raise TranslationError(f"{where}: for statement")
                it = self.ev(st.iter, env, fr)
                if not isinstance(it, CTuple):
                    raise TranslationError(f"{where}: loop over `{ast.unparse(st.iter)}` (only tuples of scalars given entry by entry are unrolled)")
                for item in it.items:
                    env[st.target.id] = item
                    if self.block(st.body, env, fr, where) is not None:
                        raise TranslationError(f"{where}: return inside a loop")
                continue
            if isinstance(st, ast.If):
                if len(st.body) == 1 and isinstance(st.body[0], ast.Raise) and not st.orelse:
                    self.guard(st, env, fr, where)
                    continue
                sv = self.static_test(st.test, env, fr)
                if sv is not None:
                    r = self.block(st.body if sv else st.orelse, env, fr, where)
                    if r is not None:
                        return r
                    continue
                c = self.boolean(st.test, env, fr, where)
                src = "if " + ast.unparse(st.test)
                ra, rb = self.returns(st.body), self.returns(st.orelse)
                if ra and rb:
                    if rest:
                        raise TranslationError(f"{where}: statements after an if / else that both return")
                    return self.merge(c, self.block(st.body, dict(env), fr, where), self.block(st.orelse, dict(env), fr, where), src)
                if ra and not st.orelse:
                    return self.merge(c, self.block(st.body, dict(env), fr, where), self.block(rest, dict(env), fr, where), src)
                if ra or rb:
                    raise TranslationError(f"{where}: `{src}` returns in one branch only")
                ea, eb = dict(env), dict(env)
                if self.block(st.body, ea, fr, where) is not None or self.block(st.orelse, eb, fr, where) is not None:
                    raise TranslationError(f"{where}: `{src}`")
                for name in sorted(set(ea) | set(eb)):
                    if ea.get(name) is not eb.get(name):
                        if name not in ea or name not in eb:
                            raise TranslationError(f"{where}: `{name}` is defined in one branch of `{src}` only")
                        env[name] = self.merge(c, ea[name], eb[name], src)
                continue
            raise TranslationError(f"{where}: statement `{ast.unparse(st)[:80]}`")
        return None

    # ---- classes ------------------------------------------------------------------------------------------------------------
    sigs = {}

    def shape_dom(self, ann, where):
        if not (isinstance(ann, ast.Subscript) and ast.unparse(ann.value) in ("Complex", "Float", "Inexact") and isinstance(ann.slice, ast.Tuple)
                and len(ann.slice.elts) == 2 and isinstance(ann.slice.elts[1], ast.Constant) and isinstance(ann.slice.elts[1].value, str)):
            raise TranslationError(f"{where}: array annotation expected")
        toks = ann.slice.elts[1].value.split()
        if not toks or any(t not in ("...", "N", "(N//2)+1", "(N//2+1)") for t in toks[1:]):
            raise TranslationError(f"{where}: shape annotation {toks}")
        lead = toks[0]
        if lead in ("C", "D", "1"):
            return {"C": CH, "D": CD, "1": ONE}[lead]
        if lead.isdigit():
            return LIT(int(lead))
        raise TranslationError(f"{where}: shape annotation {toks}")

    def param_value(self, cname, p, ann, unroll_n=None):
        t = ast.unparse(ann) if ann is not None else None
        if RESERVED.match(p):
            raise TranslationError(f"{cname}: the constructor argument `{p}` clashes with a name of the generated file")
        if t == "float":
            return Coef(p), f"({p} : K)"
        if t == "bool":
            return Bool(p), f"({p} : bool)"
        m = re.fullmatch(r"tuple\[(float(, float)*)\]", t or "")
        if m:
            n = m.group(1).count("float")
            return CList(p, n), f"({p} : list K)"
        if t == "tuple[float, ...]" and unroll_n is not None:
            names = [f"c{i}" for i in range(unroll_n)]
            return CTuple([Coef(x) for x in names]), "(" + " ".join(names) + " : K)"
        raise TranslationError(f"{cname}.__init__: argument `{p}` with annotation `{t}`")

    def translate_class(self, cname):
        cfg = COVER[cname]
        rel, cls = self.classes[cname]
        call = find_func(cls.body, "__call__")
        a = call.args
        if [x.arg for x in a.args][:1] != ["self"] or len(a.args) != 2 or a.vararg or a.kwarg or a.kwonlyargs or a.defaults or a.posonlyargs or call.decorator_list:
            raise TranslationError(cname + ".__call__: signature")
        din = self.shape_dom(a.args[1].annotation, cname + ".__call__ argument")
        dout = self.shape_dom(call.returns, cname + ".__call__ result")
        pos, kwonly, defaults, ann = self.ctor_params(cname)
        variants = cfg["unroll"][1] if "unroll" in cfg else (None,)
        out = []
        for nv in variants:
            self.n, self.static_c, notes0 = 0, None, len(self.notes)
            args, params = {}, []
            for p in pos + kwonly:
                if p in ("num_spatial_dims", "num_points", "dealiasing_fraction", "derivative_operator"):
                    args[p] = DcArr() if p == "derivative_operator" else Token(p)
                elif p in cfg["params"]:
                    v, decl = self.param_value(cname, p, ann.get(p), nv)
                    args[p] = v
                elif p in defaults:
                    args[p] = ("default", defaults[p])
                else:
                    args[p] = None      # not a parameter of the generated term: must not be used
            for p in cfg["params"]:
                if p not in args:
                    raise TranslationError(f"{cname}.__init__ has no argument `{p}`")
                params.append(self.param_value(cname, p, ann.get(p), nv)[1])
            obj = Obj(self, cname, args, cname)
            for p in cfg.get("opaque", []):
                kinds = [m for m in cls.body if isinstance(m, ast.AnnAssign) and isinstance(m.target, ast.Name) and m.target.id == p]
                if len(kinds) != 1 or RESERVED.match(p):
                    raise TranslationError(f"{cname}: annotated field `{p}` expected")
                d = self.shape_dom(kinds[0].annotation, f"{cname}.{p}")
                if d == ONE:
                    obj.cache["attr:" + p] = Arr("spec", [ONE], (lambda q: lambda ixs: Spec(q))(p))
                    params.append(f"({p} : fld)")
                elif d[0] == "lit":
                    obj.cache["attr:" + p] = Arr("spec", [d], (lambda q: lambda ixs: Spec(f"(nth {ixs[0].i} {q} fzero)"))(p), whole=p)
                    params.append(f"({p} : list fld)")
                else:
                    raise TranslationError(f"{cname}.{p}: shape of an opaque field")
            self.ctor_guards(obj)
            fr = Frame(obj, cd=(din == CD))
            if din == ONE:
                x = Arr("spec", [ONE], lambda ixs: Spec("u"))
            elif din in (CH, CD):
                x = Arr("spec", [CH], lambda ixs: Spec(ixs[0].u), whole="u_hat")
            else:
                x = Arr("spec", [din], lambda ixs: Spec(f"(nth {ixs[0].i} u_hat fzero)"), whole="u_hat")
            r = self.block(strip_doc(call.body), {a.args[1].arg: x}, fr, cname + ".__call__")
            if not isinstance(r, Arr) or r.space != "spec":
                raise TranslationError(f"{cname}.__call__ does not return a spectral array")
            kind, body, outdom = None, None, None
            if din == ONE:
                if r.doms != [ONE]:
                    raise TranslationError(f"{cname}.__call__: a one-channel state is mapped to an array with axes {r.doms}")
                kind, body = "one", self.spec(r.f([Ix()]), cname).term
            elif din == CH and r.doms == [CH]:
                t = self.spec(r.f([Ix(u="u")]), cname).term
                if not re.search(r"\bu_hat\b", t):
                    kind, body = "chanwise", t
            if kind is None:
                kind, body = "list", self.as_list(r, cname + ".__call__")
                outdom = dout if dout[0] == "lit" else None
                if r.doms != [LST] and r.doms[0][0] == "lit" and dout[0] == "lit" and r.doms[0] != dout:
                    raise TranslationError(f"{cname}.__call__ returns {r.doms[0][1]} channels, annotated {dout[1]}")
            name = "gen_" + cfg["gen"] + (f"_{nv}" if nv is not None else "")
            state = "(u : fld) : fld" if kind in ("one", "chanwise") else "(u_hat : list fld) : list fld"
            com = {"one": "one-channel state", "chanwise": "acts on every channel of the state separately: the definition is for one channel",
                   "list": "u_hat: the list of channels"}[kind]
            notes = "".join(f"  (* {n} *)\n" for n in dict.fromkeys(self.notes[notes0:]))
            out.append(f"{notes}  (* {com} *)\n  {USING} Definition {name} {' '.join(params + [state])} :=\n    {body}.")
            self.sigs[cname] = dict(kind=kind, out=outdom)
        return out

    def collect(self):
        """every class under exponax/ with a base among the nonlinear functions (transitively) or defined in exponax/nonlin_fun/"""
        found = {}
        for f in sorted(glob.glob(os.path.join(REPO, "exponax", "**", "*.py"), recursive=True)):
            rel = os.path.relpath(f, REPO)
            for c in ast.walk(self.tree(rel)):
                if isinstance(c, ast.ClassDef):
                    found.setdefault(c.name, []).append((rel, c))
        fam = {ROOT[1]}
        grew = True
        while grew:
            grew = False
            for name, defs in found.items():
                for rel, c in defs:
                    if name not in fam and any(ast.unparse(b).split(".")[-1] in fam for b in c.bases):
                        fam.add(name)
                        grew = True
        for name, defs in found.items():
            for rel, c in defs:
                if name in fam or os.path.dirname(rel) == "exponax/nonlin_fun":
                    if name in self.classes:
                        raise TranslationError(f"class {name} defined twice")
                    if c not in self.tree(rel).body:
                        raise TranslationError(f"{rel}: nested class {name}")
                    self.classes[name] = (rel, c)
        if ROOT[1] not in self.classes or self.classes[ROOT[1]][0] != ROOT[0]:
            raise TranslationError("BaseNonlinearFun not found in " + ROOT[0])
        with_call = []
        for name, (rel, c) in self.classes.items():
            ms = [m for m in c.body if isinstance(m, (ast.FunctionDef, ast.AsyncFunctionDef)) and m.name == "__call__"]
            if not ms:
                # a subclass without __call__ of its own must not override anything the inherited __call__ uses
                other = [m.name for m in c.body if isinstance(m, (ast.FunctionDef, ast.AsyncFunctionDef)) and m.name != "__init__"]
                if other and name not in EXCLUDED:
                    raise TranslationError(f"{rel}: class {name} defines {other} but no __call__: not covered")
                continue
            if (rel, name) == ROOT:
                if len(ms) != 1 or [ast.unparse(x) for x in ms[0].decorator_list] != ["abstractmethod"] or [type(x) for x in strip_doc(ms[0].body)] != [ast.Pass]:
                    raise TranslationError("BaseNonlinearFun.__call__ is no longer an abstract declaration")
                continue
            with_call.append(name)
        return with_call


class CtorEnv:
    """names of a constructor body, evaluated on demand"""

    def __init__(self, tr, obj):
        self.tr, self.obj = tr, obj

    def __getitem__(self, name):
        return self.tr.ctor_local(self.obj, name)


USING = '#[using="M P2 P3 ii s D ND"]'      # every definition takes all the section variables, used or not: uniform argument lists
PRELUDE = """(* GENERATED by harness/translate/nonlin.py from exponax/nonlin_fun/_*.py and exponax/stepper/reaction/_*.py -- do not edit.
   The nonlinear functions in the vocabulary of Nonlin/Terms.v: fields are functions of the signed wavenumber vector, M the
   dealiasing mask, P2 / P3 the pseudo-spectral products (inputs and output masked), dc c the derivative operator along axis c. *)
From Coq Require Import ZArith QArith List Bool.
From EXV Require Import Base.Scalar Spectral.Symbols Layout.Freq Nonlin.Conv Nonlin.Terms.
Import ListNotations.
Local Open Scope fld_scope.

Section GenNonlinFuns.
  Variable K : Ops.
  Notation fld := (field K).
  Variable M : fld -> fld.                    (* self.dealiasing_mask * . *)
  Variable P2 : fld -> fld -> fld.            (* self.fft(self.ifft(a) * self.ifft(b)) *)
  Variable P3 : fld -> fld -> fld -> fld.
  Variables (ii s : K).
  Variable D : nat.
  Variable ND : K.
  Notation dc := (Terms.dc K ii s).
  Notation fmulp := (Terms.fmulp K).
  Notation fscal := (Terms.fscal K).
  Notation fadd := (Terms.fadd K).
  Notation fzero := (Terms.fzero K).
  Notation fsumf := (Terms.fsumf K).
  Notation axes := (Terms.axes D).
  (* rfftn of the constant c: c ND at the mean mode *)
  #[using="M P2 P3 ii s D ND"] Definition gen_const_hat (c : K) : fld := fun k => c * (ND * delta0 K k).
  (* transform of f - mean(f): the transform of f without its mean mode *)
  #[using="M P2 P3 ii s D ND"] Definition gen_drop_mean (g : fld) : fld := fun k => if is_zero k then 0 else g k.
"""


def generate():
    tr = Translator()
    Translator.sigs = {}
    with_call = tr.collect()
    unknown = sorted(set(with_call) - set(COVER) - set(EXCLUDED))
    if unknown:
        raise TranslationError("classes defining __call__ that the translator does not cover: " + ", ".join(unknown))
    missing = sorted((set(COVER) | set(EXCLUDED)) - set(with_call))
    if missing:
        raise TranslationError("classes expected to define __call__ but do not: " + ", ".join(missing))
    parts = [PRELUDE]
    covered = []
    for cname in COVER:
        parts.append(f"  (* {tr.classes[cname][0]}: {cname} *)")
        parts.extend(tr.translate_class(cname))
        covered.append(cname)
    parts.append("End GenNonlinFuns.")
    parts.append("(* covered: " + ", ".join(covered) + " *)")
    parts.append("(* excluded: " + ("; ".join(f"{k} ({v})" for k, v in EXCLUDED.items()) or "none") + " *)")
    return "\n".join(parts) + "\n", covered


def run():
    """fail closed: when the source cannot be translated, Gen/NonlinFuns.v is replaced by a stub, so that Tie/NonlinTie.v (and with it
    Props/C03.v) cannot be re-proved against the text of an earlier run"""
    try:
        text = generate()[0]
    except Exception as e:
        msg = f"{type(e).__name__}: {e}".replace("(*", "( *").replace("*)", "* )")
        write_if_changed(OUT, "(* GENERATED by harness/translate/nonlin.py -- TRANSLATION FAILED, no definitions.\n   " + msg + " *)\n")
        raise
    return write_if_changed(OUT, text)


if __name__ == "__main__":
    print(generate()[0])
