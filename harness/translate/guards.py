"""Translator for the rejection guards: `if <test>: raise ...` reachable in a function, as one boolean Gallina predicate
over the function's static arguments (shapes as `list Z`, integers as `Z`, flags as `bool`, string modes as `Z` codes).
Fail-closed: a test that uses anything outside the subset raises TranslationError (= tie broken)."""
import ast
import os

from .pyexpr import TranslationError, find_class, find_func, strip_doc, write_if_changed

REPO = os.environ.get("VERIF_REPO", "/repo")
OUT = os.path.join(os.path.dirname(os.path.dirname(os.path.dirname(os.path.abspath(__file__)))), "coq", "theories", "Gen", "Guards.v")

MODES = {"absolute": 0, "normalized": 1, "symmetric": 2, "norm_compensation": 10, "reconstruction": 11, "coef_extraction": 12,
         "average": 20, "sum": 21, "ij": 30, "xy": 31}


class G:
    def __init__(self, env, helpers):
        self.env = dict(env)      # python expression text -> (coq term, type)
        self.helpers = helpers    # callable name -> coq function name (shape-valued helpers of arity 2)
        self.opaque = set()

    def typ(self, e):
        try:
            return self.shape(e), "shape"
        except TranslationError:
            pass
        try:
            return self.z(e), "Z"
        except TranslationError:
            pass
        return self.b(e), "bool"

    def lookup(self, e, want):
        key = ast.unparse(e)
        if want == "none":
            key = "none:" + key
        if key in self.opaque:
            raise TranslationError("guard uses untranslated local " + key)
        if key in self.env and self.env[key][1] == want:
            return self.env[key][0]
        return None

    def shape(self, e):
        r = self.lookup(e, "shape")
        if r is not None:
            return r
        if isinstance(e, ast.Attribute) and e.attr == "shape":
            r = self.lookup(e.value, "array")
            if r is not None:
                return r
        if isinstance(e, ast.Tuple):
            return "[" + "; ".join(self.z(x) for x in e.elts) + "]"
        if isinstance(e, ast.BinOp) and isinstance(e.op, ast.Add):
            return f"({self.shape(e.left)} ++ {self.shape(e.right)})"
        if isinstance(e, ast.BinOp) and isinstance(e.op, ast.Mult):
            return f"(rep {self.shape(e.left)} {self.z(e.right)})"
        if isinstance(e, ast.Subscript) and isinstance(e.slice, ast.Slice):
            sl = e.slice
            if sl.upper is None and sl.step is None and isinstance(sl.lower, ast.Constant) and isinstance(sl.lower.value, int) and sl.lower.value >= 0:
                return f"(skipn {sl.lower.value} {self.shape(e.value)})"
            raise TranslationError("slice " + ast.unparse(e))
        if isinstance(e, ast.Call) and ast.unparse(e.func) in self.helpers and len(e.args) == 2 and not e.keywords:
            return f"({self.helpers[ast.unparse(e.func)]} {self.z(e.args[0])} {self.z(e.args[1])})"
        if isinstance(e, ast.Starred):
            raise TranslationError("starred")
        raise TranslationError("shape expression " + ast.unparse(e))

    def z(self, e):
        r = self.lookup(e, "Z")
        if r is not None:
            return r
        if isinstance(e, ast.Constant) and isinstance(e.value, int) and not isinstance(e.value, bool):
            return f"({e.value})%Z"
        if isinstance(e, ast.UnaryOp) and isinstance(e.op, ast.USub):
            return f"(Z.opp {self.z(e.operand)})"
        if isinstance(e, ast.BinOp) and type(e.op) in (ast.Add, ast.Sub, ast.Mult, ast.FloorDiv, ast.Mod):
            op = {ast.Add: "Z.add", ast.Sub: "Z.sub", ast.Mult: "Z.mul", ast.FloorDiv: "Z.div", ast.Mod: "Z.modulo"}[type(e.op)]
            return f"({op} {self.z(e.left)} {self.z(e.right)})"
        if isinstance(e, ast.Call) and ast.unparse(e.func) == "len" and len(e.args) == 1:
            return f"(Z.of_nat (length {self.seq(e.args[0])}))"
        if isinstance(e, ast.Attribute) and e.attr == "ndim":
            r = self.lookup(e.value, "array")
            if r is not None:
                return f"(Z.of_nat (length {r}))"
        if isinstance(e, ast.Subscript) and isinstance(e.slice, ast.Constant) and isinstance(e.slice.value, int) and e.slice.value >= 0:
            return f"(nth {e.slice.value} {self.shape(e.value)} 0%Z)"
        raise TranslationError("integer expression " + ast.unparse(e))

    def seq(self, e):
        r = self.lookup(e, "len")      # a sequence known only by its length: modelled as a list of that length
        if r is not None:
            return r
        return self.shape(e)

    def b(self, e):
        r = self.lookup(e, "bool")
        if r is not None:
            return r
        if isinstance(e, ast.BoolOp):
            op = "andb" if isinstance(e.op, ast.And) else "orb"
            t = self.b(e.values[0])
            for v in e.values[1:]:
                t = f"({op} {t} {self.b(v)})"
            return t
        if isinstance(e, ast.UnaryOp) and isinstance(e.op, ast.Not):
            return f"(negb {self.b(e.operand)})"
        if isinstance(e, ast.Compare) and len(e.ops) == 1:
            op, l, r = e.ops[0], e.left, e.comparators[0]
            if isinstance(op, (ast.Is, ast.IsNot)) and isinstance(r, ast.Constant) and r.value is None:
                t = self.lookup(l, "none")
                if t is None:
                    raise TranslationError("None test on " + ast.unparse(l))
                return t if isinstance(op, ast.Is) else f"(negb {t})"
            if isinstance(op, (ast.In, ast.NotIn)) and isinstance(r, ast.Tuple):
                t = "false"
                for x in r.elts:
                    t = f"(orb {t} {self.eq(l, x)})"
                return t if isinstance(op, ast.In) else f"(negb {t})"
            if isinstance(op, (ast.Eq, ast.NotEq)):
                t = self.eq(l, r)
                return t if isinstance(op, ast.Eq) else f"(negb {t})"
            cmp = {ast.Lt: "Z.ltb", ast.LtE: "Z.leb", ast.Gt: "Z.gtb", ast.GtE: "Z.geb"}.get(type(op))
            if cmp:
                return f"({cmp} {self.z(l)} {self.z(r)})"
        raise TranslationError("boolean expression " + ast.unparse(e))

    def eq(self, l, r):
        for side, other in ((l, r), (r, l)):
            if isinstance(side, ast.Constant) and isinstance(side.value, str):
                t = self.lookup(other, "mode")
                if t is None or side.value not in MODES:
                    raise TranslationError("string comparison " + ast.unparse(l) + " == " + ast.unparse(r))
                return f"(Z.eqb {t} {MODES[side.value]})"
        for side, other in ((l, r), (r, l)):
            t = self.lookup(side, "float0")     # a float compared with 0.0 / (0.0, 0.0): modelled by a flag "is zero"
            if t is not None:
                if ast.unparse(other) in ("0.0", "(0.0, 0.0)", "0"):
                    return t
                raise TranslationError("float comparison " + ast.unparse(other))
        try:
            return f"(shape_eqb {self.shape(l)} {self.shape(r)})"
        except TranslationError:
            pass
        try:
            return f"(Z.eqb {self.z(l)} {self.z(r)})"
        except TranslationError:
            return f"(Bool.eqb {self.b(l)} {self.b(r)})"

    # ---- statements
    def walk(self, body, path, out):
        """returns True when every path through body ends (raise/return)"""
        for st in body:
            if isinstance(st, ast.If):
                t = self.b(st.test)
                g1, g2 = self.fork(), self.fork()
                e1 = g1.walk_into(self, st.body, path + [t], out)
                e2 = g2.walk_into(self, st.orelse, path + [f"(negb {t})"], out)
                if not e1 and not e2:
                    # merge locals: a name (re)bound in a branch becomes a conditional value, or opaque
                    for nm in set(g1.env) | set(g2.env) | g1.opaque | g2.opaque:
                        v1, v2, v0 = g1.env.get(nm), g2.env.get(nm), self.env.get(nm)
                        if v1 == v0 and v2 == v0 and nm not in g1.opaque and nm not in g2.opaque:
                            continue
                        if v1 and v2 and v1[1] == v2[1] and v1[1] in ("Z", "shape", "bool"):
                            self.env[nm] = (f"(if {t} then {v1[0]} else {v2[0]})", v1[1])
                        else:
                            self.env.pop(nm, None); self.opaque.add(nm)
                elif e1 and not e2:
                    self.env, self.opaque = g2.env, g2.opaque
                elif e2 and not e1:
                    self.env, self.opaque = g1.env, g1.opaque
                if e1 and e2:
                    return True
                if e1:
                    path = path + [f"(negb {t})"]
                elif e2:
                    path = path + [t]
                # locals assigned in only one branch become opaque
                continue
            if isinstance(st, ast.Raise):
                out.append(path)
                return True
            if isinstance(st, ast.Return):
                return True
            if isinstance(st, ast.Assign) and len(st.targets) == 1 and isinstance(st.targets[0], ast.Name):
                nm = st.targets[0].id
                try:
                    term, ty = self.typ(st.value)
                    self.env[nm] = (term, ty)
                    self.opaque.discard(nm)
                except TranslationError:
                    self.env.pop(nm, None)
                    self.opaque.add(nm)
                continue
            if isinstance(st, ast.Assign):
                for t in ast.walk(st.targets[0]):
                    if isinstance(t, ast.Name):
                        self.env.pop(t.id, None); self.opaque.add(t.id)
                continue
            if isinstance(st, (ast.Expr, ast.FunctionDef, ast.AugAssign, ast.AnnAssign, ast.For, ast.With)):
                for n in ast.walk(st):
                    if isinstance(n, ast.Raise):
                        raise TranslationError("raise inside unsupported statement " + type(st).__name__)
                    if isinstance(n, ast.Name) and isinstance(n.ctx, ast.Store) and not isinstance(st, ast.FunctionDef):
                        self.env.pop(n.id, None); self.opaque.add(n.id)
                continue
            raise TranslationError("statement " + type(st).__name__)
        return False

    def fork(self):
        g = G(self.env, self.helpers)
        g.opaque = set(self.opaque)
        return g

    def walk_into(self, parent, body, path, out):
        return self.walk(body, path, out)


def guard_of(func, env, helpers):
    out = []
    G(env, helpers).walk(strip_doc(func.body), [], out)
    if not out:
        raise TranslationError("no raise found in " + func.name)
    terms = []
    for path in out:
        t = "true"
        for c in path:
            t = c if t == "true" else f"(andb {t} {c})"
        terms.append(t)
    r = terms[0]
    for t in terms[1:]:
        r = f"(orb {r} {t})"
    return r


def shape_helper(func):
    """spatial_shape / wavenumber_shape: single return of a tuple expression"""
    body = strip_doc(func.body)
    if len(body) != 1 or not isinstance(body[0], ast.Return):
        raise TranslationError(func.name + " body")
    return G({"num_spatial_dims": ("d", "Z"), "num_points": ("n", "Z")}, {}).shape(body[0].value)


# (file, class or None, function, generated name, [(coq param, coq type)], {python text: (coq term, type)})
SELF = lambda: {"self.num_channels": ("C", "Z"), "self.num_spatial_dims": ("D", "Z"), "self.num_points": ("N", "Z")}
TARGETS = [
    ("_base_stepper.py", "BaseStepper", "__call__", "base_call_raises", "(C D N : Z) (u : list Z)", {**SELF(), "u": ("u", "array")}),
    ("_repeated_stepper.py", "RepeatedStepper", "__call__", "repeated_call_raises", "(C D N : Z) (u : list Z)", {**SELF(), "u": ("u", "array")}),
    ("_poisson.py", "Poisson", "__call__", "poisson_call_raises", "(D N : Z) (f : list Z)", {**SELF(), "f": ("f", "array")}),
    ("_spectral.py", None, "build_laplace_operator", "laplace_order_raises", "(order : Z)", {"order": ("order", "Z")}),
    ("_spectral.py", None, "build_gradient_inner_product_operator", "gip_raises", "(order D : Z) (velocity : list Z)",
     {"order": ("order", "Z"), "velocity": ("velocity", "array"), "derivative_operator.shape[0]": ("D", "Z")}),
    ("_spectral.py", None, "make_incompressible", "make_incompressible_raises", "(field : list Z)", {"field": ("field", "array")}),
    ("_spectral.py", None, "ifft", "ifft_raises", "(D : Z) (D_none N_none : bool) (field_hat : list Z)",
     {"num_spatial_dims": ("D", "Z"), "none:num_spatial_dims": ("D_none", "none"), "none:num_points": ("N_none", "none"), "field_hat": ("field_hat", "array")}),
    ("ic/_base_ic.py", None, "validate_normalization_options", "ic_options_raise", "(zero_mean std_one max_one : bool)",
     {"zero_mean": ("zero_mean", "bool"), "std_one": ("std_one", "bool"), "max_one": ("max_one", "bool")}),
    ("metrics/_spatial.py", None, "spatial_norm", "spatial_norm_raises", "(ref_none : bool) (mode : Z)", {"none:state_ref": ("ref_none", "none"), "mode": ("mode", "mode")}),
    ("metrics/_fourier.py", None, "fourier_norm", "fourier_norm_raises", "(ref_none : bool) (mode : Z)", {"none:state_ref": ("ref_none", "none"), "mode": ("mode", "mode")}),
    ("nonlin_fun/_general_nonlinear.py", "GeneralNonlinearFun", "__init__", "general_nonlin_raises", "(scale_len : Z)", {"scale_list": ("(repeat 0%Z (Z.to_nat scale_len))", "len")}),
    ("stepper/generic/_nonlinear.py", "GeneralNonlinearStepper", "__init__", "general_nonlin_stepper_raises", "(coef_len : Z)", {"nonlinear_coefficients": ("(repeat 0%Z (Z.to_nat coef_len))", "len")}),
    ("nonlin_fun/_vorticity_convection.py", "VorticityConvection2d", "__init__", "vorticity_conv_raises", "(D : Z)", {"num_spatial_dims": ("D", "Z")}),
    ("nonlin_fun/_projected_convection.py", "ProjectedConvection3d", "__init__", "projected_conv_raises", "(D : Z)", {"num_spatial_dims": ("D", "Z")}),
    ("stepper/_navier_stokes.py", "NavierStokesVorticity", "__init__", "ns_vorticity_raises", "(D : Z)", {"num_spatial_dims": ("D", "Z")}),
    ("stepper/_navier_stokes.py", "KolmogorovFlowVorticity", "__init__", "kolmogorov_vorticity_raises", "(D : Z)", {"num_spatial_dims": ("D", "Z")}),
    ("stepper/_navier_stokes.py", "NavierStokesVelocity", "__init__", "ns_velocity_raises", "(D : Z)", {"num_spatial_dims": ("D", "Z")}),
    ("stepper/_navier_stokes.py", "KolmogorovFlowVelocity", "__init__", "kolmogorov_velocity_raises", "(D : Z)", {"num_spatial_dims": ("D", "Z")}),
    ("stepper/generic/_vorticity_convection.py", "GeneralVorticityConvectionStepper", "__init__", "general_vorticity_raises", "(D : Z)", {"num_spatial_dims": ("D", "Z")}),
    ("stepper/reaction/_gray_scott.py", "GrayScottNonlinearFun", "__call__", "gray_scott_raises", "(u_hat : list Z)", {"u_hat": ("u_hat", "array")}),
    ("nonlin_fun/_convection.py", "ConvectionNonlinearFun", "_multi_channel_conservative_eval", "convection_cons_raises", "(D : Z) (u_hat : list Z)",
     {"u_hat": ("u_hat", "array"), "self.num_spatial_dims": ("D", "Z")}),
    ("nonlin_fun/_convection.py", "ConvectionNonlinearFun", "_multi_channel_nonconservative_eval", "convection_noncons_raises", "(D : Z) (u_hat : list Z)",
     {"u_hat": ("u_hat", "array"), "self.num_spatial_dims": ("D", "Z")}),
    ("ic/_sine_waves_1d.py", "RandomSineWaves1d", "__init__", "random_sine_raises", "(D : Z) (offset_zero std_one max_one : bool)",
     {"num_spatial_dims": ("D", "Z"), "offset_range": ("offset_zero", "float0"), "std_one": ("std_one", "bool"), "max_one": ("max_one", "bool")}),
    ("_utils.py", None, "stack_sub_trajectories", "stack_sub_raises", "(sub_len : Z) (lens : list Z)", None),
    # ---- C18: initial-condition generators
    ("ic/_discontinuities.py", "Discontinuities", "__init__", "discontinuities_raises", "(zero_mean std_one max_one : bool)",
     {"zero_mean": ("zero_mean", "bool"), "std_one": ("std_one", "bool"), "max_one": ("max_one", "bool")}),
    ("ic/_discontinuities.py", "RandomDiscontinuities", "__init__", "random_discontinuities_raises", "(zero_mean std_one max_one : bool)",
     {"zero_mean": ("zero_mean", "bool"), "std_one": ("std_one", "bool"), "max_one": ("max_one", "bool")}),
    ("ic/_sine_waves_1d.py", "SineWaves1d", "__init__", "sine_waves_raises", "(offset_zero std_one max_one : bool) (n_amp n_wav n_pha : Z)",
     {"offset": ("offset_zero", "float0"), "std_one": ("std_one", "bool"), "max_one": ("max_one", "bool"),
      "amplitudes": ("(repeat 0%Z (Z.to_nat n_amp))", "len"), "wavenumbers": ("(repeat 0%Z (Z.to_nat n_wav))", "len"),
      "phases": ("(repeat 0%Z (Z.to_nat n_pha))", "len")}),
    ("ic/_sine_waves_1d.py", "SineWaves1d", "__call__", "sine_waves_call_raises", "(std_one max_one : bool) (x : list Z)",
     {"x": ("x", "array"), "self.std_one": ("std_one", "bool"), "self.max_one": ("max_one", "bool")}),
    ("ic/_gaussian_blob.py", "GaussianBlob", "__call__", "gaussian_blob_call_raises", "(one_complement : bool) (pos_len : Z) (x : list Z)",
     {"x": ("x", "array"), "self.position.shape[0]": ("pos_len", "Z"), "self.one_complement": ("one_complement", "bool")}),
    # constructors that delegate to validate_normalization_options (VALIDATE marks the call-based translation)
    ("ic/_truncated_fourier_series.py", "RandomTruncatedFourierSeries", "__init__", "tfs_raises", "(offset_zero std_one max_one : bool)",
     {"VALIDATE": True, "offset_range": ("offset_zero", "float0"), "std_one": ("std_one", "bool"), "max_one": ("max_one", "bool")}),
    ("ic/_gaussian_random_field.py", "GaussianRandomField", "__init__", "grf_raises", "(zero_mean std_one max_one : bool)",
     {"VALIDATE": True, "zero_mean": ("zero_mean", "bool"), "std_one": ("std_one", "bool"), "max_one": ("max_one", "bool")}),
    ("ic/_diffused_noise.py", "DiffusedNoise", "__init__", "diffused_noise_raises", "(zero_mean std_one max_one : bool)",
     {"VALIDATE": True, "zero_mean": ("zero_mean", "bool"), "std_one": ("std_one", "bool"), "max_one": ("max_one", "bool")}),
]


def guard_via_validate(func, env, helpers):
    """constructor whose only rejection is the call validate_normalization_options(zero_mean=..., std_one=..., max_one=...):
    the guard is ic_options_raise applied to the translated keyword values (locals assigned before the call are tracked)"""
    g = G(env, helpers)
    out, terms = [], []
    for st in strip_doc(func.body):
        if isinstance(st, ast.Expr) and isinstance(st.value, ast.Call) and ast.unparse(st.value.func) == "validate_normalization_options":
            c = st.value
            if c.args or sorted(k.arg for k in c.keywords) != ["max_one", "std_one", "zero_mean"]:
                raise TranslationError("validate_normalization_options call " + ast.unparse(c))
            kw = {k.arg: g.b(k.value) for k in c.keywords}
            terms.append(f"(ic_options_raise {kw['zero_mean']} {kw['std_one']} {kw['max_one']})")
            continue
        if g.walk([st], [], out):
            break
    if out:
        raise TranslationError(func.name + ": direct raise next to the validation call")
    if len(terms) != 1:
        raise TranslationError(func.name + f": {len(terms)} validation calls")
    return terms[0]


def translate_stack_sub(tree):
    """stack_sub_trajectories: the two guards use a list comprehension / set; matched structurally"""
    fn = find_func(tree.body, "stack_sub_trajectories")
    src = [ast.unparse(s) for s in strip_doc(fn.body)]
    want0 = "n_time_steps = [leaf.shape[0] for leaf in jtu.tree_leaves(trj)]"
    if src[0] != want0:
        raise TranslationError("stack_sub_trajectories: " + src[0])
    st1, st2 = strip_doc(fn.body)[1], strip_doc(fn.body)[2]
    if not (isinstance(st1, ast.If) and ast.unparse(st1.test) == "len(set(n_time_steps)) != 1" and isinstance(st1.body[0], ast.Raise)
            and ast.unparse(st1.orelse[0]) == "n_time_steps = n_time_steps[0]"):
        raise TranslationError("stack_sub_trajectories: leaf length guard")
    if not (isinstance(st2, ast.If) and isinstance(st2.body[0], ast.Raise)):
        raise TranslationError("stack_sub_trajectories: window guard")
    g = G({"sub_len": ("sub_len", "Z"), "n_time_steps": ("(hd 0%Z lens)", "Z")}, {})
    return f"(orb (negb (all_eqb lens)) {g.b(st2.test)})"


def generate():
    parts = ["(* GENERATED by harness/translate/guards.py from /repo/exponax -- do not edit. *)",
             "From Coq Require Import ZArith List Bool.", "Import ListNotations.", "Local Open Scope Z_scope.", "",
             "Definition rep (l : list Z) (n : Z) : list Z := concat (repeat l (Z.to_nat n)).",
             "Fixpoint shape_eqb (a b : list Z) : bool :=\n  match a, b with [], [] => true | x :: a', y :: b' => Z.eqb x y && shape_eqb a' b' | _, _ => false end.",
             "Definition all_eqb (l : list Z) : bool := match l with [] => false | x :: r => forallb (Z.eqb x) r end.", ""]
    spec = ast.parse(open(f"{REPO}/exponax/_spectral.py").read())
    helpers = {}
    for nm in ("spatial_shape", "wavenumber_shape"):
        parts.append(f"Definition gen_{nm} (d n : Z) : list Z := {shape_helper(find_func(spec.body, nm))}.")
        helpers[nm] = "gen_" + nm
    parts.append("")
    for file, cls, fn, gname, params, env in TARGETS:
        tree = ast.parse(open(f"{REPO}/exponax/{file}").read())
        if env is None:
            body = translate_stack_sub(tree)
        else:
            f = find_func(find_class(tree, cls).body if cls else tree.body, fn)
            if env.get("VALIDATE"):
                body = guard_via_validate(f, {k: v for k, v in env.items() if k != "VALIDATE"}, helpers)
            else:
                body = guard_of(f, env, helpers)
        parts.append(f"(* {file}: {cls + '.' if cls else ''}{fn} *)\nDefinition {gname} {params} : bool :=\n  {body}.")
    return "\n".join(parts) + "\n"


def run():
    return write_if_changed(OUT, generate())


if __name__ == "__main__":
    print(generate())
