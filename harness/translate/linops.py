"""Translator: the linear operators of all steppers -> coq/theories/Gen/LinOps.v (consumed by Tie/LinOpsTie.v, C01).

  exponax/_spectral.py          build_laplace_operator, build_gradient_inner_product_operator  -> gen_<name>
  exponax/stepper/**/_*.py      <Class>._build_linear_operator (every class that defines one)  -> gen_sym_<class>
                                + the coefficient coercions of the constructors (scalar -> vector / matrix) -> gen_ctor_<class>_<attr>_*

The arrays of the source are indexed (spatial axis / channel, mode...).  The translation describes ONE mode: an array of shape
(D, ...) (the derivative operator, its powers) becomes a `list K` with one entry per spatial axis, an array of shape (...) or
(1, ...) becomes a scalar K, (D, D, ...) a list of rows, a constructor vector (D,) / matrix (D, D) a list / list of rows, a
tuple of floats a list.  Every value carries such a KIND, every operation is translated only for the kind combinations whose NumPy
broadcasting is the obvious one, and anything else raises TranslationError (= tie broken):

  x ** n (n literal / nat variable), -x, x + y, x - y, x * y, x / y      elementwise (scalar with anything, equal kinds, and
                                                                          d[:, None] * d[None, :] = outer product)
  jnp.sum(v, axis=0, keepdims=True)                                       fsum over the spatial axis
  jnp.einsum("<all indices contracted>->...", ...)                       nested fsum, operands zipped along each index
  x[None, ...]  x[None, :]  x[:, None]  tuple[k]                          re-labelling of the kind / nth
  jnp.ones(D), jnp.ones((1, *d.shape[1:]), dtype=d.dtype)                constant vector over the spatial axes / the scalar 1
  jnp.concatenate([...])                                                  the list of channels; the generated symbol takes `channel`
  sum(<expr> for i, c in enumerate(self.<tuple>))                        fsum (imap ...)
  calls of the two helpers (literal `order`, parity guard checked here)  the generated helper
  name = <expr>;  if self.<flag>: ... else: ...;  if <nat test>: return   let / if-then-else
  if <test>: raise ...  (helpers only, the two known tests)               precondition (recorded in a comment)

The check is closed over the classes: a class anywhere under exponax/ that defines _build_linear_operator and is neither in COVER nor
in EXCLUDED (nor the abstract declaration in BaseStepper) is an error, and so is a COVER / EXCLUDED entry that no longer exists."""
import ast
import glob
import os
import re

from .pyexpr import TranslationError, find_func, num, strip_doc, write_if_changed

REPO = os.environ.get("VERIF_REPO", "/repo")
OUT = os.path.join(os.path.dirname(os.path.dirname(os.path.dirname(os.path.abspath(__file__)))), "coq", "theories", "Gen", "LinOps.v")
STEPPER_DIRS = ["exponax/stepper", "exponax/stepper/generic", "exponax/stepper/reaction"]
HELPERS = ["build_laplace_operator", "build_gradient_inner_product_operator"]
ABSTRACT = ("exponax/_base_stepper.py", "BaseStepper")      # the abstract declaration of _build_linear_operator

# class -> (name of the generated symbol, attributes that become its arguments, in this order)
GENERAL = ["linear_coefficients"]
NS = ["diffusivity", "drag"]
COVER = {
    "Advection": ("advection", ["velocity"]),
    "Diffusion": ("diffusion", ["diffusivity"]),
    "AdvectionDiffusion": ("advection_diffusion", ["velocity", "diffusivity"]),
    "Dispersion": ("dispersion", ["advect_on_diffusion", "dispersivity"]),
    "HyperDiffusion": ("hyper_diffusion", ["diffuse_on_diffuse", "hyper_diffusivity"]),
    "Burgers": ("burgers", ["diffusivity"]),
    "KortewegDeVries": ("korteweg_de_vries", ["advect_over_diffuse", "diffuse_over_diffuse", "diffusivity", "dispersivity", "hyper_diffusivity"]),
    "KuramotoSivashinsky": ("kuramoto_sivashinsky", ["second_order_scale", "fourth_order_scale"]),
    "KuramotoSivashinskyConservative": ("kuramoto_sivashinsky_conservative", ["second_order_scale", "fourth_order_scale"]),
    "NavierStokesVorticity": ("navier_stokes_vorticity", NS),
    "KolmogorovFlowVorticity": ("kolmogorov_flow_vorticity", NS),
    "NavierStokesVelocity": ("navier_stokes_velocity", NS),
    "KolmogorovFlowVelocity": ("kolmogorov_flow_velocity", NS),
    "GeneralLinearStepper": ("general_linear", GENERAL),
    "GeneralConvectionStepper": ("general_convection", GENERAL),
    "GeneralGradientNormStepper": ("general_gradient_norm", GENERAL),
    "GeneralVorticityConvectionStepper": ("general_vorticity_convection", GENERAL),
    "GeneralPolynomialStepper": ("general_polynomial", GENERAL),
    "GeneralNonlinearStepper": ("general_nonlinear", GENERAL),
    "AllenCahn": ("allen_cahn", ["diffusivity", "first_order_coefficient"]),
    "FisherKPP": ("fisher_kpp", ["diffusivity", "reactivity"]),
    "CahnHilliard": ("cahn_hilliard", ["diffusivity", "gamma", "first_order_coefficient"]),
    "GrayScott": ("gray_scott", ["diffusivity_1", "diffusivity_2"]),
    "SwiftHohenberg": ("swift_hohenberg", ["reactivity", "critical_number"]),
    # defined in the tree but not exported (commented out in reaction/__init__.py); translated all the same
    "BelousovZhabotinsky": ("belousov_zhabotinsky", ["diffusivities"]),
}
EXCLUDED = {
    # `_build_linear_operator` returns (+i c |k|, -i c |k|): the eigenvalues of a 2x2 first-order system AFTER the hand-made
    # diagonalisation in Wave.step_fourier; it depends on self.wavenumber_norm (a stored array, not on the argument) and is
    # meaningless without the change of basis.  The wave stepper is modelled as a whole (Steppers/Linear.v wave_mode) and tied by
    # the mode-by-mode correspondence (c) of harness/props/c01.py.
    "Wave": "diagonalised 2x2 system; translated as a whole step by harness/translate/wave.py (C01_code_wave_step_is_model)",
}

# ---- kinds -----------------------------------------------------------------------------------------------
COEF, CVEC, CMAT, CLIST = "coef", "cvec", "cmat", "clist"      # constructor data: scalar, (D,), (D, D), tuple of floats
DVEC, DCOL, DROW, DMAT = "dvec", "dcol", "drow", "dmat"        # (D, ...), (D, 1, ...), (1, D, ...), (D, D, ...)
MODE, CH1, CHN = "mode", "ch1", "chn"                          # (...), (1, ...), (C, ...)
NAT, BOOL = "nat", "bool"
SCALARS = (COEF, MODE, CH1)
VECTORS = (CVEC, CLIST, DVEC, DCOL, DROW, CHN)
MATRICES = (CMAT, DMAT)
COQTYPE = {COEF: "K", CVEC: "list K", CMAT: "list (list K)", CLIST: "list K", DVEC: "list K", DMAT: "list (list K)",
           MODE: "K", CH1: "K", CHN: "list K", NAT: "nat", BOOL: "bool"}
RESERVED = {"d", "channel", "K", "order"}


class V:
    def __init__(self, kind, term):
        self.kind, self.term = kind, term


def shape_kind(text):
    """jaxtyping shape string -> kind"""
    toks = text.split()
    table = {("D",): CVEC, ("D", "D"): CMAT, ("D", "...", "(N//2)+1"): DVEC, ("1", "...", "(N//2)+1"): CH1, ("C", "...", "(N//2)+1"): CHN}
    k = table.get(tuple(toks))
    if k is None:
        raise TranslationError("array shape annotation " + repr(text))
    return k


def annotation_kind(a):
    if a is None:
        raise TranslationError("missing annotation")
    t = ast.unparse(a)
    if t == "float":
        return COEF
    if t == "bool":
        return BOOL
    if t == "int":
        return NAT
    if t in ("tuple[float, ...]", "tuple[float, float, float]"):
        return CLIST
    if isinstance(a, ast.Subscript) and ast.unparse(a.value) in ("Float", "Complex") and isinstance(a.slice, ast.Tuple) \
            and len(a.slice.elts) == 2 and ast.unparse(a.slice.elts[0]) == "Array" and isinstance(a.slice.elts[1], ast.Constant) \
            and isinstance(a.slice.elts[1].value, str):
        return shape_kind(a.slice.elts[1].value)
    raise TranslationError("annotation " + t)


def is_none(e):
    return isinstance(e, ast.Constant) and e.value is None


def is_ellipsis(e):
    return isinstance(e, ast.Constant) and e.value is Ellipsis


def is_full_slice(e):
    return isinstance(e, ast.Slice) and e.lower is None and e.upper is None and e.step is None


class Tr:
    """translator of one function body; env: python name or 'self.attr' -> V"""

    def __init__(self, where, env, helpers, dname, allow_raise):
        self.where, self.env0, self.helpers, self.dname, self.allow_raise = where, env, helpers, dname, allow_raise
        self.n = 0
        self.guards = []

    def err(self, msg):
        return TranslationError(f"{self.where}: {msg}")

    def fresh(self, stem="x"):
        self.n += 1
        return f"{stem}{self.n}"

    # ---- elementwise -----------------------------------------------------------------------------------
    def lift1(self, f, v):
        if v.kind in SCALARS:
            return V(v.kind, f(v.term))
        if v.kind in VECTORS:
            x = self.fresh()
            return V(v.kind, f"(map (fun {x} => {f(x)}) {v.term})")
        if v.kind in MATRICES:
            r, x = self.fresh("r"), self.fresh()
            return V(v.kind, f"(map (fun {r} => map (fun {x} => {f(x)}) {r}) {v.term})")
        raise self.err("arithmetic on a value of kind " + v.kind)

    def binop(self, op, a, b, src):
        f = lambda x, y: f"({op} {x} {y})"
        if a.kind in SCALARS and b.kind in SCALARS:
            ks = {a.kind, b.kind} - {COEF}
            if len(ks) > 1:
                raise self.err(f"broadcast of shapes (...) and (1, ...) in `{src}`")
            return V(ks.pop() if ks else COEF, f(a.term, b.term))
        if a.kind == COEF:
            return self.lift1(lambda y: f(a.term, y), b)
        if b.kind == COEF:
            return self.lift1(lambda x: f(x, b.term), a)
        if a.kind == DVEC and b.kind == CH1:       # (D, ...) op (1, ...): the singleton axis broadcasts over the D entries
            return self.lift1(lambda x: f(x, b.term), a)
        if a.kind == CH1 and b.kind == DVEC:
            return self.lift1(lambda y: f(a.term, y), b)
        if a.kind == b.kind and a.kind in (CVEC, DVEC):
            x, y = self.fresh(), self.fresh()
            return V(a.kind, f"(map2 (fun {x} {y} => {f(x, y)}) {a.term} {b.term})")
        if a.kind == b.kind and a.kind in MATRICES:
            r, s, x, y = self.fresh("r"), self.fresh("r"), self.fresh(), self.fresh()
            return V(a.kind, f"(map2 (fun {r} {s} => map2 (fun {x} {y} => {f(x, y)}) {r} {s}) {a.term} {b.term})")
        if (a.kind, b.kind) == (DCOL, DROW):      # (D,1,...) op (1,D,...): entry [i][j] = a_i op b_j
            x, y = self.fresh(), self.fresh()
            return V(DMAT, f"(map (fun {x} => map (fun {y} => {f(x, y)}) {b.term}) {a.term})")
        if (a.kind, b.kind) == (DROW, DCOL):      # (1,D,...) op (D,1,...): entry [i][j] = a_j op b_i
            x, y = self.fresh(), self.fresh()
            return V(DMAT, f"(map (fun {y} => map (fun {x} => {f(x, y)}) {a.term}) {b.term})")
        raise self.err(f"broadcast of kinds {a.kind}, {b.kind} in `{src}`")

    # ---- nat / bool ------------------------------------------------------------------------------------
    def nat(self, e, env):
        if isinstance(e, ast.Constant) and isinstance(e.value, int) and not isinstance(e.value, bool) and e.value >= 0:
            return str(e.value)
        if isinstance(e, ast.Name) and e.id in env and env[e.id].kind == NAT:
            return env[e.id].term
        if isinstance(e, ast.BinOp) and isinstance(e.op, (ast.Add, ast.Mult, ast.FloorDiv)):
            op = {ast.Add: "Nat.add", ast.Mult: "Nat.mul", ast.FloorDiv: "Nat.div"}[type(e.op)]
            return f"({op} {self.nat(e.left, env)} {self.nat(e.right, env)})"
        raise self.err("natural-number expression " + ast.unparse(e))

    def boolean(self, e, env):
        if isinstance(e, ast.UnaryOp) and isinstance(e.op, ast.Not):
            return f"(negb {self.boolean(e.operand, env)})"
        if isinstance(e, (ast.Attribute, ast.Name)):
            key = ast.unparse(e)
            if key in env and env[key].kind == BOOL:
                return env[key].term
            raise self.err("condition " + key)
        if isinstance(e, ast.Compare) and len(e.ops) == 1 and isinstance(e.ops[0], (ast.Eq, ast.NotEq)):
            t = f"(Nat.eqb {self.nat(e.left, env)} {self.nat(e.comparators[0], env)})"
            return t if isinstance(e.ops[0], ast.Eq) else f"(negb {t})"
        raise self.err("condition " + ast.unparse(e))

    # ---- expressions -----------------------------------------------------------------------------------
    def expr(self, e, env):
        src = ast.unparse(e)
        if isinstance(e, ast.Constant):
            if isinstance(e.value, (int, float)) and not isinstance(e.value, bool):
                return V(COEF, num(e.value))
            raise self.err("literal " + src)
        if isinstance(e, (ast.Name, ast.Attribute)):
            if src in env:
                v = env[src]
                if v.kind in (NAT, BOOL):
                    raise self.err(f"{v.kind} value `{src}` used as a number")
                return v
            raise self.err("unknown name " + src)
        if isinstance(e, ast.UnaryOp) and isinstance(e.op, ast.USub):
            if isinstance(e.operand, ast.Constant):
                return V(COEF, num(-e.operand.value))
            return self.lift1(lambda x: f"(oopp {x})", self.expr(e.operand, env))
        if isinstance(e, ast.UnaryOp) and isinstance(e.op, ast.UAdd):
            return self.expr(e.operand, env)
        if isinstance(e, ast.BinOp):
            if isinstance(e.op, ast.Pow):
                n = self.nat(e.right, env)
                return self.lift1(lambda x: f"(fpow {x} {n})", self.expr(e.left, env))
            op = {ast.Add: "oadd", ast.Sub: "osub", ast.Mult: "omul", ast.Div: "odiv"}.get(type(e.op))
            if op is None:
                raise self.err("operator in " + src)
            return self.binop(op, self.expr(e.left, env), self.expr(e.right, env), src)
        if isinstance(e, ast.Subscript):
            return self.subscript(e, env)
        if isinstance(e, ast.Call):
            return self.call(e, env)
        raise self.err("expression " + src)

    def subscript(self, e, env):
        src = ast.unparse(e)
        v = self.expr(e.value, env)
        s = e.slice
        if v.kind == CLIST and isinstance(s, ast.Constant) and isinstance(s.value, int) and not isinstance(s.value, bool) and s.value >= 0:
            return V(COEF, f"(nth {s.value} {v.term} o0)")
        elts = s.elts if isinstance(s, ast.Tuple) else [s]
        if v.kind == MODE and (is_none(elts[0]) and (len(elts) == 1 or (len(elts) == 2 and is_ellipsis(elts[1])))):
            return V(CH1, v.term)                                   # x[None, ...]: add the singleton channel axis
        if v.kind == DVEC and len(elts) == 2 and is_none(elts[0]) and (is_full_slice(elts[1]) or is_ellipsis(elts[1])):
            return V(DROW, v.term)                                  # d[None, :]
        if v.kind == DVEC and len(elts) == 2 and is_full_slice(elts[0]) and is_none(elts[1]):
            return V(DCOL, v.term)                                  # d[:, None]
        raise self.err(f"subscript `{src}` on a value of kind {v.kind}")

    def kwargs(self, e, allowed):
        kw = {}
        for k in e.keywords:
            if k.arg is None or k.arg not in allowed or k.arg in kw:
                raise self.err("keyword in " + ast.unparse(e))
            kw[k.arg] = k.value
        return kw

    def call(self, e, env):
        src = ast.unparse(e)
        fn = ast.unparse(e.func)
        if fn == "jnp.sum":
            kw = self.kwargs(e, ("axis", "keepdims"))
            if len(e.args) != 1 or "axis" not in kw or not (isinstance(kw["axis"], ast.Constant) and kw["axis"].value == 0 and not isinstance(kw["axis"].value, bool)):
                raise self.err("jnp.sum form " + src)
            keep = False
            if "keepdims" in kw:
                if not (isinstance(kw["keepdims"], ast.Constant) and isinstance(kw["keepdims"].value, bool)):
                    raise self.err("jnp.sum keepdims " + src)
                keep = kw["keepdims"].value
            v = self.expr(e.args[0], env)
            if v.kind != DVEC:
                raise self.err(f"jnp.sum over axis 0 of a value of kind {v.kind}")
            return V(CH1 if keep else MODE, f"(fsum {v.term})")
        if fn == "jnp.ones":
            if len(e.args) == 1 and not e.keywords and ast.unparse(e.args[0]) in ("self.num_spatial_dims", "num_spatial_dims") \
                    and ast.unparse(e.args[0]) in self.env0.get("#dims", ()):
                return V(CVEC, f"(map (fun _ => o1) {self.dname})")    # one entry per spatial axis = per entry of d
            dn = self.pyname_of_d(env)
            want = f"jnp.ones((1, *{dn}.shape[1:]), dtype={dn}.dtype)"
            if dn is not None and ast.dump(e) == ast.dump(ast.parse(want).body[0].value):
                return V(CH1, "o1")
            raise self.err("jnp.ones form " + src)
        if fn == "jnp.einsum":
            if e.keywords or len(e.args) < 2 or not (isinstance(e.args[0], ast.Constant) and isinstance(e.args[0].value, str)):
                raise self.err("einsum form " + src)
            return self.einsum(e.args[0].value, [self.expr(a, env) for a in e.args[1:]])
        if fn == "jnp.concatenate":
            kw = self.kwargs(e, ("axis",))
            if "axis" in kw and not (isinstance(kw["axis"], ast.Constant) and kw["axis"].value == 0 and not isinstance(kw["axis"].value, bool)):
                raise self.err("concatenate axis " + src)
            if len(e.args) != 1 or not isinstance(e.args[0], (ast.List, ast.Tuple)) or not e.args[0].elts:
                raise self.err("concatenate form " + src)
            items = [self.expr(x, env) for x in e.args[0].elts]
            if any(i.kind != CH1 for i in items):
                raise self.err("concatenate of kinds " + str([i.kind for i in items]))
            return V(CHN, "[" + "; ".join(i.term for i in items) + "]")
        if fn == "jnp.where":
            # jnp.where(x == 0, a, b) on one mode: x of shape (...) / (1, ...), a and b scalars or of the same shape
            if e.keywords or len(e.args) != 3 or not (isinstance(e.args[0], ast.Compare) and len(e.args[0].ops) == 1
                                                       and isinstance(e.args[0].ops[0], ast.Eq)
                                                       and isinstance(e.args[0].comparators[0], ast.Constant)
                                                       and e.args[0].comparators[0].value == 0
                                                       and not isinstance(e.args[0].comparators[0].value, bool)):
                raise self.err("jnp.where form " + src)
            x = self.expr(e.args[0].left, env)
            a, b = self.expr(e.args[1], env), self.expr(e.args[2], env)
            if x.kind not in (MODE, CH1) or any(v.kind not in (COEF, x.kind) for v in (a, b)):
                raise self.err(f"jnp.where on kinds {x.kind}, {a.kind}, {b.kind}")
            return V(x.kind, f"(if oeqb {x.term} o0 then {a.term} else {b.term})")
        if fn == "sum":
            if e.keywords or len(e.args) != 1 or not isinstance(e.args[0], ast.GeneratorExp):
                raise self.err("sum form " + src)
            return self.gensum(e.args[0], env)
        if fn in self.helpers:
            return self.helper_call(fn, e, env)
        raise self.err("call " + fn)

    def pyname_of_d(self, env):
        for k, v in env.items():
            if v.kind == DVEC and v.term == self.dname and "." not in k:
                return k
        return None

    def gensum(self, g, env):
        if len(g.generators) != 1 or g.generators[0].ifs or g.generators[0].is_async:
            raise self.err("generator shape")
        it, tgt = g.generators[0].iter, g.generators[0].target
        e2 = dict(env)
        if isinstance(it, ast.Call) and ast.unparse(it.func) == "enumerate" and len(it.args) == 1 and not it.keywords:
            lst = self.expr(it.args[0], env)
            if not (isinstance(tgt, ast.Tuple) and len(tgt.elts) == 2 and all(isinstance(t, ast.Name) for t in tgt.elts)):
                raise self.err("enumerate target")
            i, c = self.fresh("i"), self.fresh("c")
            e2[tgt.elts[0].id] = V(NAT, i)
            e2[tgt.elts[1].id] = V(COEF, c)
            head = f"(imap (fun ({i} : nat) ({c} : K) => "
        elif isinstance(tgt, ast.Name):
            lst = self.expr(it, env)
            c = self.fresh("c")
            e2[tgt.id] = V(COEF, c)
            head = f"(map (fun ({c} : K) => "
        else:
            raise self.err("generator target")
        if lst.kind != CLIST:
            raise self.err("generator over a value of kind " + lst.kind)
        body = self.expr(g.elt, e2)
        if body.kind not in SCALARS:
            raise self.err("sum of values of kind " + body.kind)
        return V(body.kind, f"(fsum {head}{body.term}) {lst.term}))")

    def einsum(self, spec, ops):
        spec = spec.replace(" ", "")
        if spec.count("->") != 1:
            raise self.err("einsum spec " + spec)
        lhs, rhs = spec.split("->")
        subs = lhs.split(",")
        if rhs != "..." or len(subs) != len(ops):
            raise self.err("einsum spec (only full contractions `...->...` are translated) " + spec)
        state, letters = [], []
        for s, v in zip(subs, ops):
            ell = s.endswith("...")
            idx = s[:-3] if ell else s
            if (idx and not idx.isalpha()) or len(set(idx)) != len(idx):
                raise self.err("einsum operand " + s)
            want = {(0, True): (MODE,), (1, False): (CVEC,), (2, False): (CMAT,), (1, True): (DVEC,), (2, True): (DMAT,)}.get((len(idx), ell))
            if want is None or v.kind not in want:
                raise self.err(f"einsum operand `{s}` of kind {v.kind}")
            state.append((idx, v.term))
            letters += [c for c in idx if c not in letters]

        def go(state, letters):
            if not letters:
                t = state[0][1]
                for _, u in state[1:]:
                    t = f"(omul {t} {u})"
                return t
            L = letters[0]
            sel = [k for k, (idx, _) in enumerate(state) if L in idx]
            if any(state[k][0][0] != L for k in sel):
                raise self.err(f"einsum index `{L}` is not the leading axis of every operand that carries it (transposed operand)")
            if len(sel) > 4:
                raise self.err("einsum with more than four operands on one index")
            xs = [self.fresh("e") for _ in sel]
            new = list(state)
            for k, x in zip(sel, xs):
                new[k] = (state[k][0][1:], x)
            mp = {1: "map", 2: "map2", 3: "ein_map3", 4: "ein_map4"}[len(sel)]
            return f"(fsum ({mp} (fun {' '.join(xs)} => {go(new, letters[1:])}) {' '.join(state[k][1] for k in sel)}))"
        return V(MODE, go(state, letters))

    def helper_call(self, fn, e, env):
        h = self.helpers[fn]
        vals = {}
        if len(e.args) > len(h["pos"]):
            raise self.err("too many positional arguments in " + ast.unparse(e))
        for p, a in zip(h["pos"], e.args):
            vals[p] = a
        for k in e.keywords:
            if k.arg is None or k.arg in vals or k.arg not in h["pos"] + h["kwonly"]:
                raise self.err("keyword in " + ast.unparse(e))
            vals[k.arg] = k.value
        args = []
        for p in h["pos"] + h["kwonly"]:
            kind = h["kinds"][p]
            if p not in vals:
                if p not in h["defaults"]:
                    raise self.err(f"argument {p} missing in " + ast.unparse(e))
                vals[p] = h["defaults"][p]
            if kind == NAT and isinstance(vals[p], ast.Name) and vals[p].id in env and env[vals[p].id].kind == NAT:
                for g in h["guards"]:            # the caller inherits the guard of the helper
                    if g[0] == "parity" and g[1] == p:
                        self.guards.append(("parity", vals[p].id, g[2]))
                args.append(env[vals[p].id].term)
            elif kind == NAT:
                a = vals[p]
                if not (isinstance(a, ast.Constant) and isinstance(a.value, int) and not isinstance(a.value, bool) and a.value >= 0):
                    raise self.err(f"`{p}` of {fn} must be a literal: " + ast.unparse(e))
                for g in h["guards"]:
                    if g[0] == "parity" and g[1] == p and a.value % 2 != g[2]:
                        raise self.err(f"{fn} raises for {p}={a.value}")
                args.append(str(a.value))
            else:
                v = self.expr(vals[p], env)
                if v.kind != kind:
                    raise self.err(f"argument {p} of {fn} has kind {v.kind}, expected {kind}")
                args.append(v.term)
        return V(h["ret"], f"(gen_{fn}{getattr(self, 'helper_prefix', '')} {' '.join(args)})")

    # ---- statements ------------------------------------------------------------------------------------
    def guard(self, st, env):
        """`if <test>: raise ...` of the helpers: returns the recorded precondition"""
        t = st.test
        if isinstance(t, ast.Compare) and len(t.ops) == 1 and isinstance(t.ops[0], ast.NotEq) and isinstance(t.left, ast.BinOp) \
                and isinstance(t.left.op, ast.Mod) and isinstance(t.left.left, ast.Name) and t.left.left.id in env \
                and env[t.left.left.id].kind == NAT and ast.unparse(t.left.right) == "2" \
                and isinstance(t.comparators[0], ast.Constant) and t.comparators[0].value in (0, 1):
            return ("parity", t.left.left.id, t.comparators[0].value)
        if isinstance(t, ast.Compare) and len(t.ops) == 1 and isinstance(t.ops[0], ast.NotEq):
            l, r = t.left, t.comparators[0]
            for a, va in env.items():
                for b, vb in env.items():
                    if va.kind == CVEC and vb.kind == DVEC and "." not in a and "." not in b \
                            and ast.dump(t) == ast.dump(ast.parse(f"{a}.shape != ({b}.shape[0],)").body[0].value):
                        return ("samelen", a, b)
        raise self.err("guard " + ast.unparse(t))

    def block(self, stmts, env):
        if not stmts:
            raise self.err("control reaches the end of the function without `return`")
        st, rest = stmts[0], stmts[1:]
        if isinstance(st, ast.Expr) and isinstance(st.value, ast.Constant) and isinstance(st.value.value, str):
            return self.block(rest, env)
        if isinstance(st, ast.Return):
            if rest or st.value is None:
                raise self.err("statements after return / bare return")
            return self.expr(st.value, env)
        if isinstance(st, ast.Assign):
            if len(st.targets) != 1 or not isinstance(st.targets[0], ast.Name):
                raise self.err("assignment target " + ast.unparse(st))
            v = self.expr(st.value, env)
            return self.bind(st.targets[0].id, v, rest, env)
        if isinstance(st, ast.AugAssign):        # x op= e  is  x = x op e
            if not isinstance(st.target, ast.Name):
                raise self.err("assignment target " + ast.unparse(st))
            load = ast.Name(id=st.target.id, ctx=ast.Load())
            v = self.expr(ast.BinOp(left=load, op=st.op, right=st.value), env)
            return self.bind(st.target.id, v, rest, env)
        if isinstance(st, ast.If):
            ends = lambda b: bool(b) and isinstance(b[-1], ast.Return)
            if len(st.body) == 1 and isinstance(st.body[0], ast.Raise) and not st.orelse:
                if not self.allow_raise:
                    raise self.err("raise in a method body")
                self.guards.append(self.guard(st, env))
                return self.block(rest, env)
            c = self.boolean(st.test, env)
            if ends(st.body) and (not st.orelse or ends(st.orelse)):
                if st.orelse and rest:
                    raise self.err("statements after if/else that both return")
                a = self.block(st.body, env)
                b = self.block(st.orelse if st.orelse else rest, env)
                if a.kind != b.kind:
                    raise self.err(f"branches return kinds {a.kind} / {b.kind}")
                return V(a.kind, f"(if {c} then ({a.term})\n     else ({b.term}))")
            if ends(st.orelse):
                raise self.err("return in the else branch only")
            asg = lambda body: [s.targets[0].id for s in body if isinstance(s, ast.Assign) and len(s.targets) == 1 and isinstance(s.targets[0], ast.Name)] \
                + [s.target.id for s in body if isinstance(s, ast.AugAssign) and isinstance(s.target, ast.Name)]
            va, vb = asg(st.body), asg(st.orelse)
            both = [x for x in dict.fromkeys(va) if x in vb or x in env]
            for x in set(va) ^ set(vb):
                if x in env and not (x in va and not st.orelse):
                    raise self.err(f"`{x}` is re-assigned in one branch only")
            if not both:
                raise self.err("if statement that defines no common variable")
            env2 = {k: v for k, v in env.items() if k not in set(va) | set(vb)}
            binds = []
            for x in both:
                ret = [ast.Return(value=ast.Name(id=x, ctx=ast.Load()))]
                a = self.block(list(st.body) + ret, env)
                b = self.block(list(st.orelse) + ret, env)
                if a.kind != b.kind:
                    raise self.err(f"`{x}` has kinds {a.kind} / {b.kind} in the two branches")
                binds.append((x, V(a.kind, f"(if {c} then ({a.term})\n     else ({b.term}))")))
            return self.bind_many(binds, rest, env2)
        raise self.err("statement " + ast.unparse(st)[:80])

    def bind(self, name, v, rest, env):
        return self.bind_many([(name, v)], rest, env)

    def bind_many(self, binds, rest, env):
        env2 = dict(env)
        heads = []
        for name, v in binds:
            cn = "v_" + name
            env2[name] = V(v.kind, cn)
            heads.append(f"let {cn} := {v.term} in")
        body = self.block(rest, env2)
        return V(body.kind, "\n    ".join(heads) + "\n    " + body.term)


# ---- helpers of _spectral.py ------------------------------------------------------------------------------
def translate_helper(fn, helpers):
    a = fn.args
    if a.vararg or a.kwarg or a.posonlyargs or a.defaults:
        raise TranslationError(fn.name + ": signature")
    pos = [x.arg for x in a.args]
    kwonly = [x.arg for x in a.kwonlyargs]
    kinds = {x.arg: annotation_kind(x.annotation) for x in a.args + a.kwonlyargs}
    defaults = {x.arg: d for x, d in zip(a.kwonlyargs, a.kw_defaults) if d is not None}
    dvecs = [p for p in pos if kinds[p] == DVEC]
    if len(dvecs) != 1 or any(k not in (DVEC, CVEC, NAT) for k in kinds.values()):
        raise TranslationError(fn.name + ": argument kinds " + str(kinds))
    env = {p: V(kinds[p], p) for p in pos + kwonly}
    tr = Tr(fn.name, env, helpers, dvecs[0], allow_raise=True)
    body = tr.block(strip_doc(fn.body), env)
    ret = annotation_kind(fn.returns)
    if body.kind != ret:
        raise TranslationError(f"{fn.name}: returns kind {body.kind}, annotated {ret}")
    params = " ".join(f"({p} : {COQTYPE[kinds[p]]})" for p in pos + kwonly)
    pre = "".join(f"  (* raises unless {g[1]} % 2 = {g[2]} (checked by the translator at every call site) *)\n" if g[0] == "parity"
                  else f"  (* raises unless len({g[1]}) = len({g[2]}) *)\n" for g in tr.guards)
    text = f"{pre}  Definition gen_{fn.name} {params} : {COQTYPE[ret]} :=\n    {body.term}."
    return text, dict(pos=pos, kwonly=kwonly, kinds=kinds, defaults=defaults, guards=tr.guards, ret=ret)


# ---- make_incompressible (_spectral.py) and Poisson (_poisson.py): the per-mode arithmetic between fft and ifft ----------------------
def same_stmt(node, text):
    return ast.unparse(node) == ast.unparse(ast.parse(text).body[0])


def translate_make_incompressible(tree, helpers):
    fn = find_func(tree.body, "make_incompressible")
    body = strip_doc(fn.body)
    head = ["channel_shape = field.shape[0]", "spatial_shape = field.shape[1:]", "num_spatial_dims = len(spatial_shape)"]
    if not all(same_stmt(a, b) for a, b in zip(body[:3], head)):
        raise TranslationError("make_incompressible: shape statements")
    g = body[3]
    if not (isinstance(g, ast.If) and ast.unparse(g.test) == "channel_shape != num_spatial_dims" and len(g.body) == 1
            and isinstance(g.body[0], ast.Raise) and not g.orelse):
        raise TranslationError("make_incompressible: channel guard")
    mid = body[4:]
    want = {0: "num_points = spatial_shape[0]",
            1: "derivative_operator = build_derivative_operator(num_spatial_dims, 1.0, num_points, indexing=indexing)",
            2: "incompressible_field_hat = fft(field, num_spatial_dims=num_spatial_dims)"}
    for i, w in want.items():
        if not same_stmt(mid[i], w):
            raise TranslationError("make_incompressible statement: " + ast.unparse(mid[i]))
    tail = ["incompressible_field = ifft(incompressible_field_hat, num_spatial_dims=num_spatial_dims, num_points=num_points)",
            "return incompressible_field"]
    if not all(same_stmt(a, b) for a, b in zip(mid[-2:], tail)):
        raise TranslationError("make_incompressible: inverse transform / return")
    env = {"derivative_operator": V(DVEC, "d"), "incompressible_field_hat": V(DVEC, "u")}
    tr = Tr("make_incompressible", env, helpers, "d", allow_raise=False)
    tr.helper_prefix = " K"
    out = tr.block(list(mid[3:-2]) + [ast.parse("return incompressible_field_hat").body[0]], env)
    if out.kind != DVEC:
        raise TranslationError("make_incompressible: result kind " + out.kind)
    return ("  (* make_incompressible: one mode, d = derivative operator at domain extent 1, u = the D velocity coefficients; the channel\n"
            "     count must equal the number of axes (guard) *)\n"
            f"  Definition gen_make_incompressible (d u : list K) : list K :=\n    {out.term}.")


def translate_poisson(helpers):
    tree = ast.parse(open(os.path.join(REPO, "exponax/_poisson.py")).read())
    cls = [n for n in tree.body if isinstance(n, ast.ClassDef) and n.name == "Poisson"]
    if len(cls) != 1:
        raise TranslationError("class Poisson not found")
    init = find_func(cls[0].body, "__init__")
    if [a.arg for a in init.args.args] != ["self", "num_spatial_dims", "domain_extent", "num_points"] or [a.arg for a in init.args.kwonlyargs] != ["order"]:
        raise TranslationError("Poisson.__init__ signature")
    ib = strip_doc(init.body)
    i0 = [i for i, st in enumerate(ib) if same_stmt(st, "derivative_operator = build_derivative_operator(num_spatial_dims, domain_extent, num_points)")]
    if len(i0) != 1 or i0[0] != len(ib) - 3:
        raise TranslationError("Poisson.__init__: derivative operator statement")
    last = ib[-1]
    if not (isinstance(last, ast.Assign) and ast.unparse(last.targets[0]) == "self._inv_operator"):
        raise TranslationError("Poisson.__init__: _inv_operator")
    env = {"derivative_operator": V(DVEC, "d"), "order": V(NAT, "order")}
    tr = Tr("Poisson.__init__", env, helpers, "d", allow_raise=False)
    tr.helper_prefix = " K"
    inv = tr.block([ib[-2], ast.Return(value=last.value)], env)
    if inv.kind != CH1:
        raise TranslationError("Poisson._inv_operator kind " + inv.kind)
    sf = strip_doc(find_func(cls[0].body, "step_fourier").body)
    if len(sf) != 1 or not isinstance(sf[0], ast.Return):
        raise TranslationError("Poisson.step_fourier")
    env2 = {"self._inv_operator": V(CH1, "inv"), "f_hat": V(CH1, "f")}        # one channel of f_hat at one mode
    tr2 = Tr("Poisson.step_fourier", env2, helpers, "d", allow_raise=False)
    out = tr2.block(sf, env2)
    st = strip_doc(find_func(cls[0].body, "step").body)
    want = ["f_hat = fft(f, num_spatial_dims=self.num_spatial_dims)", "u_hat = self.step_fourier(f_hat)",
            "u = ifft(u_hat, num_spatial_dims=self.num_spatial_dims, num_points=self.num_points)", "return u"]
    if len(st) != 4 or not all(same_stmt(a, b) for a, b in zip(st, want)):
        raise TranslationError("Poisson.step")
    pre = "".join(f"  (* raises unless {g[1]} % 2 = {g[2]} *)\n" for g in tr.guards if g[0] == "parity")
    return (f"{pre}  Definition gen_poisson_inv_operator (d : list K) (order : nat) : K :=\n    {inv.term}.\n"
            f"  Definition gen_poisson_step_fourier (inv f : K) : K :=\n    {out.term}.")


# ---- classes ------------------------------------------------------------------------------------------------
def stepper_classes():
    """every class of the package (any file under exponax/, nested classes included) that defines _build_linear_operator:
    name -> (file, ClassDef).  The abstract declaration in BaseStepper is checked to be abstract and skipped."""
    out = {}
    for f in sorted(glob.glob(os.path.join(REPO, "exponax", "**", "*.py"), recursive=True)):
        rel = os.path.relpath(f, REPO)
        tree = ast.parse(open(f).read())
        for c in ast.walk(tree):
            if not isinstance(c, ast.ClassDef):
                continue
            ms = [m for m in c.body if isinstance(m, (ast.FunctionDef, ast.AsyncFunctionDef)) and m.name == "_build_linear_operator"]
            if not ms:
                continue
            if (rel, c.name) == ABSTRACT:
                if len(ms) != 1 or [ast.unparse(x) for x in ms[0].decorator_list] != ["abstractmethod"] \
                        or [type(x) for x in strip_doc(ms[0].body)] != [ast.Pass]:
                    raise TranslationError("BaseStepper._build_linear_operator is no longer an abstract declaration")
                continue
            if c.name in out:
                raise TranslationError(f"class {c.name} defined twice")
            if os.path.dirname(rel) not in STEPPER_DIRS:
                raise TranslationError(f"{rel}: class {c.name} defines _build_linear_operator outside the stepper directories")
            out[c.name] = (rel, c)
    return out


def attr_kinds(cls):
    kinds = {}
    for m in cls.body:
        if isinstance(m, ast.AnnAssign) and isinstance(m.target, ast.Name):
            try:
                kinds[m.target.id] = annotation_kind(m.annotation)
            except TranslationError:
                kinds[m.target.id] = None      # a field the linear operator must not use
    return kinds


def translate_method(cname, cls, helpers):
    gname, attrs = COVER[cname]
    fn = find_func(cls.body, "_build_linear_operator")
    a = fn.args
    if [x.arg for x in a.args][:1] != ["self"] or len(a.args) != 2 or a.vararg or a.kwarg or a.kwonlyargs or a.defaults or a.posonlyargs or fn.decorator_list:
        raise TranslationError(cname + "._build_linear_operator: signature")
    dpy = a.args[1].arg
    kinds = attr_kinds(cls)
    env = {dpy: V(DVEC, "d"), "#dims": ("self.num_spatial_dims",)}
    params = []
    for at in attrs:
        k = kinds.get(at)
        if k not in (COEF, CVEC, CMAT, CLIST, BOOL) or at in RESERVED or re.match(r"(v_|gen_|[xeicr]\d+$)", at):
            raise TranslationError(f"{cname}.{at}: field kind {k}")
        env["self." + at] = V(k, at)
        params.append(f"({at} : {COQTYPE[k]})")
    tr = Tr(cname + "._build_linear_operator", env, helpers, "d", allow_raise=False)
    wenv = {k: v for k, v in env.items() if not k.startswith("#")}
    body = tr.block(strip_doc(fn.body), wenv)
    if body.kind == CH1:
        sig, term = "", body.term
    elif body.kind == CHN:
        sig, term = " (channel : nat)", f"nth channel\n    ({body.term}) o0"
    else:
        raise TranslationError(f"{cname}._build_linear_operator returns a value of kind {body.kind} (expected shape (1, ...) or (C, ...))")
    return f"  Definition gen_sym_{gname} {' '.join(params)}{sig} (d : list K) : K :=\n    {term}."


# constructor coercions: the only statements allowed to touch a coefficient before `self.<attr> = <attr>`
VEC_COERCION = "if jnp.ndim({x}) == 0:\n    {x} = jnp.ones(num_spatial_dims) * {x}"
MAT_COERCION = ("if jnp.ndim({x}) == 0:\n    {x} = jnp.diag(jnp.ones(num_spatial_dims)) * {x}\n"
                "elif len({x}.shape) == 1:\n    {x} = jnp.diag({x})")


def stores(node, name):
    return any(isinstance(n, ast.Name) and n.id == name and isinstance(n.ctx, (ast.Store, ast.Del)) for n in ast.walk(node))


def translate_ctor(cname, cls):
    """each coefficient of the symbol is the constructor argument of the same name, stored unchanged
    (`self.x = x`, exactly once), possibly after the scalar -> vector / matrix promotion, which is translated."""
    gname, attrs = COVER[cname]
    init = find_func(cls.body, "__init__")
    argn = [x.arg for x in init.args.args + init.args.kwonlyargs]
    kinds = attr_kinds(cls)
    out = []
    for at in attrs:
        if at not in argn:
            raise TranslationError(f"{cname}.__init__ has no argument {at}")
        sets = [s for s in ast.walk(init) if isinstance(s, (ast.Assign, ast.AugAssign, ast.AnnAssign))
                and any(ast.unparse(t) == "self." + at for t in (s.targets if isinstance(s, ast.Assign) else [s.target]))]
        if len(sets) != 1 or sets[0] not in init.body or not isinstance(sets[0], ast.Assign) or len(sets[0].targets) != 1 \
                or not (isinstance(sets[0].value, ast.Name) and sets[0].value.id == at):
            raise TranslationError(f"{cname}.__init__: `self.{at} = {at}` expected exactly once at top level, found {[ast.unparse(s) for s in sets]}")
        touching = [s for s in init.body if stores(s, at)]
        pos = init.body.index(sets[0])
        if any(init.body.index(s) > pos for s in touching):
            pass            # rebinding the local after it was stored does not change the field
        touching = [s for s in touching if init.body.index(s) < pos]
        tr = Tr(f"{cname}.__init__", {"#dims": ("num_spatial_dims",)}, {}, "d", allow_raise=False)
        if not touching:
            continue
        if kinds[at] == CVEC and len(touching) == 1 and ast.dump(touching[0]) == ast.dump(ast.parse(VEC_COERCION.format(x=at)).body[0]):
            v = tr.expr(touching[0].body[0].value, {at: V(COEF, "c")})
            if v.kind != CVEC:
                raise TranslationError(f"{cname}.__init__: promoted {at} has kind {v.kind}")
            out.append(f"  Definition gen_ctor_{gname}_{at}_scalar (c : K) (d : list K) : list K :=\n    {v.term}.")
        elif kinds[at] == CMAT and len(touching) == 1 and ast.dump(touching[0]) == ast.dump(ast.parse(MAT_COERCION.format(x=at)).body[0]):
            # jnp.diag(v) of a vector: the diagonal matrix (Symbols.diag_mat); jnp.diag(...) * c: every entry times c
            ones = tr.expr(ast.parse("jnp.ones(num_spatial_dims)").body[0].value, {})
            sc = tr.binop("omul", V(CMAT, f"(diag_mat K {ones.term})"), V(COEF, "c"), "jnp.diag(jnp.ones(num_spatial_dims)) * " + at)
            out.append(f"  Definition gen_ctor_{gname}_{at}_scalar (c : K) (d : list K) : list (list K) :=\n    {sc.term}.")
            out.append(f"  Definition gen_ctor_{gname}_{at}_vector (v : list K) : list (list K) :=\n    (diag_mat K v).")
        else:
            raise TranslationError(f"{cname}.__init__: unrecognised statements modify `{at}` before it is stored: "
                                   + "; ".join(ast.unparse(s)[:120] for s in touching))
    return out


PRELUDE = """(* GENERATED by harness/translate/linops.py from exponax/_spectral.py and exponax/stepper/**/_*.py -- do not edit.
   One mode of the linear operator as a function of d = (derivative operator at that mode, one entry per spatial axis). *)
From Coq Require Import ZArith QArith List Bool.
From EXV Require Import Base.Scalar Spectral.Symbols.
Import ListNotations.
Local Open Scope fld_scope.

Section GenLinOps.
  Variable K : Ops.
  (* zips used by einsum contractions over three / four operands *)
  Fixpoint ein_map3 {A B C E} (f : A -> B -> C -> E) (l1 : list A) (l2 : list B) (l3 : list C) : list E :=
    match l1, l2, l3 with a :: r1, b :: r2, c :: r3 => f a b c :: ein_map3 f r1 r2 r3 | _, _, _ => [] end.
  Fixpoint ein_map4 {A B C E G} (f : A -> B -> C -> E -> G) (l1 : list A) (l2 : list B) (l3 : list C) (l4 : list E) : list G :=
    match l1, l2, l3, l4 with a :: r1, b :: r2, c :: r3, e :: r4 => f a b c e :: ein_map4 f r1 r2 r3 r4 | _, _, _, _ => [] end.
"""


def generate():
    tree = ast.parse(open(os.path.join(REPO, "exponax/_spectral.py")).read())
    parts = [PRELUDE]
    helpers = {}
    for h in HELPERS:
        text, info = translate_helper(find_func(tree.body, h), helpers)
        helpers[h] = info
        parts.append(text)
    classes = stepper_classes()
    unknown = sorted(set(classes) - set(COVER) - set(EXCLUDED))
    if unknown:
        raise TranslationError("classes defining _build_linear_operator that the translator does not cover: " + ", ".join(unknown))
    missing = sorted((set(COVER) | set(EXCLUDED)) - set(classes))
    if missing:
        raise TranslationError("classes expected to define _build_linear_operator but do not: " + ", ".join(missing))
    covered = []
    for cname in COVER:
        f, cls = classes[cname]
        parts.append(f"  (* {f}: {cname} *)")
        parts.extend(translate_ctor(cname, cls))
        parts.append(translate_method(cname, cls, helpers))
        covered.append(cname)
    parts.append("End GenLinOps.")
    parts.append("Arguments ein_map3 {A B C E} f l1 l2 l3. Arguments ein_map4 {A B C E G} f l1 l2 l3 l4.")
    parts.append("(* covered: " + ", ".join(covered) + " *)")
    parts.append("(* excluded: " + "; ".join(f"{k} ({v})" for k, v in EXCLUDED.items()) + " *)")
    return "\n".join(parts) + "\n", covered


OUT_OPS = os.path.join(os.path.dirname(OUT), "OperatorsGen.v")


def generate_operators():
    """Gen/OperatorsGen.v (C10: make_incompressible, C05: Poisson), kept apart from Gen/LinOps.v so that a change there does not break the
    symbol tie of the steppers; the two parts are independent: a part that cannot be translated is left out (its theorem then fails)"""
    tree = ast.parse(open(os.path.join(REPO, "exponax/_spectral.py")).read())
    helpers = {}
    for h in HELPERS:
        helpers[h] = translate_helper(find_func(tree.body, h), helpers)[1]
    parts = ["(* GENERATED by harness/translate/linops.py from exponax/_spectral.py (make_incompressible) and exponax/_poisson.py -- do not edit. *)",
             "From Coq Require Import ZArith QArith List Bool.", "From EXV Require Import Base.Scalar Spectral.Symbols Gen.LinOps.",
             "Import ListNotations.", "Local Open Scope fld_scope.", "", "Section GenOperators.", "  Variable K : Ops."]
    errors = {}
    for name, fn in (("make_incompressible", lambda: translate_make_incompressible(tree, helpers)), ("poisson", lambda: translate_poisson(helpers))):
        try:
            parts.append(fn())
        except Exception as e:
            errors[name] = f"{type(e).__name__}: {e}"
            parts.append("  (* " + name + ": TRANSLATION FAILED: " + errors[name].replace("(*", "( *").replace("*)", "* )") + " *)")
    parts.append("End GenOperators.")
    return "\n".join(parts) + "\n", errors


def run_operators(require=("make_incompressible", "poisson")):
    text, errors = generate_operators()
    write_if_changed(OUT_OPS, text)
    bad = [f"{k}: {v}" for k, v in errors.items() if k in require]
    if bad:
        raise TranslationError("; ".join(bad))


def run():
    """fail closed: when the source cannot be translated, Gen/LinOps.v is replaced by a stub, so that Tie/LinOpsTie.v (and with it
    Props/C01.v) cannot be re-proved against the text of an earlier run"""
    try:
        text = generate()[0]
    except Exception as e:
        msg = f"{type(e).__name__}: {e}".replace("(*", "( *").replace("*)", "* )")
        write_if_changed(OUT, "(* GENERATED by harness/translate/linops.py -- TRANSLATION FAILED, no definitions.\n   " + msg + " *)\n")
        raise
    return write_if_changed(OUT, text)


if __name__ == "__main__":
    print(generate()[0])
