"""Translator: the layout functions of exponax/_spectral.py -> coq/theories/Gen/SpectralGen.v (consumed by Tie/SpectralTie.v, C04 / C05).

  wavenumber_shape, spatial_shape, space_indices                              -> gen_<name>             (lists of integers)
  build_wavenumbers (ij / xy)                                                 -> gen_build_wavenumbers  (component c at stored index idx, Z)
  build_scaled_wavenumbers, build_derivative_operator                         -> gen_...                (K; (re, im) for the operator)
  low_pass_filter_mask (axis-separate / radial), oddball_filter_mask          -> gen_...                (bool at stored index idx)
  _build_scaling_array (symbolic denominators), build_scaling_array (3 modes) -> gen_...                (K at stored index idx)
  get_modes_slices                                                            -> gen_modes_slices_*     (the three slices as (start, stop) with
                                                                                 None = Python's open end, the shape of the block list)
  make_grid (exponax/_utils.py; full / zero_centered / indexing symbolic)     -> gen_make_grid          (coordinate c at grid index idx, K)
  wrap_bc (exponax/_utils.py)                                                 -> compared with its expected text; gen_wrap_bc_pad_before / _after

A small symbolic interpreter: every function body is EXECUTED on symbolic values; calls of other translated functions are executed the
same way (inlined), so a change in a callee changes every generated caller.  Values and their meaning for ONE array element:

  Int(sort, term)      Python int (sort 'Z' or 'nat': num_spatial_dims is a nat)           Rat(term)   Python float, a K term
  Bool(term)           Python bool known when the array is built (parity, indexing)         Str(s) / SymIndexing  the `indexing` / `mode` strings
  Ax(ty, term)         1-D array, `term` has the free variable j (the stored index along that axis); ty in Z / K / bool
  AxList(ty, term)     Python list of num_spatial_dims such arrays, free variables a (position in the list) and j
  Mesh(ty, term)       array of shape (D, ...): free variables c (component) and idx (stored multi-index, list Z)
  Grid(ty, term)       array of shape (...) or (1, ...): free variable idx
  Tup(term)            tuple of ints (list Z)

NumPy contracts used (the same as in the header of Layout/Freq.v; they are the trusted part of this translator):
  jnp.round(jnp.fft.fftfreq(N, 1 / N))[j] = Freq.fftfreq N j,  jnp.round(jnp.fft.rfftfreq(N, 1 / N))[j] = Freq.rfftfreq N j = j;
  jnp.stack(jnp.meshgrid(*l, indexing=I))[c][idx] = l[c][ idx[Freq.mesh_axis (I == 'xy') D c] ];
  [x] * m + [y] is the list with x at positions < m and y at position m;  l[::-1][a] = l[len - 1 - a];
  jnp.linalg.norm(v, axis=0) <= c for an integer vector v and an integer c  <=>  0 <= c and sum v_i^2 <= c^2;
  Python // and % on ints with a positive divisor are Z.div and Z.modulo; -n // 2 parses as (-n) // 2;
  jnp.linspace(0, b, n, endpoint=True | False)[j] = j * b / (n - 1 | n).
Anything not listed raises TranslationError (= the tie is broken, Gen/SpectralGen.v is replaced by a stub)."""
import ast
import os

from .pyexpr import TranslationError, strip_doc, write_if_changed

REPO = os.environ.get("VERIF_REPO", "/repo")
OUT = os.path.join(os.path.dirname(os.path.dirname(os.path.dirname(os.path.abspath(__file__)))), "coq", "theories", "Gen", "SpectralGen.v")


class Int:
    def __init__(self, sort, term):
        self.sort, self.term = sort, term

    def z(self):
        return self.term if self.sort == "Z" else f"(Z.of_nat {self.term})"


class Rat:
    def __init__(self, term):
        self.term = term


class Bool:
    def __init__(self, term):
        self.term = term


class Str:
    def __init__(self, s):
        self.s = s


class SymIndexing:
    pass


class Ax:
    def __init__(self, ty, term):
        self.ty, self.term = ty, term


class AxList:
    def __init__(self, ty, term):
        self.ty, self.term = ty, term


class Mesh:
    def __init__(self, ty, term):
        self.ty, self.term = ty, term


class Grid:
    def __init__(self, ty, term):
        self.ty, self.term = ty, term


class Tup:
    def __init__(self, term):
        self.term = term


class Slice:
    def __init__(self, lo, hi):
        self.lo, self.hi = lo, hi          # each None or an Int


class Pi:
    pass


class Imag:
    """the literal 1j (sign = 1) or -1j (sign = -1)"""
    def __init__(self, sign=1):
        self.sign = sign


class Cplx:
    def __init__(self, kind, re, im):
        self.kind, self.re, self.im = kind, re, im


class Return(Exception):
    def __init__(self, v):
        self.v = v


def paren(t):
    return t if t.startswith("(") or " " not in t else f"({t})"


def toK(v):
    """scalar value -> K term"""
    if isinstance(v, Int):
        return f"(fz {paren(v.z())})"
    if isinstance(v, Rat):
        return v.term
    raise TranslationError("not a real scalar: " + type(v).__name__)


ARRAYS = (Ax, AxList, Mesh, Grid)


def lift(v, ty):
    """term of an array element / scalar in element type ty"""
    if isinstance(v, ARRAYS):
        if v.ty == ty:
            return v.term
        if v.ty == "Z" and ty == "K":
            return f"(fz {paren(v.term)})"
        raise TranslationError(f"element type {v.ty} used as {ty}")
    if ty == "K":
        return toK(v)
    if ty == "Z" and isinstance(v, Int):
        return v.z()
    if ty == "bool" and isinstance(v, Bool):
        return v.term
    raise TranslationError(f"{type(v).__name__} used as array element of type {ty}")


def same_container(vals):
    """the common array class of the operands of an elementwise operation (scalars broadcast)"""
    cls = {type(v) for v in vals if isinstance(v, ARRAYS)}
    if len(cls) > 1:
        raise TranslationError("elementwise operation between " + " and ".join(sorted(c.__name__ for c in cls)))
    return cls.pop() if cls else None


class Interp:
    def __init__(self, tree):
        self.funcs = {n.name: n for n in tree.body if isinstance(n, ast.FunctionDef)}
        self.fresh = 0

    # ---- statements -------------------------------------------------------------------------------------------
    def call(self, name, args, kwargs):
        fn = self.funcs.get(name)
        if fn is None:
            raise TranslationError("call of an untranslated function " + name)
        a = fn.args
        if a.vararg or a.kwarg or a.posonlyargs:
            raise TranslationError(name + ": unsupported signature")
        env = {}
        if len(args) > len(a.args):
            raise TranslationError(name + ": too many positional arguments")
        for p, v in zip(a.args, args):
            env[p.arg] = v
        pos_defaults = dict(zip([p.arg for p in a.args][len(a.args) - len(a.defaults):], a.defaults))
        for p in a.args[len(args):]:
            if p.arg in kwargs:
                env[p.arg] = kwargs.pop(p.arg)
            elif p.arg in pos_defaults:
                env[p.arg] = self.const(pos_defaults[p.arg])
            else:
                raise TranslationError(f"{name}: missing argument {p.arg}")
        for p, d in zip(a.kwonlyargs, a.kw_defaults):
            if p.arg in kwargs:
                env[p.arg] = kwargs.pop(p.arg)
            elif d is not None:
                env[p.arg] = self.const(d)
            else:
                raise TranslationError(f"{name}: missing keyword argument {p.arg}")
        if kwargs:
            raise TranslationError(f"{name}: unexpected keyword arguments {sorted(kwargs)}")
        try:
            self.block(strip_doc(fn.body), env)
        except Return as r:
            return r.v
        raise TranslationError(name + ": no return value")

    def const(self, node):
        if isinstance(node, ast.Constant):
            v = node.value
            if isinstance(v, bool):
                return Bool("true" if v else "false")
            if isinstance(v, int):
                return Int("Z", str(v) if v >= 0 else f"({v})")
            if isinstance(v, str):
                return Str(v)
            if isinstance(v, complex) and v == 1j:
                return Imag()
            if isinstance(v, float) and v == int(v):
                return Rat(f"(fz {int(v)})")
        raise TranslationError("constant " + ast.unparse(node))

    def block(self, body, env):
        for i, st in enumerate(body):
            if isinstance(st, ast.Assign) and len(st.targets) == 1 and isinstance(st.targets[0], ast.Name):
                env[st.targets[0].id] = self.ev(st.value, env)
            elif isinstance(st, ast.AugAssign) and isinstance(st.target, ast.Name) and isinstance(st.op, ast.Add) \
                    and isinstance(env.get(st.target.id), list):
                env[st.target.id] = self.add_lists(env[st.target.id], self.ev(st.value, env))
            elif isinstance(st, ast.AugAssign) and isinstance(st.target, ast.Name) and st.target.id in env:      # x op= e  is  x = x op e
                env[st.target.id] = self.binop(st.op, env[st.target.id], self.ev(st.value, env), st)
            elif isinstance(st, ast.Return):
                raise Return(self.ev(st.value, env))
            elif isinstance(st, ast.Raise):
                raise TranslationError("reached a raise statement: " + ast.unparse(st)[:60])
            elif isinstance(st, ast.If):
                self.if_stmt(st, body[i + 1:], env)
                return
            elif isinstance(st, ast.For):
                self.for_stmt(st, env)
            else:
                raise TranslationError("statement " + ast.unparse(st)[:80])

    def if_stmt(self, st, rest, env):
        """both branches are executed (each followed by the rest of the block); a statically known test selects one"""
        t = self.ev(st.test, env)
        if not isinstance(t, Bool):
            raise TranslationError("if-test is not a bool known at construction time: " + ast.unparse(st.test))
        if t.term in ("true", "false"):
            self.block((st.body if t.term == "true" else st.orelse) + rest, env)
            return
        outs = []
        for br in (st.body, st.orelse):
            e = dict(env)
            try:
                self.block(br + rest, e)
                outs.append(("env", e))
            except Return as r:
                outs.append(("ret", r.v))
        if outs[0][0] == "ret" and outs[1][0] == "ret":
            raise Return(self.merge(t.term, outs[0][1], outs[1][1]))
        raise TranslationError("if statement whose branches do not both return: " + ast.unparse(st.test))

    def merge(self, c, a, b):
        if type(a) is not type(b):
            raise TranslationError(f"branches of different kinds: {type(a).__name__} / {type(b).__name__}")
        if isinstance(a, ARRAYS):
            if a.ty != b.ty:
                raise TranslationError("branches of different element types")
            return type(a)(a.ty, f"(if {c} then {a.term} else {b.term})")
        if isinstance(a, Bool):
            return Bool(f"(if {c} then {a.term} else {b.term})")
        if isinstance(a, Slice):
            def m(x, y):
                if x is None and y is None:
                    return None
                if x is None or y is None:
                    raise TranslationError("slice bounds None / not None in two branches")
                return Int("Z", f"(if {c} then {x.z()} else {y.z()})")
            return Slice(m(a.lo, b.lo), m(a.hi, b.hi))
        raise TranslationError("merge of " + type(a).__name__)

    def for_stmt(self, st, env):
        """for g in <Mesh>: acc = <expr in acc and g>   ->  fold_left over the components"""
        it = self.ev(st.iter, env)
        if not (isinstance(it, Mesh) and isinstance(st.target, ast.Name) and not st.orelse and len(st.body) == 1
                and isinstance(st.body[0], ast.Assign) and len(st.body[0].targets) == 1 and isinstance(st.body[0].targets[0], ast.Name)):
            raise TranslationError("for loop " + ast.unparse(st)[:80])
        acc = st.body[0].targets[0].id
        if acc not in env:
            raise TranslationError("loop accumulator not initialised: " + acc)
        init = env[acc]
        e = dict(env)
        e[st.target.id] = Grid(it.ty, it.term)            # component c of the mesh: an array over idx (c stays free)
        if isinstance(init, Bool):
            e[acc] = Grid("bool", "acc")
            ty = "bool"
        elif isinstance(init, Grid):
            e[acc] = Grid(init.ty, "acc")
            ty = init.ty
        else:
            raise TranslationError("loop accumulator kind " + type(init).__name__)
        out = self.ev(st.body[0].value, e)
        if not (isinstance(out, Grid) and out.ty == ty):
            raise TranslationError("loop body changes the kind of the accumulator")
        cty = {"bool": "bool", "Z": "Z", "K": "K"}[ty]
        env[acc] = Grid(ty, f"(fold_left (fun (acc : {cty}) (c : nat) => {out.term}) (seq 0 D) {lift(init, ty)})")

    # ---- expressions ------------------------------------------------------------------------------------------
    def add_lists(self, a, b):
        if isinstance(a, list) and isinstance(b, list):
            return a + b
        raise TranslationError("+= on non-lists")

    def ev(self, e, env):
        if isinstance(e, ast.Constant):
            if e.value is None:
                return None
            return self.const(e)
        if isinstance(e, ast.Name):
            if e.id in env:
                return env[e.id]
            raise TranslationError("unknown name " + e.id)
        if isinstance(e, ast.Attribute) and ast.unparse(e) == "jnp.pi":
            return Pi()
        if isinstance(e, ast.Attribute) and ast.unparse(e) == "jnp.newaxis":
            return "newaxis"
        if isinstance(e, ast.Tuple):
            return self.tuple_expr(e, env)
        if isinstance(e, ast.List):
            return [self.ev(x, env) for x in e.elts]
        if isinstance(e, ast.UnaryOp) and isinstance(e.op, ast.USub):
            v = self.ev(e.operand, env)
            if isinstance(v, Int):
                return Int("Z", f"(- {v.z()})")
            if isinstance(v, Imag):
                return Imag(-v.sign)
            if isinstance(v, ARRAYS) and v.ty == "K":
                return type(v)("K", f"(oopp {v.term})")
            raise TranslationError("unary minus on " + type(v).__name__)
        if isinstance(e, ast.BoolOp) and isinstance(e.op, ast.And):
            vs = [self.ev(x, env) for x in e.values]
            if all(isinstance(v, Bool) for v in vs):
                return Bool("(" + " && ".join(v.term for v in vs) + ")")
            raise TranslationError("`and` on non-bools")
        if isinstance(e, ast.Compare) and len(e.ops) == 1:
            return self.compare(e.ops[0], self.ev(e.left, env), self.ev(e.comparators[0], env), e)
        if isinstance(e, ast.BinOp):
            return self.binop(e.op, self.ev(e.left, env), self.ev(e.right, env), e)
        if isinstance(e, ast.Subscript):
            return self.subscript(e, env)
        if isinstance(e, ast.Call):
            return self.call_expr(e, env)
        if isinstance(e, ast.ListComp):
            return self.listcomp(e, env)
        if isinstance(e, ast.Starred):
            raise TranslationError("starred expression outside the known positions")
        raise TranslationError("expression " + ast.unparse(e)[:80])

    def tuple_expr(self, e, env):
        # (n,)  and  (1, *wavenumber_shape(...)) are the only tuples
        if len(e.elts) == 1:
            v = self.ev(e.elts[0], env)
            if isinstance(v, Int):
                return Tup(f"[{v.z()}]")
        if len(e.elts) == 2 and isinstance(e.elts[1], ast.Starred):
            h, t = self.ev(e.elts[0], env), self.ev(e.elts[1].value, env)
            if isinstance(h, Int) and isinstance(t, Tup):
                return Tup(f"({h.z()} :: {t.term})")
        raise TranslationError("tuple " + ast.unparse(e))

    def compare(self, op, a, b, node):
        if isinstance(op, ast.Eq) and isinstance(a, SymIndexing) and isinstance(b, Str):
            if b.s == "xy":
                return Bool("xy")
            if b.s == "ij":
                return Bool("(negb xy)")
        if isinstance(op, ast.Eq) and isinstance(a, Str) and isinstance(b, Str):
            return Bool("true" if a.s == b.s else "false")
        if isinstance(a, Int) and isinstance(b, Int):
            if a.sort == "nat" and b.sort == "Z" and isinstance(op, ast.Eq) and b.term.isdigit():
                return Bool(f"({a.term} =? {b.term})%nat")
            o = {ast.Eq: "=?", ast.LtE: "<=?", ast.Lt: "<?"}.get(type(op))
            if o:
                return Bool(f"({a.z()} {o} {b.z()})")
        cls = same_container([a, b])
        if cls is not None and isinstance(op, (ast.Eq, ast.LtE)):
            if (isinstance(a, ARRAYS) and a.ty != "Z") or (isinstance(b, ARRAYS) and b.ty != "Z") or isinstance(a, Rat) or isinstance(b, Rat):
                raise TranslationError("comparison of non-integer arrays: " + ast.unparse(node))
            o = "=?" if isinstance(op, ast.Eq) else "<=?"
            return cls("bool", f"({lift(a, 'Z')} {o} {lift(b, 'Z')})")
        if isinstance(a, tuple) and a[0] == "norm" and isinstance(op, ast.LtE) and isinstance(b, Int):
            return Grid("bool", f"(norm_le {a[1]} {b.z()})")
        raise TranslationError("comparison " + ast.unparse(node))

    def binop(self, op, a, b, node):
        # Python lists / tuples
        if isinstance(op, ast.Mult) and isinstance(a, list) and len(a) == 1 and isinstance(b, Int) and b.sort == "nat" and isinstance(a[0], Ax):
            return ("rep", a[0], b.term)
        if isinstance(op, ast.Add) and isinstance(a, tuple) and a[0] == "rep" and isinstance(b, list) and len(b) == 1 and isinstance(b[0], Ax):
            x, y = a[1], b[0]
            if x.ty != y.ty:
                raise TranslationError("list of arrays of different element types")
            if a[2] != "(D - 1)%nat":
                raise TranslationError("list of per-axis arrays whose length is not num_spatial_dims: " + ast.unparse(node))
            return AxList(x.ty, f"(if (a <? {a[2]})%nat then {x.term} else {y.term})")
        if isinstance(op, ast.Mult) and isinstance(a, Tup) and isinstance(b, Int) and b.sort == "nat" and a.term.startswith("[") and "::" not in a.term:
            return Tup(f"(repeat {a.term[1:-1]} {b.term})")
        if isinstance(op, ast.Add) and isinstance(a, Tup) and isinstance(b, Tup):
            return Tup(f"({a.term} ++ {b.term})")
        # ints
        if isinstance(a, Int) and isinstance(b, Int):
            if a.sort == "nat" and b.sort == "Z" and b.term.isdigit() and isinstance(op, (ast.Sub, ast.Add)):
                return Int("nat", f"({a.term} {'-' if isinstance(op, ast.Sub) else '+'} {b.term})%nat")
            o = {ast.Add: "+", ast.Sub: "-", ast.Mult: "*", ast.FloorDiv: "/", ast.Mod: "mod"}.get(type(op))
            if o in ("/", "mod") and not (b.sort == "Z" and b.term.isdigit() and int(b.term) > 0):
                raise TranslationError("// or % by a non-literal divisor")
            if o:
                return Int("Z", f"({a.z()} {o} {b.z()})")
            if isinstance(op, ast.Div):
                return Rat(f"(odiv {toK(a)} {toK(b)})")
        # 2 * pi / L
        if isinstance(op, ast.Mult) and isinstance(a, Int) and isinstance(b, Pi):
            return Rat(f"(omul {toK(a)} pi)")
        if isinstance(op, ast.Mult) and isinstance(a, Imag) and isinstance(b, (Mesh, Grid)) and b.ty in ("K", "Z"):
            im = lift(b, "K")
            return Cplx(type(b), "(fz 0)", im if a.sign == 1 else f"(oopp {im})")
        if isinstance(op, ast.Mult) and isinstance(a, Cplx) and (isinstance(b, (Int, Rat)) or (isinstance(b, a.kind) and b.ty in ("K", "Z"))):
            x = lift(b, "K")
            return Cplx(a.kind, f"(omul {a.re} {x})", f"(omul {a.im} {x})")
        if isinstance(a, (Int, Rat)) and isinstance(b, (Int, Rat)):
            o = {ast.Add: "oadd", ast.Sub: "osub", ast.Mult: "omul", ast.Div: "odiv"}.get(type(op))
            if o:
                return Rat(f"({o} {toK(a)} {toK(b)})")
        # elementwise
        cls = same_container([a, b])
        if cls is not None:
            if isinstance(op, ast.BitAnd):
                return cls("bool", f"({lift(a, 'bool')} && {lift(b, 'bool')})")
            o = {ast.Add: "oadd", ast.Sub: "osub", ast.Mult: "omul", ast.Div: "odiv"}.get(type(op))
            if o and not isinstance(a, Bool) and not isinstance(b, Bool):
                return cls("K", f"({o} {lift(a, 'K')} {lift(b, 'K')})")
        raise TranslationError("operation " + ast.unparse(node)[:80])

    def subscript(self, e, env):
        v = self.ev(e.value, env)
        s = e.slice
        if isinstance(v, AxList) and isinstance(s, ast.Slice) and s.lower is None and s.upper is None and ast.unparse(s.step) == "-1":
            return AxList(v.ty, f"(let a := (D - 1 - a)%nat in {v.term})")
        if isinstance(v, Grid) and ast.unparse(s) in ("(jnp.newaxis, ...)", "(None, ...)"):
            return v                                           # (...) -> (1, ...): the same element
        if isinstance(s, ast.Constant) and isinstance(s.value, int) and not isinstance(s.value, bool) and s.value >= 0:
            if isinstance(v, Mesh):                            # component of a (D, ...) array: c := literal
                return Grid(v.ty, f"(let c := {s.value}%nat in {v.term})")
            if isinstance(v, Cplx) and v.kind is Mesh:
                return Cplx(Grid, f"(let c := {s.value}%nat in {v.re})", f"(let c := {s.value}%nat in {v.im})")
        raise TranslationError("subscript " + ast.unparse(e))

    def kw(self, e, env, allowed):
        out = {}
        for k in e.keywords:
            if k.arg not in allowed:
                raise TranslationError(f"keyword {k.arg} in " + ast.unparse(e)[:60])
            out[k.arg] = self.ev(k.value, env)
        return out

    def call_expr(self, e, env):
        fn = ast.unparse(e.func)
        if fn in self.funcs:
            return self.call(fn, [self.ev(a, env) for a in e.args], {k.arg: self.ev(k.value, env) for k in e.keywords})
        if fn == "jnp.round" and len(e.args) == 1 and not e.keywords and isinstance(e.args[0], ast.Call):
            inner = e.args[0]
            f2 = ast.unparse(inner.func)
            if f2 in ("jnp.fft.fftfreq", "jnp.fft.rfftfreq") and len(inner.args) == 2 and not inner.keywords:
                n = self.ev(inner.args[0], env)
                d = inner.args[1]
                if isinstance(n, Int) and n.sort == "Z" and isinstance(d, ast.BinOp) and isinstance(d.op, ast.Div) \
                        and ast.unparse(d.left) == "1" and ast.unparse(d.right) == ast.unparse(inner.args[0]):
                    return Ax("Z", f"({f2.split('.')[-1]} {n.term} j)")
            raise TranslationError("frequency list " + ast.unparse(e))
        if fn == "jnp.linspace" and len(e.args) == 3:
            a, b, n = (self.ev(x, env) for x in e.args)
            k = {kk.arg: ast.unparse(kk.value) for kk in e.keywords}
            if isinstance(a, Int) and a.term == "0" and isinstance(b, Rat) and isinstance(n, Int) and k in ({"endpoint": "True"}, {"endpoint": "False"}):
                den = f"({n.z()} - 1)" if k["endpoint"] == "True" else n.z()
                return Ax("K", f"(odiv (omul (fz j) {b.term}) (fz {den}))")
            raise TranslationError("jnp.linspace " + ast.unparse(e))
        if fn == "jnp.where" and len(e.args) == 3 and not e.keywords:
            c, a, b = (self.ev(x, env) for x in e.args)
            if isinstance(a, Cplx) and isinstance(c, a.kind) and c.ty == "bool" and isinstance(b, Rat) and b.term == "(fz 0)":
                return Cplx(a.kind, f"(if {c.term} then {a.re} else (fz 0))", f"(if {c.term} then {a.im} else (fz 0))")
            cls = same_container([c, a, b])
            if cls is None or not (isinstance(c, cls) and c.ty == "bool"):
                raise TranslationError("jnp.where condition " + ast.unparse(e.args[0]))
            ty = "Z" if all((isinstance(v, Int) or (isinstance(v, ARRAYS) and v.ty == "Z")) for v in (a, b)) else "K"
            return cls(ty, f"(if {c.term} then {lift(a, ty)} else {lift(b, ty)})")
        if fn == "jnp.imag" and len(e.args) == 1 and not e.keywords:
            v = self.ev(e.args[0], env)
            if isinstance(v, Cplx):
                return v.kind("K", v.im)
            raise TranslationError("jnp.imag of " + type(v).__name__)
        if fn == "jnp.sign" and len(e.args) == 1 and not e.keywords:
            v = self.ev(e.args[0], env)
            if isinstance(v, ARRAYS) and v.ty == "Z":
                return type(v)("Z", f"(Z.sgn {v.term})")
            raise TranslationError("jnp.sign of " + type(v).__name__)
        if fn == "jnp.zeros_like" and len(e.args) == 1 and not e.keywords:
            v = self.ev(e.args[0], env)
            if isinstance(v, Cplx):
                return Cplx(v.kind, "(fz 0)", "(fz 0)")
            raise TranslationError("jnp.zeros_like of " + type(v).__name__)
        if fn == "jnp.concatenate" and len(e.args) == 1 and isinstance(e.args[0], ast.List):
            k = self.kw(e, env, {"axis"})
            items = [self.ev(x, env) for x in e.args[0].elts]
            if isinstance(k.get("axis"), Int) and k["axis"].term == "0" and items and all(isinstance(i, Cplx) and i.kind is Grid for i in items):
                return ("channels", items)
            raise TranslationError("jnp.concatenate " + ast.unparse(e))
        if fn == "jnp.abs" and len(e.args) == 1 and not e.keywords:
            v = self.ev(e.args[0], env)
            if isinstance(v, ARRAYS) and v.ty == "Z":
                return type(v)("Z", f"(Z.abs {v.term})")
            raise TranslationError("jnp.abs of " + type(v).__name__)
        if fn == "jnp.meshgrid" and len(e.args) == 1 and isinstance(e.args[0], ast.Starred):
            lst = self.ev(e.args[0].value, env)
            k = self.kw(e, env, {"indexing"})
            if isinstance(lst, tuple) and lst[0] == "rep" and lst[2] == "D":
                lst = AxList(lst[1].ty, lst[1].term)                 # the same 1-D array on every one of the D positions
            if not isinstance(lst, AxList) or "indexing" not in k:
                raise TranslationError("meshgrid arguments " + ast.unparse(e))
            ix = k["indexing"]
            xy = "xy" if isinstance(ix, SymIndexing) else {"ij": "false", "xy": "true"}.get(getattr(ix, "s", None))
            if xy is None:
                raise TranslationError("meshgrid indexing " + ast.unparse(e))
            return ("meshlist", Mesh(lst.ty, f"(let a := c in let j := nth (mesh_axis {xy} D c) idx 0 in {lst.term})"))
        if fn == "jnp.stack" and len(e.args) == 1 and not e.keywords:
            v = self.ev(e.args[0], env)
            if isinstance(v, tuple) and v[0] == "meshlist":
                return v[1]
            raise TranslationError("jnp.stack of " + ast.unparse(e.args[0]))
        if fn == "jnp.prod" and len(e.args) == 1:
            v = self.ev(e.args[0], env)
            k = self.kw(e, env, {"axis", "keepdims"})
            if isinstance(v, Mesh) and v.ty == "K" and isinstance(k.get("axis"), Int) and k["axis"].term == "0":
                return Grid("K", f"(fold_right omul (fz 1) (map (fun c : nat => {v.term}) (seq 0 D)))")
            raise TranslationError("jnp.prod " + ast.unparse(e))
        if fn == "jnp.linalg.norm" and len(e.args) == 1:
            v = self.ev(e.args[0], env)
            k = self.kw(e, env, {"axis"})
            if isinstance(v, Mesh) and v.ty == "Z" and isinstance(k.get("axis"), Int) and k["axis"].term == "0":
                return ("norm", f"(map (fun c : nat => {v.term}) (seq 0 D))")
            raise TranslationError("jnp.linalg.norm " + ast.unparse(e))
        if fn == "jnp.ones" and len(e.args) == 1:
            shp = self.ev(e.args[0], env)
            k = {kk.arg: ast.unparse(kk.value) for kk in e.keywords}
            if isinstance(shp, Tup) and k == {"dtype": "bool"} and shp.term.startswith("(1 :: "):
                return Grid("bool", "true")
            raise TranslationError("jnp.ones " + ast.unparse(e))
        if fn == "tuple" and len(e.args) == 1 and isinstance(e.args[0], ast.Call) and ast.unparse(e.args[0].func) == "range" \
                and len(e.args[0].args) == 2:
            lo, hi = (self.ev(a, env) for a in e.args[0].args)
            if isinstance(lo, Int) and isinstance(hi, Int):
                return Tup(f"(zrange {lo.z()} {hi.z()})")
        if fn == "slice" and len(e.args) == 2 and not e.keywords:
            lo, hi = (self.ev(a, env) for a in e.args)
            if all(x is None or isinstance(x, Int) for x in (lo, hi)):
                return Slice(lo, hi)
        if fn == "slice" and len(e.args) == 1 and not e.keywords and self.ev(e.args[0], env) is None:
            return Slice(None, None)
        raise TranslationError("call " + ast.unparse(e)[:80])

    def listcomp(self, e, env):
        raise TranslationError("list comprehension " + ast.unparse(e)[:80])


# ---- the block structure of get_modes_slices (a combinatorial Python expression: compared as text, its parts translated) -------------
MODES_SLICES_TAIL = [
    "slices_ = [[slice(None, nyquist_mode + 1)]]",
    "slices_ += [[left_slice, right_slice] for _ in range(num_spatial_dims - 1)]",
    "all_modes_slices = [[slice(None)] + list(reversed(p)) for p in product(*slices_)]",
    "all_modes_slices = tuple([tuple(block_slices) for block_slices in all_modes_slices])",
    "return all_modes_slices",
]


def sl(s):
    def b(x):
        return "None" if x is None else f"(Some {x.z()})"
    return f"({b(s.lo)}, {b(s.hi)})"


def modes_slices(ip):
    """left / right / last slices by executing the head of the function; the tail (product over the axes, rightmost axis first in the
    product and therefore last after reversal, channel slice in front) is compared with the known text"""
    fn = ip.funcs.get("get_modes_slices")
    if fn is None:
        raise TranslationError("get_modes_slices not found")
    body = strip_doc(fn.body)
    if [a.arg for a in fn.args.args] != ["num_spatial_dims", "num_points"]:
        raise TranslationError("get_modes_slices signature")
    tail = [ast.unparse(s) for s in body[-len(MODES_SLICES_TAIL):]]
    if tail != [ast.unparse(ast.parse(t).body[0]) for t in MODES_SLICES_TAIL]:
        raise TranslationError("get_modes_slices: block structure changed: " + repr(tail)[:200])
    head = body[:-len(MODES_SLICES_TAIL)]
    env = {"num_spatial_dims": Int("nat", "D"), "num_points": Int("Z", "N")}

    def block_with_probe(stmts, env):
        for i, st in enumerate(stmts):
            if isinstance(st, ast.If):
                t = ip.ev(st.test, env)
                if not isinstance(t, Bool):
                    raise TranslationError("get_modes_slices test")
                res = []
                for br in (st.body, st.orelse):
                    e2 = dict(env)
                    res.append(block_with_probe(br + stmts[i + 1:], e2))
                return [ip.merge(t.term, x, y) for x, y in zip(*res)]
            if isinstance(st, ast.Assign) and len(st.targets) == 1 and isinstance(st.targets[0], ast.Name):
                env[st.targets[0].id] = ip.ev(st.value, env)
            else:
                raise TranslationError("get_modes_slices statement " + ast.unparse(st)[:60])
        last = Slice(None, Int("Z", f"({env['nyquist_mode'].z()} + 1)"))
        for k in ("left_slice", "right_slice"):
            if not isinstance(env.get(k), Slice):
                raise TranslationError("get_modes_slices: " + k)
        return [env["left_slice"], env["right_slice"], last]
    left, right, last = block_with_probe(head, env)
    return (f"Definition gen_modes_slice_left (N : Z) : option Z * option Z := {sl(left)}.\n"
            f"Definition gen_modes_slice_right (N : Z) : option Z * option Z := {sl(right)}.\n"
            f"Definition gen_modes_slice_last (N : Z) : option Z * option Z := {sl(last)}.\n"
            "(* block structure (compared as text): one block per element of product([last], [left, right] x (D - 1)), each reversed,\n"
            "   so that the last array axis takes `last` and every leading axis takes left or right; the channel axis is taken whole *)\n"
            "Definition gen_modes_slices_blocks (D : nat) : nat := Nat.pow 2 (D - 1).")


def injections(ip):
    """the forcing arrays of VorticityConvection2dKolmogorov / ProjectedConvection3dKolmogorov (exponax/nonlin_fun): the constructor is
    executed after its super().__init__ call (compared with its expected text) with derivative_operator = build_derivative_operator(D, L, N)
    (what BaseStepper hands to _build_nonlinear_fun, checked by etdrk.py / buildnl.py), D = 2 resp. 3"""
    res = []
    for fname, cname, D, sup in (
            ("_vorticity_convection.py", "VorticityConvection2dKolmogorov", 2,
             "super().__init__(num_spatial_dims, num_points, convection_scale=convection_scale, derivative_operator=derivative_operator, dealiasing_fraction=dealiasing_fraction)"),
            ("_projected_convection.py", "ProjectedConvection3dKolmogorov", 3,
             "super().__init__(num_spatial_dims, num_points, derivative_operator=derivative_operator, dealiasing_fraction=dealiasing_fraction)")):
        tree = ast.parse(open(os.path.join(REPO, "exponax", "nonlin_fun", fname)).read())
        cls = [n for n in tree.body if isinstance(n, ast.ClassDef) and n.name == cname]
        if len(cls) != 1:
            raise TranslationError("class " + cname)
        init = [m for m in cls[0].body if isinstance(m, ast.FunctionDef) and m.name == "__init__"]
        body = strip_doc(init[0].body)
        if ast.unparse(body[0]) != ast.unparse(ast.parse(sup).body[0]):
            raise TranslationError(cname + ": super().__init__ call " + ast.unparse(body[0])[:200])
        last = body[-1]
        if not (isinstance(last, ast.Assign) and ast.unparse(last.targets[0]) == "self.injection"):
            raise TranslationError(cname + ": last statement is not the injection")
        Dv, Nv = Int("nat", "D"), Int("Z", "N")            # D stays a name: bound to the literal in the emitted definition
        env = {"num_spatial_dims": Dv, "num_points": Nv, "injection_mode": Int("Z", "kinj"), "injection_scale": Rat("gamma"),
               "derivative_operator": ip.call("build_derivative_operator", [Dv, Rat("L"), Nv], {})}
        try:
            ip.block(list(body[1:-1]) + [ast.Return(value=last.value)], env)
            raise TranslationError(cname + ": no value")
        except Return as r:
            v = r.v
        # the generated terms mention D as a variable (seq 0 D, mesh_axis false D c): bind it
        if D == 2:
            if not (isinstance(v, Grid) and v.ty == "K"):
                raise TranslationError(cname + ": injection is not a real array of shape (...)")
            res.append("Definition gen_injection2d (L gamma : K) (N kinj : Z) (idx : list Z) : K :=\n  let D := 2%nat in\n  " + v.term + ".\n")
        else:
            if not (isinstance(v, tuple) and v[0] == "channels" and len(v[1]) == 3):
                raise TranslationError(cname + ": injection is not the concatenation of three channels")
            chans = v[1]
            res.append("Definition gen_injection3d (L gamma : K) (N kinj : Z) (channel : nat) (idx : list Z) : K * K :=\n  let D := 3%nat in\n"
                       "  match channel with\n"
                       + "".join(f"  | {i}%nat => ({c.re}, {c.im})\n" for i, c in enumerate(chans))
                       + "  | _ => (fz 0, fz 0)\n  end.\n")
    return "\n".join(res)


PRELUDE = """(* GENERATED by harness/translate/spectral.py from /repo/exponax/_spectral.py -- do not edit. *)
From Coq Require Import ZArith List Bool.
From EXV Require Import Base.Scalar Layout.Freq.
Import ListNotations.
Local Open Scope Z_scope.

(* contracts of the translator (see its header) *)
Definition norm_le (v : list Z) (c : Z) : bool := (0 <=? c) && (fold_right (fun x a => x * x + a) 0 v <=? c * c).
Definition zrange (lo hi : Z) : list Z := map (fun i => lo + Z.of_nat i) (seq 0 (Z.to_nat (hi - lo))).

Section Gen.
Variable K : Ops.
Variable pi : K.
"""


def generate():
    tree = ast.parse(open(os.path.join(REPO, "exponax", "_spectral.py")).read())
    ip = Interp(tree)
    D, N, xyv = Int("nat", "D"), Int("Z", "N"), SymIndexing()
    out = [PRELUDE]

    def emit(name, params, ty, v, want):
        if not isinstance(v, want):
            raise TranslationError(f"{name}: result is {type(v).__name__}, expected {want.__name__}")
        if isinstance(v, ARRAYS) and v.ty != ty.split()[0] and not (ty == "K" and v.ty == "K"):
            raise TranslationError(f"{name}: element type {v.ty}, expected {ty}")
        out.append(f"Definition gen_{name} {params} : {ty} :=\n  {v.term}.\n")

    emit("wavenumber_shape", "(D : nat) (N : Z)", "list Z", ip.call("wavenumber_shape", [D, N], {}), Tup)
    emit("spatial_shape", "(D : nat) (N : Z)", "list Z", ip.call("spatial_shape", [D, N], {}), Tup)
    emit("space_indices", "(D : nat)", "list Z", ip.call("space_indices", [D], {}), Tup)
    emit("build_wavenumbers", "(xy : bool) (D : nat) (N : Z) (c : nat) (idx : list Z)", "Z",
         ip.call("build_wavenumbers", [D, N], {"indexing": xyv}), Mesh)
    L = Rat("L")
    emit("build_scaled_wavenumbers", "(xy : bool) (D : nat) (L : K) (N : Z) (c : nat) (idx : list Z)", "K",
         ip.call("build_scaled_wavenumbers", [D, L, N], {"indexing": xyv}), Mesh)
    dop = ip.call("build_derivative_operator", [D, L, N], {"indexing": xyv})
    if not (isinstance(dop, Cplx) and dop.kind is Mesh):
        raise TranslationError("build_derivative_operator: not 1j * (real array of shape (D, ...))")
    out.append("Definition gen_build_derivative_operator (xy : bool) (D : nat) (L : K) (N : Z) (c : nat) (idx : list Z) : K * K :=\n"
               f"  ({dop.re}, {dop.im}).\n")
    cut = Int("Z", "cutoff")
    for nm, sep in (("axis", "true"), ("radial", "false")):
        emit(f"low_pass_filter_mask_{nm}", "(xy : bool) (D : nat) (N cutoff : Z) (idx : list Z)", "bool",
             ip.call("low_pass_filter_mask", [D, N], {"cutoff": cut, "axis_separate": Bool(sep), "indexing": xyv}), Grid)
    emit("oddball_filter_mask", "(D : nat) (N : Z) (idx : list Z)", "bool", ip.call("oddball_filter_mask", [D, N], {}), Grid)
    emit("build_scaling_array_raw", "(xy : bool) (D : nat) (N dr dother : Z) (idx : list Z)", "K",
         ip.call("_build_scaling_array", [D, N], {"right_most_scaling_denominator": Int("Z", "dr"),
                                                  "others_scaling_denominator": Int("Z", "dother"), "indexing": xyv}), Grid)
    for mode in ("norm_compensation", "reconstruction", "coef_extraction"):
        emit(f"build_scaling_array_{mode}", "(xy : bool) (D : nat) (N : Z) (idx : list Z)", "K",
             ip.call("build_scaling_array", [D, N], {"mode": Str(mode), "indexing": xyv}), Grid)
    # an unknown mode must be rejected
    try:
        ip.call("build_scaling_array", [D, N], {"mode": Str("no such mode"), "indexing": xyv})
        raise TranslationError("build_scaling_array accepts an unknown mode")
    except TranslationError as e:
        if "raise statement" not in str(e):
            raise
    out.append(modes_slices(ip))
    # make_grid (exponax/_utils.py): linspace(0, L, n, endpoint)[j] = j * L / (n - 1 | n)
    ipu = Interp(ast.parse(open(os.path.join(REPO, "exponax", "_utils.py")).read()))
    emit("make_grid", "(full zero_centered xy : bool) (D : nat) (L : K) (N : Z) (c : nat) (idx : list Z)", "K",
         ipu.call("make_grid", [D, L, N], {"full": Bool("full"), "zero_centered": Bool("zero_centered"), "indexing": xyv}), Mesh)
    # wrap_bc (exponax/_utils.py): compared with its expected text; the padding amounts are emitted
    wb = ipu.funcs.get("wrap_bc")
    if wb is None:
        raise TranslationError("wrap_bc not found")
    wbody = strip_doc(wb.body)
    wwant = ["_, *spatial_shape = u.shape", "num_spatial_dims = len(spatial_shape)", "padding_config = ((0, 0),) + ((0, 1),) * num_spatial_dims",
             "u_wrapped = jnp.pad(u, padding_config, mode='wrap')", "return u_wrapped"]
    if [ast.unparse(x) for x in wbody] != [ast.unparse(ast.parse(t).body[0]) for t in wwant]:
        raise TranslationError("wrap_bc: " + repr([ast.unparse(x) for x in wbody])[:300])
    out.append("(* wrap_bc: jnp.pad(mode='wrap') with no padding on the channel axis and (0, 1) on every spatial axis: entry N is entry 0 *)\n"
               "Definition gen_wrap_bc_pad_before : Z := 0.\nDefinition gen_wrap_bc_pad_after : Z := 1.\n")
    out.append("\nEnd Gen.\n")
    return "\n".join(out)


OUT_INJ = os.path.join(os.path.dirname(OUT), "InjectionGen.v")


def generate_injection():
    """Gen/InjectionGen.v (C12): kept apart from Gen/SpectralGen.v so that a change in the Kolmogorov constructors does not break the layout tie"""
    tree = ast.parse(open(os.path.join(REPO, "exponax", "_spectral.py")).read())
    head = PRELUDE.replace("from /repo/exponax/_spectral.py", "from /repo/exponax/nonlin_fun/_vorticity_convection.py, _projected_convection.py (callees of _spectral.py inlined)")
    head = head[:head.index("(* contracts of the translator")] + head[head.index("Section Gen."):]
    return head + "\n" + injections(Interp(tree)) + "\nEnd Gen.\n"


def run_injection():
    try:
        text = generate_injection()
    except Exception as e:
        msg = f"{type(e).__name__}: {e}".replace("(*", "( *").replace("*)", "* )")
        write_if_changed(OUT_INJ, "(* GENERATED by harness/translate/spectral.py -- TRANSLATION FAILED, no definitions.\n   " + msg + " *)\n")
        raise
    return write_if_changed(OUT_INJ, text)


def run():
    try:
        text = generate()
    except Exception as e:
        msg = f"{type(e).__name__}: {e}".replace("(*", "( *").replace("*)", "* )")
        write_if_changed(OUT, "(* GENERATED by harness/translate/spectral.py -- TRANSLATION FAILED, no definitions.\n   " + msg + " *)\n")
        raise
    return write_if_changed(OUT, text)


if __name__ == "__main__":
    print(generate())
    print(generate_injection())
