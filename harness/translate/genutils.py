"""Translator: exponax/stepper/generic/_utils.py (all conversion functions) -> coq/theories/Gen/GenericUtils.v.
Each Python function becomes one Gallina function over an Ops record K.  Supported bodies: a scalar expression,
a tuple comprehension (with or without enumerate), a list comprehension followed by `lst[0] = xs[0]`, and a
3-tuple calling other functions of the same file with keyword arguments."""
import ast
import os

from .pyexpr import Expr, TranslationError, find_func, strip_doc, write_if_changed

REPO = os.environ.get("VERIF_REPO", "/repo")
OUT = os.path.join(os.path.dirname(os.path.dirname(os.path.dirname(os.path.abspath(__file__)))), "coq", "theories", "Gen", "GenericUtils.v")
SCALARS = {"domain_extent": "L", "dt": "dt", "num_spatial_dims": "D", "num_points": "N", "maximum_absolute": "M"}


def comp(gen, env):
    """generator expression -> (is_indexed, Gallina fun text, source list name)"""
    if len(gen.generators) != 1 or gen.generators[0].ifs:
        raise TranslationError("comprehension shape")
    g = gen.generators[0]
    it, tgt = g.iter, g.target
    if isinstance(it, ast.Call) and ast.unparse(it.func) == "enumerate" and len(it.args) == 1 and isinstance(it.args[0], ast.Name):
        if not (isinstance(tgt, ast.Tuple) and len(tgt.elts) == 2):
            raise TranslationError("enumerate target")
        j, c = tgt.elts[0].id, tgt.elts[1].id
        e = dict(env); e[c] = c; e["int:" + j] = f"(Z.of_nat {j})"
        return f"(imap (fun ({j} : nat) ({c} : K) => {Expr(e).tr(gen.elt)}) {it.args[0].id})", it.args[0].id
    if isinstance(it, ast.Name) and isinstance(tgt, ast.Name):
        e = dict(env); e[tgt.id] = tgt.id
        return f"(map (fun ({tgt.id} : K) => {Expr(e).tr(gen.elt)}) {it.id})", it.id
    raise TranslationError("comprehension iterator " + ast.unparse(it))


def translate_fn(fn, known):
    args = [a.arg for a in fn.args.args]
    kw = [a.arg for a in fn.args.kwonlyargs]
    if len(args) != 1 or any(k not in SCALARS for k in kw):
        raise TranslationError(f"{fn.name}: signature {args} {kw}")
    x = args[0]
    env = {k: SCALARS[k] for k in kw}
    body = strip_doc(fn.body)
    params = " ".join(f"({SCALARS[k]} : K)" for k in kw)
    # scalar: name = expr; return name
    if len(body) == 2 and isinstance(body[0], ast.Assign) and isinstance(body[1], ast.Return) \
            and ast.unparse(body[0].targets[0]) == ast.unparse(body[1].value):
        v = body[0].value
        if isinstance(v, ast.Call) and ast.unparse(v.func) == "tuple" and len(v.args) == 1 and isinstance(v.args[0], ast.GeneratorExp):
            t, src = comp(v.args[0], env)
            if src != x:
                raise TranslationError(fn.name + ": comprehension over " + src)
            return f"Definition {fn.name} {params} ({x} : list K) : list K :=\n  {t}.", "list"
        if isinstance(v, ast.Tuple):
            elts = []
            for i, e in enumerate(v.elts):
                if isinstance(e, ast.Subscript) and ast.unparse(e) == f"{x}[{i}]":
                    elts.append(f"(nth {i} {x} 0)")
                elif isinstance(e, ast.Call) and ast.unparse(e.func) in known and len(e.args) == 1 and ast.unparse(e.args[0]) == f"{x}[{i}]":
                    callee = ast.unparse(e.func)
                    kws = {k.arg: ast.unparse(k.value) for k in e.keywords}
                    if any(k != v2 for k, v2 in kws.items()) or list(kws) != known[callee]:
                        raise TranslationError(f"{fn.name}: keyword pass-through {kws}")
                    elts.append(f"({callee} {' '.join(SCALARS[k] for k in known[callee])} (nth {i} {x} 0))")
                else:
                    raise TranslationError(f"{fn.name}: tuple element {ast.unparse(e)}")
            return f"Definition {fn.name} {params} ({x} : list K) : list K :=\n  [{'; '.join(elts)}].", "list"
        e = dict(env); e[x] = x
        return f"Definition {fn.name} {params} ({x} : K) : K :=\n  {Expr(e).tr(v)}.", "scalar"
    # list comprehension, overwrite entry 0, tuple, return
    if len(body) == 4 and isinstance(body[0], ast.Assign) and isinstance(body[1], ast.Assign) and isinstance(body[2], ast.Assign) and isinstance(body[3], ast.Return):
        nm = ast.unparse(body[0].targets[0])
        v = body[0].value
        if not (isinstance(v, ast.Call) and ast.unparse(v.func) == "list" and len(v.args) == 1 and isinstance(v.args[0], ast.GeneratorExp)):
            raise TranslationError(fn.name + ": expected list(<generator>)")
        t, src = comp(v.args[0], env)
        if src != x:
            raise TranslationError(fn.name + ": comprehension over " + src)
        if ast.unparse(body[1]) != f"{nm}[0] = {x}[0]" or ast.unparse(body[2]) != f"{nm} = tuple({nm})" or ast.unparse(body[3].value) != nm:
            raise TranslationError(fn.name + ": unexpected tail " + ast.unparse(body[1]))
        return f"Definition {fn.name} {params} ({x} : list K) : list K :=\n  set0 {t} {x}.", "list"
    raise TranslationError(fn.name + ": unsupported body")


def generate():
    tree = ast.parse(open(f"{REPO}/exponax/stepper/generic/_utils.py").read())
    parts = ["(* GENERATED by harness/translate/genutils.py from /repo/exponax/stepper/generic/_utils.py -- do not edit. *)",
             "From Coq Require Import ZArith QArith List Bool.", "From EXV Require Import Base.Scalar Spectral.Symbols.", "Import ListNotations.",
             "Local Open Scope fld_scope.", "", "Section GenUtils.", "  Variable K : Ops.",
             "  (* `lst[0] = xs[0]` (Python raises IndexError on an empty tuple; modelled as the empty list) *)",
             "  Definition set0 (l xs : list K) : list K := match l, xs with _ :: r, x :: _ => x :: r | _, _ => [] end.", ""]
    known = {}
    names = []
    for n in tree.body:
        if isinstance(n, ast.FunctionDef):
            text, kind = translate_fn(n, known)
            parts.append(text)
            known[n.name] = [a.arg for a in n.args.kwonlyargs]
            names.append((n.name, kind, known[n.name]))
        elif isinstance(n, (ast.Import, ast.ImportFrom)) or (isinstance(n, ast.Expr) and isinstance(n.value, ast.Constant)):
            continue
        else:
            raise TranslationError("top-level statement " + type(n).__name__)
    parts.append("End GenUtils.")
    parts.append("(* functions: " + ", ".join(f"{n}:{k}" for n, k, _ in names) + " *)")
    return "\n".join(parts) + "\n", names


def run():
    return write_if_changed(OUT, generate()[0])


if __name__ == "__main__":
    print(generate()[0])
