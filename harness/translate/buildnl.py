"""Translator: `_build_nonlinear_fun` of every stepper class -> coq/theories/Gen/BuildNL.v (C13, shared by C03 / C09).

Each method returns ONE constructor call of a nonlinear-function class (whose `__call__` is translated by nonlin.py).  The translator
reads the `__init__` signature of that class and emits the configuration the stepper builds, as a constructor of the hand-written
inductive type Steppers/NLConfig.v `nlconfig` applied to the keyword arguments in ALPHABETICAL order (defaults of the nonlinear-function
class for keywords the stepper does not pass, constant expressions evaluated in double precision):

    Definition gen_nl_<Stepper> (<attributes of the stepper that occur, alphabetical>) : nlconfig K := NL_<NonlinClass> <args>.

The arguments of gen_nl_<Stepper> are constructor arguments of the stepper: every attribute used must be stored once, unchanged, under
the name of the constructor argument (checked).  Checked and not emitted: the two leading arguments are self.num_spatial_dims, self.num_points (positionally or by keyword), the class
is given `derivative_operator=derivative_operator` exactly when its signature has that parameter.  Supported argument expressions:
self.<attr>, literals, -x, x * y, [x, y, ...] / (x, y, ...).  The one Python-level branch (GeneralVorticityConvectionStepper:
`isinstance(self.injection_scale, (int, float)) and self.injection_scale == 0.0`) becomes a boolean argument
`injection_scale_is_python_zero`.  Closed over the package: every class under exponax/stepper that defines `_build_nonlinear_fun` (except the abstract
declaration in BaseStepper) is translated or the run fails.  Anything else raises TranslationError (the generated file becomes a stub)."""
import ast
import glob
import os

from .pyexpr import TranslationError, strip_doc, write_if_changed
from .wiring import const_float, knum

REPO = os.environ.get("VERIF_REPO", "/repo")
OUT = os.path.join(os.path.dirname(os.path.dirname(os.path.dirname(os.path.abspath(__file__)))), "coq", "theories", "Gen", "BuildNL.v")
SKIP = {"num_spatial_dims", "num_points", "derivative_operator"}
PY_ZERO = "isinstance(self.injection_scale, (int, float)) and self.injection_scale == 0.0"
COQTY = {"K": "K", "list": "list K", "bool": "bool", "Z": "Z"}


def all_classes(patterns):
    out = {}
    for pat in patterns:
        for f in sorted(glob.glob(os.path.join(REPO, pat))):
            for n in ast.parse(open(f).read()).body:
                if isinstance(n, ast.ClassDef):
                    out[n.name] = (os.path.relpath(f, REPO), n)
    return out


def method(cls, name):
    ms = [m for m in cls.body if isinstance(m, ast.FunctionDef) and m.name == name]
    return ms[0] if len(ms) == 1 else None


def kw_type(a):
    t = ast.unparse(a) if a is not None else ""
    if t.startswith("float"):
        return "K"
    if t == "bool":
        return "bool"
    if t == "int":
        return "Z"
    if t.startswith("tuple[float"):
        return "list"
    raise TranslationError("annotation of a nonlinear-function parameter: " + repr(t))


def nl_signature(cname, cls):
    init = method(cls, "__init__")
    if init is None:
        raise TranslationError(cname + ": __init__")
    a = init.args
    if [x.arg for x in a.args] != ["self", "num_spatial_dims", "num_points"] or a.vararg or a.kwarg or a.defaults:
        raise TranslationError(cname + ": positional signature")
    kws = {}
    for p, d in zip(a.kwonlyargs, a.kw_defaults):
        kws[p.arg] = (None if p.arg == "derivative_operator" else kw_type(p.annotation), d)
    return kws


class Val:
    def __init__(self, ty, term):
        self.ty, self.term = ty, term


def ev(e, attrs, want):
    """argument expression -> Val; attrs collects the stepper attributes with their types"""
    if isinstance(e, ast.Attribute) and isinstance(e.value, ast.Name) and e.value.id == "self":
        if e.attr in attrs and attrs[e.attr] != want:
            raise TranslationError(f"attribute {e.attr} used with types {attrs[e.attr]} and {want}")
        attrs[e.attr] = want
        return Val(want, e.attr)
    if isinstance(e, ast.Constant):
        if isinstance(e.value, bool):
            return Val("bool", "true" if e.value else "false")
        if isinstance(e.value, int) and want == "Z":
            return Val("Z", f"({e.value})%Z")
        if isinstance(e.value, (int, float)):
            return Val("K", knum(e.value))
    if isinstance(e, (ast.List, ast.Tuple)) and want == "list":
        return Val("list", "[" + "; ".join(ev(x, attrs, "K").term for x in e.elts) + "]")
    if isinstance(e, ast.UnaryOp) and isinstance(e.op, ast.USub) and want == "K":
        if isinstance(e.operand, ast.Constant):
            return Val("K", knum(-e.operand.value))
        return Val("K", f"(oopp {ev(e.operand, attrs, 'K').term})")
    if isinstance(e, ast.BinOp) and isinstance(e.op, ast.Mult) and want == "K":
        return Val("K", f"(omul {ev(e.left, attrs, 'K').term} {ev(e.right, attrs, 'K').term})")
    raise TranslationError("argument expression " + ast.unparse(e)[:80])


def default_val(d, ty):
    if isinstance(d, ast.Constant) and isinstance(d.value, bool) and ty == "bool":
        return "true" if d.value else "false"
    if isinstance(d, ast.Constant) and isinstance(d.value, int) and not isinstance(d.value, bool) and ty == "Z":
        return f"({d.value})%Z"
    if ty == "K":
        return knum(const_float(d))
    if ty == "list" and isinstance(d, ast.Tuple):
        return "[" + "; ".join(knum(const_float(x)) for x in d.elts) + "]"
    raise TranslationError("default " + ast.unparse(d))


def tr_call(sname, call, nls, attrs):
    if not isinstance(call, ast.Call) or not isinstance(call.func, ast.Name) or call.func.id not in nls:
        raise TranslationError(f"{sname}: not a call of a known nonlinear-function class: " + ast.unparse(call)[:80])
    nname = call.func.id
    sig = nl_signature(nname, nls[nname][1])
    kws = {}
    for k in call.keywords:
        if k.arg is None or k.arg in kws:
            raise TranslationError(f"{sname}: keyword in " + ast.unparse(call)[:80])
        kws[k.arg] = k.value
    lead = [ast.unparse(a) for a in call.args]
    for i, nm in enumerate(("num_spatial_dims", "num_points")):
        got = lead[i] if i < len(lead) else (ast.unparse(kws.pop(nm)) if nm in kws else None)
        if got != "self." + nm:
            raise TranslationError(f"{sname}: {nm} of {nname} is {got}")
    if len(lead) > 2:
        raise TranslationError(f"{sname}: more than two positional arguments")
    if "derivative_operator" in sig:
        if "derivative_operator" not in kws or ast.unparse(kws.pop("derivative_operator")) != "derivative_operator":
            raise TranslationError(f"{sname}: derivative_operator of {nname}")
    extra = sorted(set(kws) - set(sig))
    if extra:
        raise TranslationError(f"{sname}: unknown keywords {extra} for {nname}")
    args = []
    for k in sorted(set(sig) - SKIP):
        ty, d = sig[k]
        if k in kws:
            v = ev(kws[k], attrs, ty)
            if v.ty != ty:
                raise TranslationError(f"{sname}: keyword {k} has type {v.ty}, expected {ty}")
            args.append(v.term)
        elif d is not None:
            args.append(default_val(d, ty))
        else:
            raise TranslationError(f"{sname}: required keyword {k} of {nname} is not passed")
    return f"(NL_{nname} {' '.join(args)})" if args else f"(NL_{nname} K)"


def generate():
    steppers = all_classes(["exponax/stepper/_*.py", "exponax/stepper/generic/_*.py", "exponax/stepper/reaction/_*.py", "exponax/_*.py"])
    nls = all_classes(["exponax/nonlin_fun/_*.py", "exponax/stepper/reaction/_*.py"])
    parts = ["(* GENERATED by harness/translate/buildnl.py from the `_build_nonlinear_fun` methods under /repo/exponax -- do not edit. *)",
             "From Coq Require Import ZArith QArith List Bool.", "From EXV Require Import Base.Scalar Steppers.NLConfig.",
             "Import ListNotations.", "", "Section BuildNL.", "  Variable K : Ops.", ""]
    done = []
    for sname, (f, cls) in steppers.items():
        m = method(cls, "_build_nonlinear_fun")
        if m is None or sname == "BaseStepper":
            continue
        if [a.arg for a in m.args.args] != ["self", "derivative_operator"]:
            raise TranslationError(sname + "._build_nonlinear_fun signature")
        body = strip_doc(m.body)
        attrs = {}
        if len(body) == 1 and isinstance(body[0], ast.Return):
            term = tr_call(sname, body[0].value, nls, attrs)
        elif len(body) == 1 and isinstance(body[0], ast.If) and ast.unparse(body[0].test) == PY_ZERO and len(body[0].body) == 1 \
                and len(body[0].orelse) == 1 and isinstance(body[0].body[0], ast.Return) and isinstance(body[0].orelse[0], ast.Return):
            a = tr_call(sname, body[0].body[0].value, nls, attrs)
            b = tr_call(sname, body[0].orelse[0].value, nls, attrs)
            attrs["injection_scale_is_python_zero"] = "bool"
            term = f"(if injection_scale_is_python_zero then {a} else {b})"
        else:
            raise TranslationError(sname + "._build_nonlinear_fun body: " + ast.unparse(m)[:200])
        # every attribute used must be the constructor argument of the same name, stored unchanged by this class's __init__
        init = method(cls, "__init__")
        if init is None:
            raise TranslationError(sname + ": __init__")
        cparams = {a.arg for a in init.args.args + init.args.kwonlyargs}
        for a in attrs:
            if a == "injection_scale_is_python_zero":
                continue
            st = [x for x in ast.walk(init) if isinstance(x, ast.Assign) and len(x.targets) == 1 and ast.unparse(x.targets[0]) == "self." + a]
            if len(st) != 1 or ast.unparse(st[0].value) != a or a not in cparams:
                raise TranslationError(f"{sname}: self.{a} is not the constructor argument `{a}` stored unchanged")
        binders = " ".join(f"({a} : {COQTY[t]})" for a, t in sorted(attrs.items()))
        parts.append(f"  (* {f}: {sname} *)\n  Definition gen_nl_{sname} {binders} : nlconfig K :=\n    {term}.")
        done.append(sname)
    if len(done) < 20:
        raise TranslationError("fewer stepper classes with _build_nonlinear_fun than expected: " + str(done))
    parts += ["", "End BuildNL.", "(* covered: " + ", ".join(done) + " *)"]
    return "\n".join(parts) + "\n"


def run():
    try:
        text = generate()
    except Exception as e:
        msg = f"{type(e).__name__}: {e}".replace("(*", "( *").replace("*)", "* )")
        write_if_changed(OUT, "(* GENERATED by harness/translate/buildnl.py -- TRANSLATION FAILED, no definitions.\n   " + msg + " *)\n")
        raise
    return write_if_changed(OUT, text)


if __name__ == "__main__":
    print(generate())
