"""Translator: the trajectory utilities and wrapper steppers -> coq/theories/Gen/UtilsGen.v (consumed by Tie/UtilsTie.v, C14 / C06).

  exponax/_utils.py             rollout, repeat (each for takes_aux = False / True, the other flags symbolic)   -> gen_rollout, gen_rollout_aux,
                                                                                                                  gen_repeat, gen_repeat_aux
                                stack_sub_trajectories (guards, window count, window at start index i)          -> gen_stack_sub_trajectories
  exponax/_repeated_stepper.py  RepeatedStepper.step, .step_fourier, the dt of __init__                         -> gen_repeated_*
  exponax/_forced_stepper.py    ForcedStepper.step, .step_fourier (the forced input, the call of the inner step) -> gen_forced_*

The function bodies are translated statement by statement into the option monad (a scan whose sequence has the wrong length is
rejected):

  def scan_fn(u, x): y = stepper_fn(u, x); return (y, y | None)         a Coq lambda (None -> tt; a parameter named _ has type unit)
  if <flag>: aux = jtu.tree_map(<REPEAT lambda>, aux)                     aux <- if flag then tree_repeat n aux else Some aux
  a, b = jax.lax.scan(scan_fn, u_0, None | aux, length=n)                 xs <- scan_none n | scan_xs n aux;  let '(a, b) := scan scan_fn u_0 xs
  if <flag>: t = jtu.tree_map(<PREPEND lambda>, u_0, trj); return t  else: return trj      if flag then Some (u_0 :: trj) else Some trj
  return <name>                                                           Some name
  if takes_aux: ... else: ...   at the top of rollout / repeat            two generated definitions

JAX contracts used (the same as in the header of Utils/Rollout.v; they are the trusted part of this translator): jax.lax.scan threads the carry
through xs in order and stacks the outputs (Rollout.scan), with xs = None it runs `length` times, it rejects xs whose leading length is not
`length`; tree_map of REPEAT = jnp.repeat(expand_dims(x, 0), n, 0) turns one value into the sequence of n copies; tree_map of PREPEND
= concatenate([expand_dims(init, 0), history], 0) is init :: history.  Anything else raises TranslationError (the generated file is
replaced by a stub, the tie is broken)."""
import ast
import os

from .pyexpr import TranslationError, find_class, find_func, strip_doc, write_if_changed

REPO = os.environ.get("VERIF_REPO", "/repo")
OUT = os.path.join(os.path.dirname(os.path.dirname(os.path.dirname(os.path.abspath(__file__)))), "coq", "theories", "Gen", "UtilsGen.v")

REPEAT = "lambda x: jnp.repeat(jnp.expand_dims(x, axis=0), n, axis=0)"
PREPEND = "lambda init, history: jnp.concatenate([jnp.expand_dims(init, axis=0), history], axis=0)"


def canon(text):
    return ast.unparse(ast.parse(text, mode="eval").body)


def parse(rel):
    return ast.parse(open(os.path.join(REPO, "exponax", rel)).read())


def tr_lambda_fn(fn, stepper_arity):
    """def scan_fn(u, x): y = stepper_fn(...); return (a, b)  ->  Coq lambda text"""
    params = [a.arg for a in fn.args.args]
    if len(params) != 2 or fn.args.kwonlyargs or fn.args.vararg or fn.args.kwarg or fn.args.defaults:
        raise TranslationError("scan function signature " + ast.unparse(fn.args))
    body = strip_doc(fn.body)
    if len(body) != 2 or not isinstance(body[0], ast.Assign) or not isinstance(body[1], ast.Return):
        raise TranslationError("scan function body " + ast.unparse(fn)[:120])
    tgt = body[0].targets[0]
    call = body[0].value
    if not (isinstance(tgt, ast.Name) and isinstance(call, ast.Call) and ast.unparse(call.func) == "stepper_fn" and not call.keywords
            and all(isinstance(a, ast.Name) for a in call.args)):
        raise TranslationError("scan function step " + ast.unparse(body[0]))
    args = [a.id for a in call.args]
    if len(args) != stepper_arity or any(a not in params or a == "_" for a in args) or len(set(args)) != len(args) or args[0] != params[0]:
        raise TranslationError("scan function: stepper arguments " + ast.unparse(call))
    ret = body[1].value
    if not (isinstance(ret, ast.Tuple) and len(ret.elts) == 2):
        raise TranslationError("scan function return " + ast.unparse(ret))

    def val(e):
        if isinstance(e, ast.Constant) and e.value is None:
            return "tt"
        if isinstance(e, ast.Name) and (e.id == tgt.id or e.id in params) and e.id != "_":
            return e.id
        raise TranslationError("scan function return value " + ast.unparse(e))
    p2 = "(_ : unit)" if params[1] == "_" else params[1]
    return f"(fun {params[0]} {p2} => let {tgt.id} := stepper_fn {' '.join(args)} in ({val(ret.elts[0])}, {val(ret.elts[1])}))"


def tr_inner(fn, scan_fns, flags, with_aux):
    """the returned closure: body in the option monad; result (param names, Coq text)"""
    params = [a.arg for a in fn.args.args]
    if params != (["u_0", "aux"] if with_aux else ["u_0"]) or fn.args.kwonlyargs or fn.args.vararg or fn.args.kwarg or fn.args.defaults:
        raise TranslationError("closure signature " + ast.unparse(fn.args))
    bound = set(params)

    def block(stmts):
        if not stmts:
            raise TranslationError("closure falls off its end")
        st, rest = stmts[0], stmts[1:]
        # if flag: aux = tree_map(REPEAT, aux)
        if isinstance(st, ast.If) and not st.orelse and isinstance(st.test, ast.Name) and st.test.id in flags and len(st.body) == 1 \
                and isinstance(st.body[0], ast.Assign):
            a = st.body[0]
            v = a.value
            if not (isinstance(a.targets[0], ast.Name) and isinstance(v, ast.Call) and ast.unparse(v.func) == "jtu.tree_map" and len(v.args) == 2
                    and not v.keywords and ast.unparse(v.args[0]) == canon(REPEAT) and isinstance(v.args[1], ast.Name)
                    and v.args[1].id == a.targets[0].id and a.targets[0].id in bound):
                raise TranslationError("conditional rebinding " + ast.unparse(st)[:160])
            nm = a.targets[0].id
            return f"obind (if {st.test.id} then tree_repeat n {nm} else Some {nm}) (fun {nm} =>\n    {block(rest)})"
        # a, b = jax.lax.scan(f, init, xs, length=n)
        if isinstance(st, ast.Assign) and isinstance(st.targets[0], ast.Tuple) and isinstance(st.value, ast.Call) \
                and ast.unparse(st.value.func) == "jax.lax.scan":
            c = st.value
            names = [ast.unparse(e) for e in st.targets[0].elts]
            if len(names) != 2 or len(c.args) != 3 or [(k.arg, ast.unparse(k.value)) for k in c.keywords] != [("length", "n")]:
                raise TranslationError("scan call " + ast.unparse(st))
            f, init, xs = c.args
            if not (isinstance(f, ast.Name) and f.id in scan_fns and isinstance(init, ast.Name) and init.id in bound):
                raise TranslationError("scan function / carry " + ast.unparse(st))
            if isinstance(xs, ast.Constant) and xs.value is None:
                src = "Some (scan_none n)"
            elif isinstance(xs, ast.Name) and xs.id in bound and with_aux:
                src = f"scan_xs n {xs.id}"
            else:
                raise TranslationError("scanned sequence " + ast.unparse(xs))
            for nm in names:
                if nm != "_":
                    bound.add(nm)
            return (f"obind ({src}) (fun xs =>\n    let '({names[0]}, {names[1]}) := scan {scan_fns[f.id]} {init.id} xs in\n    {block(rest)})")
        # if flag: t = tree_map(PREPEND, u_0, trj); return t  else: return trj
        if isinstance(st, ast.If) and isinstance(st.test, ast.Name) and st.test.id in flags and st.orelse and not rest:
            return f"if {st.test.id} then {block(st.body)} else {block(st.orelse)}"
        if isinstance(st, ast.Assign) and isinstance(st.targets[0], ast.Name) and isinstance(st.value, ast.Call) \
                and ast.unparse(st.value.func) == "jtu.tree_map":
            v = st.value
            if not (len(v.args) == 3 and not v.keywords and ast.unparse(v.args[0]) == canon(PREPEND)
                    and all(isinstance(a, ast.Name) and a.id in bound for a in v.args[1:])):
                raise TranslationError("tree_map " + ast.unparse(st)[:160])
            bound.add(st.targets[0].id)
            return f"let {st.targets[0].id} := {v.args[1].id} :: {v.args[2].id} in {block(rest)}"
        if isinstance(st, ast.Return) and isinstance(st.value, ast.Name) and st.value.id in bound and not rest:
            return f"Some {st.value.id}"
        raise TranslationError("closure statement " + ast.unparse(st)[:160])
    return block(strip_doc(fn.body))


def tr_utility(tree, name, flags, out_ty):
    fn = find_func(tree.body, name)
    pos = [a.arg for a in fn.args.args]
    kwo = [a.arg for a in fn.args.kwonlyargs]
    if pos != ["stepper_fn", "n"] or kwo != flags + ([] if "takes_aux" in flags else []):
        raise TranslationError(f"{name} signature: {pos} {kwo}")
    body = strip_doc(fn.body)
    if not (len(body) == 1 and isinstance(body[0], ast.If) and ast.unparse(body[0].test) == "takes_aux"):
        raise TranslationError(name + ": expected a single `if takes_aux:`")
    defs = []
    sym = [f for f in flags if f != "takes_aux"]
    for with_aux, br in ((True, body[0].body), (False, body[0].orelse)):
        if not (len(br) == 3 and isinstance(br[0], ast.FunctionDef) and isinstance(br[1], ast.FunctionDef) and isinstance(br[2], ast.Return)
                and isinstance(br[2].value, ast.Name) and br[2].value.id == br[1].name):
            raise TranslationError(f"{name}: branch structure (takes_aux={with_aux})")
        lam = tr_lambda_fn(br[0], 2 if with_aux else 1)
        used = [f for f in sym if any(isinstance(x, ast.Name) and x.id == f for x in ast.walk(br[1]))]
        text = tr_inner(br[1], {br[0].name: br[0].name}, set(used), with_aux)
        flagbinders = "".join(f" ({f} : bool)" for f in sym)
        if with_aux:
            defs.append(f"Definition gen_{name}_aux (A X : Type) (stepper_fn : A -> X -> A) (n : nat){flagbinders} (u_0 : A) (aux : auxarg X) : option ({out_ty}) :=\n"
                        f"  let {br[0].name} := {lam} in\n  {text}.")
        else:
            # flags that the closure without aux does not read are still parameters (they are accepted and ignored by the source)
            defs.append(f"Definition gen_{name} (A : Type) (stepper_fn : A -> A) (n : nat){flagbinders} (u_0 : A) : option ({out_ty}) :=\n"
                        f"  let {br[0].name} := {lam} in\n  {text}.")
    return "\n\n".join(defs)


def same(node, text):
    return ast.unparse(node) == ast.unparse(ast.parse(text).body[0])


def tr_repeated():
    cls = find_class(parse("_repeated_stepper.py"), "RepeatedStepper")
    init = strip_doc(find_func(cls.body, "__init__").body)
    dts = [s for s in init if isinstance(s, ast.Assign) and ast.unparse(s.targets[0]) == "self.dt"]
    if len(dts) != 1 or not same(dts[0], "self.dt = stepper.dt * num_sub_steps"):
        raise TranslationError("RepeatedStepper.__init__: dt")
    subs = [s for s in init if isinstance(s, ast.Assign) and ast.unparse(s.targets[0]) in ("self.stepper", "self.num_sub_steps")]
    if sorted(ast.unparse(s) for s in subs) != ["self.num_sub_steps = num_sub_steps", "self.stepper = stepper"]:
        raise TranslationError("RepeatedStepper.__init__: stored stepper / num_sub_steps")
    sf = strip_doc(find_func(cls.body, "step_fourier").body)
    if len(sf) != 1 or not same(sf[0], "return repeat(self.stepper.step_fourier, self.num_sub_steps)(u_hat)"):
        raise TranslationError("RepeatedStepper.step_fourier: " + ast.unparse(sf[0])[:120])
    st = strip_doc(find_func(cls.body, "step").body)
    want = ["u_hat = fft(u, num_spatial_dims=self.num_spatial_dims)",
            "u_hat_after_steps = self.step_fourier(u_hat)",
            "u_after_steps = ifft(u_hat_after_steps, num_spatial_dims=self.num_spatial_dims, num_points=self.num_points)",
            "return u_after_steps"]
    if len(st) != 4 or not all(same(a, b) for a, b in zip(st, want)):
        raise TranslationError("RepeatedStepper.step: " + repr([ast.unparse(s) for s in st])[:300])
    geo = [s for s in init if isinstance(s, ast.Assign) and ast.unparse(s.targets[0]) in ("self.num_spatial_dims", "self.num_points")]
    if sorted(ast.unparse(s) for s in geo) != ["self.num_points = stepper.num_points", "self.num_spatial_dims = stepper.num_spatial_dims"]:
        raise TranslationError("RepeatedStepper.__init__: grid attributes are not the inner stepper's")
    # the call uses repeat's defaults: it must select the closure without aux
    rep = find_func(parse("_utils.py").body, "repeat")
    dflt = {a.arg: d for a, d in zip(rep.args.kwonlyargs, rep.args.kw_defaults)}
    if not (isinstance(dflt.get("takes_aux"), ast.Constant) and dflt["takes_aux"].value is False
            and isinstance(dflt.get("constant_aux"), ast.Constant) and isinstance(dflt["constant_aux"].value, bool)):
        raise TranslationError("repeat: defaults of takes_aux / constant_aux")
    cdef = "true" if dflt["constant_aux"].value else "false"
    return ("Definition gen_repeated_dt (K : Ops) (dt : K) (num_sub_steps : Z) : K := omul dt (fz num_sub_steps).\n"
            "Definition gen_repeated_step_fourier (Sh : Type) (step_fourier : Sh -> Sh) (num_sub_steps : nat) (u_hat : Sh) : option Sh :=\n"
            f"  gen_repeat step_fourier num_sub_steps {cdef} u_hat.\n"
            "Definition gen_repeated_step (S Sh : Type) (fft : S -> Sh) (ifft : Sh -> S) (step_fourier : Sh -> Sh) (num_sub_steps : nat) (u : S) : option S :=\n"
            "  let u_hat := fft u in\n  obind (gen_repeated_step_fourier step_fourier num_sub_steps u_hat) (fun u_hat_after_steps =>\n"
            "  let u_after_steps := ifft u_hat_after_steps in Some u_after_steps).")


def tr_forced():
    cls = find_class(parse("_forced_stepper.py"), "ForcedStepper")
    init = strip_doc(find_func(cls.body, "__init__").body)
    if len(init) != 1 or not same(init[0], "self.stepper = stepper"):
        raise TranslationError("ForcedStepper.__init__")
    out = []
    for meth, u, f, inner in (("step", "u", "f", "step"), ("step_fourier", "u_hat", "f_hat", "step_fourier")):
        body = strip_doc(find_func(cls.body, meth).body)
        if len(body) != 2 or not isinstance(body[0], ast.Assign) or not isinstance(body[0].targets[0], ast.Name):
            raise TranslationError("ForcedStepper." + meth)
        nm = body[0].targets[0].id
        if not same(body[1], f"return self.stepper.{inner}({nm})"):
            raise TranslationError(f"ForcedStepper.{meth}: inner call " + ast.unparse(body[1]))
        from .pyexpr import Expr
        t = Expr({u: "u", f: "f", "self.stepper.dt": "dt"}).tr(body[0].value)
        out.append(f"Definition gen_forced_{meth}_input (K : Ops) (dt u f : K) : K := {t}.")
    call = strip_doc(find_func(cls.body, "__call__").body)
    if len(call) != 1 or not same(call[0], "return self.step(u, f)"):
        raise TranslationError("ForcedStepper.__call__")
    return "\n".join(out)


def tr_stack_sub(tree):
    """stack_sub_trajectories: the two rejection tests, the number of windows and the window taken at start index i are translated;
    the scan over jnp.arange(n_sub_trjs) stacking the sliced trees leafwise is the contract (output leaf = list of its windows)"""
    fn = find_func(tree.body, "stack_sub_trajectories")
    if [a.arg for a in fn.args.args] != ["trj", "sub_len"] or fn.args.kwonlyargs:
        raise TranslationError("stack_sub_trajectories signature")
    b = strip_doc(fn.body)
    if len(b) != 7:
        raise TranslationError(f"stack_sub_trajectories: {len(b)} statements, expected 7")
    if not same(b[0], "n_time_steps = [leaf.shape[0] for leaf in jtu.tree_leaves(trj)]"):
        raise TranslationError("stack_sub_trajectories: leading lengths " + ast.unparse(b[0]))
    g = b[1]
    if not (isinstance(g, ast.If) and len(g.body) == 1 and isinstance(g.body[0], ast.Raise) and len(g.orelse) == 1
            and same(g.orelse[0], "n_time_steps = n_time_steps[0]")):
        raise TranslationError("stack_sub_trajectories: equal-length guard")
    t = g.test
    if not (isinstance(t, ast.Compare) and ast.unparse(t.left) == "len(set(n_time_steps))" and len(t.ops) == 1
            and isinstance(t.comparators[0], ast.Constant) and isinstance(t.comparators[0].value, int)):
        raise TranslationError("stack_sub_trajectories: guard test " + ast.unparse(t))
    op = {ast.NotEq: "negb (Nat.eqb (distinct_count lens) %d)", ast.Eq: "Nat.eqb (distinct_count lens) %d"}.get(type(t.ops[0]))
    if op is None:
        raise TranslationError("stack_sub_trajectories: guard operator")
    rej1 = op % t.comparators[0].value
    g2 = b[2]
    if not (isinstance(g2, ast.If) and len(g2.body) == 1 and isinstance(g2.body[0], ast.Raise) and not g2.orelse and isinstance(g2.test, ast.Compare)
            and len(g2.test.ops) == 1):
        raise TranslationError("stack_sub_trajectories: length guard")
    names = {"sub_len": "sub_len", "n_time_steps": "T"}
    l, r = ast.unparse(g2.test.left), ast.unparse(g2.test.comparators[0])
    cmp = {ast.Gt: "Nat.ltb {r} {l}", ast.GtE: "Nat.leb {r} {l}", ast.Lt: "Nat.ltb {l} {r}", ast.LtE: "Nat.leb {l} {r}"}.get(type(g2.test.ops[0]))
    if cmp is None or l not in names or r not in names:
        raise TranslationError("stack_sub_trajectories: length test " + ast.unparse(g2.test))
    rej2 = cmp.format(l=names[l], r=names[r])

    def nat(e):
        if isinstance(e, ast.Name) and e.id in names:
            return names[e.id]
        if isinstance(e, ast.Constant) and isinstance(e.value, int) and e.value >= 0:
            return str(e.value)
        if isinstance(e, ast.BinOp) and isinstance(e.op, (ast.Add, ast.Sub)):
            return f"({nat(e.left)} {'+' if isinstance(e.op, ast.Add) else '-'} {nat(e.right)})"
        raise TranslationError("count expression " + ast.unparse(e))
    if not (isinstance(b[3], ast.Assign) and ast.unparse(b[3].targets[0]) == "n_sub_trjs"):
        raise TranslationError("stack_sub_trajectories: window count")
    # Python's ints are unbounded, the model's nat subtraction truncates: T - sub_len is only evaluated after the guard T >= sub_len
    count = nat(b[3].value)
    want = ["def scan_fn(_, i):\n    sliced = jtu.tree_map(lambda leaf: jax.lax.dynamic_slice_in_dim(leaf, start_index=i, slice_size=sub_len, axis=0), trj)\n    return (_, sliced)",
            "_, sub_trjs = jax.lax.scan(scan_fn, None, jnp.arange(n_sub_trjs))", "return sub_trjs"]
    if not all(same(x, t2) for x, t2 in zip(b[4:], want)):
        raise TranslationError("stack_sub_trajectories: scan " + repr([ast.unparse(x) for x in b[4:]])[:300])
    return ("Definition gen_stack_sub_trajectories (A : Type) (leaves : list (list A)) (sub_len : nat) : option (list (list (list A))) :=\n"
            "  let lens := map (@length A) leaves in\n"
            f"  if {rej1} then None else\n  let T := hd 0 lens in\n  if {rej2} then None else\n"
            f"  let n_sub_trjs := {count} in\n"
            "  Some (map (fun leaf => map (fun i => dynamic_slice leaf i sub_len) (seq 0 n_sub_trjs)) leaves).")


PRELUDE = """(* GENERATED by harness/translate/utilsfn.py from /repo/exponax/_utils.py, _repeated_stepper.py, _forced_stepper.py -- do not edit. *)
From Coq Require Import ZArith List Arith Bool.
From EXV Require Import Base.Scalar Utils.Rollout.
Import ListNotations.
Set Implicit Arguments.

(* contracts of the translator (see its header) *)
Definition obind {A B : Type} (o : option A) (f : A -> option B) : option B := match o with Some a => f a | None => None end.
Definition scan_none (n : nat) : list unit := repeat tt n.
Definition scan_xs {X : Type} (n : nat) (a : auxarg X) : option (list X) :=
  match a with AuxSeq xs => if Nat.eqb (length xs) n then Some xs else None | AuxConst _ => None end.
Definition tree_repeat {X : Type} (n : nat) (a : auxarg X) : option (auxarg X) :=
  match a with AuxConst x => Some (AuxSeq (repeat x n)) | AuxSeq _ => None end.
(* len(set(l)) for a list of ints *)
Definition distinct_count (l : list nat) : nat := length (nodup Nat.eq_dec l).
"""


def generate():
    tree = parse("_utils.py")
    parts = [PRELUDE,
             tr_utility(tree, "rollout", ["include_init", "takes_aux", "constant_aux"], "list A"), "",
             tr_utility(tree, "repeat", ["takes_aux", "constant_aux"], "A"), "",
             tr_stack_sub(tree), "",
             tr_repeated(), "", tr_forced(), ""]
    return "\n".join(parts)


def run():
    try:
        text = generate()
    except Exception as e:
        msg = f"{type(e).__name__}: {e}".replace("(*", "( *").replace("*)", "* )")
        write_if_changed(OUT, "(* GENERATED by harness/translate/utilsfn.py -- TRANSLATION FAILED, no definitions.\n   " + msg + " *)\n")
        raise
    return write_if_changed(OUT, text)


if __name__ == "__main__":
    print(generate())
