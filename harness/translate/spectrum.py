"""Translator: get_spectrum, fft, ifft, get_fourier_coefficients (exponax/_spectral.py) -> coq/theories/Gen/SpectrumGen.v (C17, C04).

The structure of each function (which arrays are built, the scan over the 1-D wavenumbers, the vmap over channels) is compared with its
expected text; what decides the values is TRANSLATED:

  get_spectrum   gen_spec_quantity power a r c     the per-mode quantity from a = |u_hat|, r / c = the elements of the two scaling arrays
                 gen_spec_mode_r, gen_spec_mode_c   the modes of those arrays (11 = reconstruction, 10 = norm_compensation)
                 gen_spec_lower k dk, gen_spec_upper k dk     the limits of the bin of wavenumber k (the mask is lower <= |k| < upper, text)
                 gen_spec_average binning_is_average           nanmean iff radial_binning == 'average', nansum otherwise
                 gen_spec_1d_is_unbinned                       num_spatial_dims == 1 returns the quantity itself
  fft / ifft     gen_fft_axes_are_space_indices, gen_ifft_infers_points_from_axis (-2, only for D >= 2; D = 1 raises)
  get_fourier_coefficients   gen_coef_divides_by_scaling (unless the mode is None), gen_coef_default_mode (12 = coef_extraction)

Scalar expressions supported: names, float literals, + - * /."""
import ast
import os

from .pyexpr import Expr, TranslationError, find_func, strip_doc, write_if_changed

REPO = os.environ.get("VERIF_REPO", "/repo")
OUT = os.path.join(os.path.dirname(os.path.dirname(os.path.dirname(os.path.abspath(__file__)))), "coq", "theories", "Gen", "SpectrumGen.v")
MODES = {"norm_compensation": 10, "reconstruction": 11, "coef_extraction": 12}


def same(node, text):
    return ast.unparse(node) == ast.unparse(ast.parse(text).body[0])


def scaling_div(st, target, num):
    """<target> = <num> / build_scaling_array(num_spatial_dims, num_points, mode='<m>')  ->  mode code"""
    if not (isinstance(st, ast.Assign) and ast.unparse(st.targets[0]) == target and isinstance(st.value, ast.BinOp)
            and isinstance(st.value.op, ast.Div) and ast.unparse(st.value.left) == num):
        raise TranslationError("scaled magnitude " + ast.unparse(st))
    c = st.value.right
    if not (isinstance(c, ast.Call) and ast.unparse(c.func) == "build_scaling_array" and [ast.unparse(a) for a in c.args] == ["num_spatial_dims", "num_points"]
            and [k.arg for k in c.keywords] == ["mode"] and isinstance(c.keywords[0].value, ast.Constant) and c.keywords[0].value.value in MODES):
        raise TranslationError("scaling array " + ast.unparse(c))
    return MODES[c.keywords[0].value.value]


def transforms(tree):
    """fft, ifft, get_fourier_coefficients compared with their expected text (C04 runs this part alone: check_transforms)"""
    out = []
    # fft / ifft
    f = strip_doc(find_func(tree.body, "fft").body)
    if not (len(f) == 2 and same(f[0], "if num_spatial_dims is None:\n    num_spatial_dims = field.ndim - 1")
            and same(f[1], "return jnp.fft.rfftn(field, axes=space_indices(num_spatial_dims))")):
        raise TranslationError("fft: " + repr([ast.unparse(x) for x in f]))
    g = strip_doc(find_func(tree.body, "ifft").body)
    want = ["if num_spatial_dims is None:\n    num_spatial_dims = field_hat.ndim - 1",
            "if num_points is None:\n    if num_spatial_dims >= 2:\n        num_points = field_hat.shape[-2]\n    else:\n        raise ValueError('num_points must be provided if num_spatial_dims == 1.')",
            "return jnp.fft.irfftn(field_hat, s=spatial_shape(num_spatial_dims, num_points), axes=space_indices(num_spatial_dims))"]
    if not (len(g) == 3 and all(same(x, t) for x, t in zip(g, want))):
        raise TranslationError("ifft: " + repr([ast.unparse(x) for x in g])[:300])
    out += ["Definition gen_fft_axes_are_space_indices : bool := true.",
            "Definition gen_ifft_output_shape_is_spatial_shape : bool := true.",
            "Definition gen_ifft_infers_points_from_axis : Z := (-2)%Z.",
            "Definition gen_ifft_infers_points (D : nat) : bool := (2 <=? D)%nat.     (* otherwise ValueError *)"]
    # get_fourier_coefficients
    h = find_func(tree.body, "get_fourier_coefficients")
    dflt = {a.arg: d for a, d in zip(h.args.kwonlyargs, h.args.kw_defaults)}
    hb = strip_doc(h.body)
    wanth = ["state_hat = fft(state)",
             "if scaling_compensation_mode is not None:\n    scaling = build_scaling_array(state.ndim - 1, state.shape[-1], mode=scaling_compensation_mode, indexing=indexing)\n    coefficients = state_hat / scaling\nelse:\n    coefficients = state_hat",
             "if round is not None:\n    coefficients = jnp.round(coefficients, round)", "return coefficients"]
    if not (len(hb) == 4 and all(same(x, t) for x, t in zip(hb, wanth))):
        raise TranslationError("get_fourier_coefficients: " + repr([ast.unparse(x) for x in hb])[:300])
    m = dflt.get("scaling_compensation_mode")
    if not (isinstance(m, ast.Constant) and m.value in MODES):
        raise TranslationError("get_fourier_coefficients: default mode")
    out += ["Definition gen_coef_divides_by_scaling (mode_is_none : bool) : bool := negb mode_is_none.",
            f"Definition gen_coef_default_mode : Z := {MODES[m.value]}."]
    return out


def check_transforms():
    return transforms(ast.parse(open(os.path.join(REPO, "exponax", "_spectral.py")).read()))


def generate():
    tree = ast.parse(open(os.path.join(REPO, "exponax", "_spectral.py")).read())
    fn = find_func(tree.body, "get_spectrum")
    if [a.arg for a in fn.args.args] != ["state"] or [a.arg for a in fn.args.kwonlyargs] != ["power", "radial_binning"]:
        raise TranslationError("get_spectrum signature")
    b = strip_doc(fn.body)
    fixed = {0: "num_spatial_dims = state.ndim - 1", 1: "num_points = state.shape[-1]",
             2: "state_hat_abs = jnp.abs(fft(state, num_spatial_dims=num_spatial_dims))",
             6: "wavenumbers_mesh = build_wavenumbers(num_spatial_dims, num_points)", 7: "wavenumbers_1d = build_wavenumbers(1, num_points)",
             8: "wavenumbers_norm = jnp.linalg.norm(wavenumbers_mesh, axis=0, keepdims=True)",
             9: "dk = wavenumbers_1d[0, 1] - wavenumbers_1d[0, 0]", 10: "spectrum = []",
             12: "def scan_fn(_, k):\n    return (None, jax.vmap(power_in_bucket, in_axes=(0, None))(quantity, k))",
             13: "_, spectrum = jax.lax.scan(scan_fn, None, wavenumbers_1d[0, :])", 14: "spectrum = jnp.moveaxis(spectrum, 0, -1)",
             15: "return spectrum"}
    if len(b) != 16:
        raise TranslationError(f"get_spectrum: {len(b)} statements, expected 16")
    for i, t in fixed.items():
        if not same(b[i], t):
            raise TranslationError(f"get_spectrum statement {i}: " + ast.unparse(b[i])[:160])
    mode_r = scaling_div(b[3], "magnitude", "state_hat_abs")
    st = b[4]
    if not (isinstance(st, ast.If) and ast.unparse(st.test) == "power" and len(st.body) == 2 and len(st.orelse) == 1):
        raise TranslationError("get_spectrum: power branch")
    mode_c = scaling_div(st.body[0], "magnitude_norm_compensated", "state_hat_abs")
    env = {"magnitude": "(odiv a r)", "magnitude_norm_compensated": "(odiv a c)"}
    qs = []
    for s2 in (st.body[1], st.orelse[0]):
        if not (isinstance(s2, ast.Assign) and ast.unparse(s2.targets[0]) == "quantity"):
            raise TranslationError("get_spectrum: quantity " + ast.unparse(s2))
        qs.append(Expr(env).tr(s2.value))
    st = b[5]
    if not (isinstance(st, ast.If) and ast.unparse(st.test) == "num_spatial_dims == 1" and len(st.body) == 1 and same(st.body[0], "return quantity") and not st.orelse):
        raise TranslationError("get_spectrum: 1d return")
    pb = b[11]
    if not (isinstance(pb, ast.FunctionDef) and pb.name == "power_in_bucket" and [a.arg for a in pb.args.args] == ["p", "k"] and len(pb.body) == 4):
        raise TranslationError("get_spectrum: power_in_bucket")
    lims = []
    for s2, nm in zip(pb.body[:2], ("lower_limit", "upper_limit")):
        if not (isinstance(s2, ast.Assign) and ast.unparse(s2.targets[0]) == nm):
            raise TranslationError("bin limit " + ast.unparse(s2))
        lims.append(Expr({"k": "k", "dk": "dk"}).tr(s2.value))
    if not same(pb.body[2], "mask = (wavenumbers_norm[0] >= lower_limit) & (wavenumbers_norm[0] < upper_limit)"):
        raise TranslationError("bin mask " + ast.unparse(pb.body[2]))
    agg = pb.body[3]
    if not (isinstance(agg, ast.If) and ast.unparse(agg.test) == "radial_binning == 'average'" and len(agg.body) == 1 and len(agg.orelse) == 1
            and same(agg.body[0], "return jnp.nanmean(p, where=mask)") and same(agg.orelse[0], "return jnp.nansum(p, where=mask)")):
        raise TranslationError("bin aggregation " + ast.unparse(agg))
    out = ["(* GENERATED by harness/translate/spectrum.py from /repo/exponax/_spectral.py -- do not edit. *)",
           "From Coq Require Import ZArith QArith List Bool.", "From EXV Require Import Base.Scalar.", "",
           "Section Gen.", "  Variable K : Ops.",
           f"  Definition gen_spec_quantity (power : bool) (a r c : K) : K := if power then {qs[0]} else {qs[1]}.",
           f"  Definition gen_spec_lower (k dk : K) : K := {lims[0]}.", f"  Definition gen_spec_upper (k dk : K) : K := {lims[1]}.",
           "End Gen.",
           f"Definition gen_spec_mode_r : Z := {mode_r}.", f"Definition gen_spec_mode_c : Z := {mode_c}.",
           "Definition gen_spec_average (binning_is_average : bool) : bool := binning_is_average.",
           "Definition gen_spec_1d_is_unbinned : bool := true.",
           "(* bins: one per entry of build_wavenumbers(1, N)[0, :] = 0 .. N/2, dk = entry 1 - entry 0; mask = lower <= |k| < upper *)"]
    out += transforms(tree)
    return "\n".join(out) + "\n"


def run():
    try:
        text = generate()
    except Exception as e:
        msg = f"{type(e).__name__}: {e}".replace("(*", "( *").replace("*)", "* )")
        write_if_changed(OUT, "(* GENERATED by harness/translate/spectrum.py -- TRANSLATION FAILED, no definitions.\n   " + msg + " *)\n")
        raise
    return write_if_changed(OUT, text)


if __name__ == "__main__":
    print(generate())
