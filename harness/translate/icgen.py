"""Translator for the formula-level parts of exponax/ic/*.py -> coq/theories/Gen/ICGen.v (consumed by Tie/ICTie.v, C18).

  _base_ic.normalize_ic, Discontinuities.__call__, SineWaves1d.__call__   -> the normalisation program (which flag guards which
        operation, in which order) over abstract reductions mean / std / max-abs
  ClampingICGenerator.__call__                                            -> the pointwise clamping formula
  ScaledIC.__call__, ScaledICGenerator.__call__                           -> the pointwise scaling formula
  RandomTruncatedFourierSeries.__call__                                   -> the value written into the DC coefficient, the
        index it is written to, the low-pass options, the normalisation flags handed to normalize_ic
  GaussianRandomField.__call__                                            -> the exponent of the amplitude, the mean-mode fix-up,
        the normalisation flags
  Discontinuity.__call__                                                  -> the slice of the grid that shapes the initial mask
  MultiChannelIC / RandomMultiChannelICGenerator                          -> the concatenation axis and key split
  BaseRandomICGenerator.__call__                                          -> gen_ic_fun(key)(make_grid(...))
Fail-closed: anything outside the expected statement shapes raises TranslationError (= tie broken)."""
import ast
import os

from .guards import G
from .pyexpr import Expr, TranslationError, find_class, find_func, strip_doc, write_if_changed

REPO = os.environ.get("VERIF_REPO", "/repo")
OUT = os.path.join(os.path.dirname(os.path.dirname(os.path.dirname(os.path.abspath(__file__)))), "coq", "theories", "Gen", "ICGen.v")

REDUCE = {"jnp.mean({v})": "fmean", "jnp.std({v})": "fstd", "jnp.max(jnp.abs({v}))": "fmaxabs"}
OPS = {ast.Sub: "osub", ast.Div: "odiv"}


def same(node, text):
    """structural equality of an AST statement / expression with source text (independent of the unparse style)"""
    ref = ast.parse(text).body[0]
    if isinstance(node, ast.expr):
        ref = ref.value
    return ast.dump(node) == ast.dump(ref)


def same_all(nodes, texts):
    return len(nodes) == len(texts) and all(same(n, t) for n, t in zip(nodes, texts))


def parse(rel):
    return ast.parse(open(f"{REPO}/exponax/ic/{rel}").read())


def norm_steps(stmts, var, flags):
    """[`if <flag>: var = var <op> <reduce>(var)`]* -> [(coq flag, op, reduction)]"""
    steps = []
    for st in stmts:
        if not (isinstance(st, ast.If) and not st.orelse and len(st.body) == 1 and isinstance(st.body[0], ast.Assign)):
            raise TranslationError("normalisation step " + ast.unparse(st)[:80])
        flag = ast.unparse(st.test)
        if flag not in flags:
            raise TranslationError("normalisation flag " + flag)
        a = st.body[0]
        if not (len(a.targets) == 1 and ast.unparse(a.targets[0]) == var and isinstance(a.value, ast.BinOp)
                and type(a.value.op) in OPS and ast.unparse(a.value.left) == var):
            raise TranslationError("normalisation assignment " + ast.unparse(a))
        red = {k.format(v=var): r for k, r in REDUCE.items()}.get(ast.unparse(a.value.right))
        if red is None:
            raise TranslationError("reduction " + ast.unparse(a.value.right))
        steps.append((flags[flag], OPS[type(a.value.op)], red))
    return steps


def emit_norm(name, flag_params, steps):
    lines = [f"Definition {name} (K : Ops) (fmean fstd fmaxabs : list K -> K) ({' '.join(flag_params)} : bool) (ic : list K) : list K :="]
    for flag, op, red in steps:
        lines.append(f"  let ic := if {flag} then map (fun x => {op} x ({red} ic)) ic else ic in")
    lines.append("  ic.")
    return "\n".join(lines)


def tr_normalize_ic():
    fn = find_func(parse("_base_ic.py").body, "normalize_ic")
    if [a.arg for a in fn.args.args] != ["ic"] or [a.arg for a in fn.args.kwonlyargs] != ["zero_mean", "std_one", "max_one"]:
        raise TranslationError("normalize_ic signature")
    body = strip_doc(fn.body)
    if not (isinstance(body[-1], ast.Return) and ast.unparse(body[-1].value) == "ic"):
        raise TranslationError("normalize_ic return")
    steps = norm_steps(body[:-1], "ic", {"zero_mean": "zero_mean", "std_one": "std_one", "max_one": "max_one"})
    return emit_norm("gen_normalize_ic", ["zero_mean", "std_one", "max_one"], steps)


def tr_disc_normalize():
    fn = find_func(find_class(parse("_discontinuities.py"), "Discontinuities").body, "__call__")
    body = strip_doc(fn.body)
    if not same(body[0], "ic = sum(disc(x) for disc in self.discontinuity_list)") or not same(body[-1], "return ic"):
        raise TranslationError("Discontinuities.__call__: " + ast.unparse(body[0]))
    steps = norm_steps(body[1:-1], "ic", {"self.zero_mean": "zero_mean", "self.std_one": "std_one", "self.max_one": "max_one"})
    return emit_norm("gen_disc_normalize", ["zero_mean", "std_one", "max_one"], steps)


def tr_sine_normalize():
    fn = find_func(find_class(parse("_sine_waves_1d.py"), "SineWaves1d").body, "__call__")
    body = strip_doc(fn.body)
    # guard; zeros; for loop adding a*sin(k*(2 pi/L)*x+p); += offset; normalisation; return
    if not (isinstance(body[0], ast.If) and isinstance(body[0].body[0], ast.Raise)):
        raise TranslationError("SineWaves1d.__call__ guard")
    want = ["result = jnp.zeros_like(x)",
            "for a, k, p in zip(self.amplitudes, self.wavenumbers, self.phases, strict=False):\n"
            "    result += a * jnp.sin(k * (2 * jnp.pi / self.domain_extent) * x + p)",
            "result += self.offset"]
    if not same_all(body[1:4], want):
        raise TranslationError("SineWaves1d.__call__ body: " + repr([ast.unparse(s) for s in body[1:4]]))
    if not same(body[-1], "return result"):
        raise TranslationError("SineWaves1d.__call__ return")
    steps = norm_steps(body[4:-1], "result", {"self.std_one": "std_one", "self.max_one": "max_one"})
    return emit_norm("gen_sine_normalize", ["std_one", "max_one"], steps)


def tr_clamp():
    fn = find_func(find_class(parse("_clamping.py"), "ClampingICGenerator").body, "__call__")
    body = strip_doc(fn.body)
    if not same(body[0], "ic = self.ic_gen(num_points=num_points, key=key)"):
        raise TranslationError("ClampingICGenerator.__call__: " + ast.unparse(body[0]))
    env = {"ic": "x", "self.limits[0]": "lo", "self.limits[1]": "hi"}

    def fmin(a):
        if a != "x":
            raise TranslationError("jnp.min of " + a)
        return "mn"

    def fmax(a):
        if a != env.get("ic_above_zero"):
            raise TranslationError("jnp.max of " + a)
        return "mx_above"
    ex = Expr(env, {"jnp.min": fmin, "jnp.max": fmax})
    for st in body[1:-1]:
        if not (isinstance(st, ast.Assign) and len(st.targets) == 1 and isinstance(st.targets[0], ast.Name)):
            raise TranslationError("ClampingICGenerator.__call__ statement " + ast.unparse(st))
        env[st.targets[0].id] = ex.tr(st.value)
    if not isinstance(body[-1], ast.Return):
        raise TranslationError("ClampingICGenerator.__call__ return")
    # the shift must be by the minimum of the field itself
    if env.get("ic_above_zero") != "(osub x mn)":
        raise TranslationError("ClampingICGenerator: shifted field " + str(env.get("ic_above_zero")))
    return f"Definition gen_clamp_point (K : Ops) (x mn mx_above lo hi : K) : K :=\n  {ex.tr(body[-1].value)}."


def tr_scaled():
    tree = parse("_scaled.py")
    f1 = strip_doc(find_func(find_class(tree, "ScaledIC").body, "__call__").body)
    if len(f1) != 1 or not isinstance(f1[0], ast.Return):
        raise TranslationError("ScaledIC.__call__")
    t1 = Expr({"x": "x", "self.scale": "s"}, {"self.ic": lambda a: "u"}).tr(f1[0].value)
    f2 = strip_doc(find_func(find_class(tree, "ScaledICGenerator").body, "__call__").body)
    if len(f2) != 2 or not same(f2[0], "ic = self.ic_gen(num_points=num_points, key=key)") or not isinstance(f2[1], ast.Return):
        raise TranslationError("ScaledICGenerator.__call__")
    t2 = Expr({"ic": "u", "self.scale": "s"}).tr(f2[1].value)
    f3 = strip_doc(find_func(find_class(tree, "ScaledICGenerator").body, "gen_ic_fun").body)
    if len(f3) != 1 or not same(f3[0], "return ScaledIC(self.ic_gen.gen_ic_fun(key=key), scale=self.scale)"):
        raise TranslationError("ScaledICGenerator.gen_ic_fun")
    return (f"Definition gen_scaled_fun_point (K : Ops) (u s : K) : K := {t1}.\n"
            f"Definition gen_scaled_call_point (K : Ops) (u s : K) : K := {t2}.")


def norm_call_flags(call, g):
    """normalize_ic(ic, zero_mean=.., std_one=.., max_one=..) -> coq triple"""
    if not (ast.unparse(call.func) == "normalize_ic" and len(call.args) == 1 and ast.unparse(call.args[0]) == "ic"
            and sorted(k.arg for k in call.keywords) == ["max_one", "std_one", "zero_mean"]):
        raise TranslationError("normalize_ic call " + ast.unparse(call))
    kw = {k.arg: g.b(k.value) for k in call.keywords}
    return f"({kw['zero_mean']}, {kw['std_one']}, {kw['max_one']})"


def tr_tfs():
    fn = find_func(find_class(parse("_truncated_fourier_series.py"), "RandomTruncatedFourierSeries").body, "__call__")
    body = strip_doc(fn.body)
    src = [ast.unparse(s) for s in body]
    want_prefix = ["noise_key, offset_key = jr.split(key)",
                   "noise = self.white_noise(num_points, key=noise_key)",
                   "noise_hat = fft(noise, num_spatial_dims=self.num_spatial_dims)",
                   "low_pass_filter = low_pass_filter_mask(self.num_spatial_dims, num_points, cutoff=self.cutoff, axis_separate=True)",
                   "noise_hat = noise_hat * low_pass_filter",
                   "offset = jr.uniform(offset_key, shape=(1,), minval=self.offset_range[0], maxval=self.offset_range[1])[0]",
                   "fourier_noise_shape = noise_hat.shape"]
    if not same_all(body[:7], want_prefix):
        bad = [a for a, n, b in zip(src, body, want_prefix) if not same(n, b)][:1]
        raise TranslationError("RandomTruncatedFourierSeries.__call__ prefix: " + repr(bad))
    st = body[7]
    # noise_hat = noise_hat.flatten().at[0].set(<value>).reshape(fourier_noise_shape)
    if not (isinstance(st, ast.Assign) and ast.unparse(st.targets[0]) == "noise_hat" and isinstance(st.value, ast.Call)
            and ast.unparse(st.value.func).endswith(".reshape") and ast.unparse(st.value.args[0]) == "fourier_noise_shape"):
        raise TranslationError("DC overwrite statement " + ast.unparse(st))
    setcall = st.value.func.value
    if not (isinstance(setcall, ast.Call) and isinstance(setcall.func, ast.Attribute) and setcall.func.attr == "set"
            and ast.unparse(setcall.func.value) == "noise_hat.flatten().at[0]" and len(setcall.args) == 1):
        raise TranslationError("DC overwrite target " + ast.unparse(st))
    dc = Expr({"offset": "offset", "noise.size": "size"}).tr(setcall.args[0])
    if len(body) != 12 or not same(body[8], "ic = ifft(noise_hat, num_spatial_dims=self.num_spatial_dims, num_points=num_points)"):
        raise TranslationError("inverse transform " + ast.unparse(body[8]))
    g = G({"self.offset_range": ("offset_zero", "float0"), "self.std_one": ("std_one", "bool"), "self.max_one": ("max_one", "bool")}, {})
    out = []
    if not (isinstance(body[9], ast.Assign) and ast.unparse(body[9].targets[0]) == "zero_mean"):
        raise TranslationError("zero_mean flag " + src[9])
    g.walk([body[9]], [], out)        # zero_mean = self.offset_range == (0.0, 0.0)
    if not (isinstance(body[10], ast.Assign) and ast.unparse(body[10].targets[0]) == "ic" and isinstance(body[10].value, ast.Call)):
        raise TranslationError("normalisation " + ast.unparse(body[10]))
    flags = norm_call_flags(body[10].value, g)
    if not same(body[11], "return ic"):
        raise TranslationError("RandomTruncatedFourierSeries.__call__ tail")
    return (f"Definition gen_tfs_dc (K : Ops) (offset size : K) : K := {dc}.\n"
            "Definition gen_tfs_dc_flat_index : nat := 0.\n"
            "Definition gen_tfs_axis_separate : bool := true.\n"
            f"Definition gen_tfs_norm_flags (offset_zero std_one max_one : bool) : bool * bool * bool := {flags}.")


def tr_grf():
    fn = find_func(find_class(parse("_gaussian_random_field.py"), "GaussianRandomField").body, "__call__")
    body = strip_doc(fn.body)
    src = [ast.unparse(s) for s in body]
    want = {0: "noise = self.white_noise(num_points, key=key)",
            1: "noise_hat = fft(noise, num_spatial_dims=self.num_spatial_dims)",
            2: "wavenumber_grid = build_scaled_wavenumbers(self.num_spatial_dims, self.domain_extent, num_points)",
            3: "wavenumber_norm_grid = jnp.linalg.norm(wavenumber_grid, axis=0, keepdims=True)",
            5: "amplitude = amplitude.flatten().at[0].set(1.0).reshape(wavenumber_norm_grid.shape)",
            6: "noise_hat = noise_hat * amplitude",
            7: "ic = ifft(noise_hat, num_spatial_dims=self.num_spatial_dims, num_points=num_points)",
            9: "return ic"}
    if len(src) != 10:
        raise TranslationError(f"GaussianRandomField.__call__: {len(src)} statements")
    for i, w in want.items():
        if not same(body[i], w):
            raise TranslationError(f"GaussianRandomField.__call__ statement {i}: {src[i]}")
    st = body[4]   # amplitude = jnp.power(wavenumber_norm_grid, <exponent>)
    if not (isinstance(st, ast.Assign) and ast.unparse(st.targets[0]) == "amplitude" and isinstance(st.value, ast.Call)
            and ast.unparse(st.value.func) == "jnp.power" and len(st.value.args) == 2 and ast.unparse(st.value.args[0]) == "wavenumber_norm_grid"):
        raise TranslationError("amplitude statement " + src[4])
    expo = Expr({"self.powerlaw_exponent": "alpha"}).tr(st.value.args[1])
    g = G({"self.zero_mean": ("zero_mean", "bool"), "self.std_one": ("std_one", "bool"), "self.max_one": ("max_one", "bool")}, {})
    flags = norm_call_flags(body[8].value, g)
    return (f"Definition gen_grf_exponent (K : Ops) (alpha : K) : K := {expo}.\n"
            "Definition gen_grf_mean_mode_flat_index : nat := 0.\n"
            "Definition gen_grf_mean_mode_amplitude (K : Ops) : K := (fz 1).\n"
            f"Definition gen_grf_norm_flags (zero_mean std_one max_one : bool) : bool * bool * bool := {flags}.")


def tr_diffused():
    fn = find_func(find_class(parse("_diffused_noise.py"), "DiffusedNoise").body, "__call__")
    body = strip_doc(fn.body)
    src = [ast.unparse(s) for s in body]
    want = ["noise = self.white_noise(num_points, key=key)",
            "diffusion_stepper = Diffusion(self.num_spatial_dims, self.domain_extent, num_points, 1.0, diffusivity=self.intensity)",
            "ic = diffusion_stepper(noise)"]
    if len(src) != 5 or not same_all(body[:3], want) or not same(body[4], "return ic"):
        raise TranslationError("DiffusedNoise.__call__: " + repr(src[:3]))
    g = G({"self.zero_mean": ("zero_mean", "bool"), "self.std_one": ("std_one", "bool"), "self.max_one": ("max_one", "bool")}, {})
    flags = norm_call_flags(body[3].value, g)
    return f"Definition gen_diffused_norm_flags (zero_mean std_one max_one : bool) : bool * bool * bool := {flags}."


def tr_discontinuity():
    fn = find_func(find_class(parse("_discontinuities.py"), "Discontinuity").body, "__call__")
    body = strip_doc(fn.body)
    if len(body) != 3:
        raise TranslationError("Discontinuity.__call__ statements")
    st = body[0]
    if not (isinstance(st, ast.Assign) and ast.unparse(st.targets[0]) == "mask" and isinstance(st.value, ast.Call)
            and ast.unparse(st.value.func) == "jnp.ones_like" and len(st.value.args) == 1
            and [(k.arg, ast.unparse(k.value)) for k in st.value.keywords] == [("dtype", "bool")]):
        raise TranslationError("initial mask " + ast.unparse(st))
    a = st.value.args[0]
    if isinstance(a, ast.Name) and a.id == "x":
        init = "xshape"
    elif (isinstance(a, ast.Subscript) and ast.unparse(a.value) == "x" and isinstance(a.slice, ast.Slice) and a.slice.step is None
          and all(isinstance(b, ast.Constant) and isinstance(b.value, int) and b.value >= 0 for b in (a.slice.lower, a.slice.upper))):
        init = f"(slice0 ({a.slice.lower.value}) ({a.slice.upper.value}) xshape)"
    else:
        raise TranslationError("initial mask argument " + ast.unparse(a))
    want_loop = ("for i, (lb, ub) in enumerate(zip(self.lower_limits, self.upper_limits, strict=False)):\n"
                 "    mask = mask & (x[i:i + 1] > lb) & (x[i:i + 1] < ub)")
    if not same(body[1], want_loop) or not same(body[2], "return jnp.where(mask, self.value, 0.0)"):
        raise TranslationError("Discontinuity.__call__ loop/return: " + ast.unparse(body[1]))
    return ("Definition gen_disc_shape (xshape : list Z) (nlim : nat) : option (list Z) :=\n"
            f"  disc_mask_from {init} xshape nlim.")


def tr_multi():
    tree = parse("_multi_channel.py")
    f1 = strip_doc(find_func(find_class(tree, "MultiChannelIC").body, "__call__").body)
    if len(f1) != 1 or not same(f1[0], "return jnp.concatenate([ic(x) for ic in self.initial_conditions], axis=0)"):
        raise TranslationError("MultiChannelIC.__call__")
    cls = find_class(tree, "RandomMultiChannelICGenerator")
    f2 = strip_doc(find_func(cls.body, "__call__").body)
    want2 = ["u_list = [ic_gen(num_points, key=k) for ic_gen, k in zip(self.ic_generators, jax.random.split(key, len(self.ic_generators)), strict=False)]",
             "return jnp.concatenate(u_list, axis=0)"]
    f3 = strip_doc(find_func(cls.body, "gen_ic_fun").body)
    want3 = ["ic_funs = [ic_gen.gen_ic_fun(key=k) for ic_gen, k in zip(self.ic_generators, jax.random.split(key, len(self.ic_generators)), strict=False)]",
             "return MultiChannelIC(ic_funs)"]
    if not same_all(f2, want2) or not same_all(f3, want3):
        raise TranslationError("RandomMultiChannelICGenerator: " + repr([ast.unparse(s) for s in f2 + f3])[:300])
    return "Definition gen_multi_concat_axis : Z := 0%Z.\nDefinition gen_multi_same_key_split : bool := true."


def tr_base_call():
    fn = find_func(find_class(parse("_base_ic.py"), "BaseRandomICGenerator").body, "__call__")
    body = strip_doc(fn.body)
    src = [ast.unparse(s) for s in body]
    want = ["ic_fun = self.gen_ic_fun(key=key)",
            "grid = make_grid(self.num_spatial_dims, self.domain_extent, num_points, indexing=self.indexing)",
            "return ic_fun(grid)"]
    if not same_all(body, want):
        raise TranslationError("BaseRandomICGenerator.__call__: " + repr(src))
    return "Definition gen_base_call_is_fun_on_grid : bool := true."


def tr_build_ic_set():
    """exponax/_utils.py build_ic_set: the scan that splits the key once per sample and hands the sub-key to the generator (text)"""
    tree = ast.parse(open(os.path.join(REPO, "exponax", "_utils.py")).read())
    fn = find_func(tree.body, "build_ic_set")
    if [a.arg for a in fn.args.args] != ["ic_generator"] or [a.arg for a in fn.args.kwonlyargs] != ["num_points", "num_samples", "key"]:
        raise TranslationError("build_ic_set signature")
    body = strip_doc(fn.body)
    want = ["def scan_fn(k, _):\n    k, sub_k = jr.split(k)\n    ic = ic_generator(num_points, key=sub_k)\n    return (k, ic)",
            "_, ic_set = jax.lax.scan(scan_fn, key, None, length=num_samples)", "return ic_set"]
    if not same_all(body, want):
        raise TranslationError("build_ic_set: " + repr([ast.unparse(s) for s in body])[:300])
    return ("(* build_ic_set: sample i is generated with the second half of the i-th split of the carried key (first half carried on) *)\n"
            "Definition gen_ic_set_splits_per_sample : nat := 1.\nDefinition gen_ic_set_uses_subkey : bool := true.")


def generate():
    parts = ["(* GENERATED by harness/translate/icgen.py from /repo/exponax/ic -- do not edit. *)",
             "From Coq Require Import ZArith List Bool.", "From EXV Require Import Base.Scalar IC.Normalize.",
             "Import ListNotations.", ""]
    for f in (tr_normalize_ic, tr_disc_normalize, tr_sine_normalize, tr_clamp, tr_scaled, tr_tfs, tr_grf, tr_diffused,
              tr_discontinuity, tr_multi, tr_base_call, tr_build_ic_set):
        parts.append(f())
    return "\n".join(parts) + "\n"


def run():
    return write_if_changed(OUT, generate())


if __name__ == "__main__":
    print(generate())
