"""Shared by C01/C11/C13: linear symbols of the real steppers vs the extracted hand-written model (Spectral/Symbols.v),
compared at every stored mode in exact-rational arithmetic (L = 2*pi*q so that 2*pi/L = 1/q is rational)."""
import itertools
from fractions import Fraction

import numpy as np

from . import core


def dy(rng, lo=-2.0, hi=2.0, den=8):
    """random dyadic rational (exactly representable)"""
    return float(rng.integers(int(lo * den), int(hi * den) + 1)) / den


def spd(rng, D):
    """random symmetric positive definite dyadic matrix"""
    B = rng.integers(-3, 4, size=(D, D)) / 4.0
    return B @ B.T + np.eye(D) * 0.25


def wavenumbers(D, N):
    """list of (array index tuple, signed wavenumber vector) of the rfft layout, computed independently of exponax"""
    def ff(n):
        return [j if j <= (n - 1) // 2 else j - n for j in range(n)]
    axes = [ff(N)] * (D - 1) + [list(range(N // 2 + 1))]
    out = []
    for idx in itertools.product(*[range(len(a)) for a in axes]):
        out.append((idx, [axes[c][idx[c]] for c in range(D)]))
    return out


def cases(rng, D, N, q, full=True):
    """(description, stepper, class code, model parameter list, channel) for every class whose symbol is modelled"""
    import jax.numpy as jnp
    import exponax as ex
    import exponax.stepper.generic as G
    L, dt = 2 * np.pi * q, 0.1
    S, R = ex.stepper, ex.stepper.reaction
    out = []
    v = [dy(rng) for _ in range(D)]
    A = spd(rng, D)
    dv = [abs(dy(rng)) + 0.125 for _ in range(D)]
    c = dy(rng)
    nu, mu, xi = abs(dy(rng)) + 0.125, abs(dy(rng)) / 8, dy(rng)
    out.append(("Advection(vector)", S.Advection(D, L, N, dt, velocity=jnp.asarray(v)), 1, v, 0))
    out.append(("Advection(scalar)", S.Advection(D, L, N, dt, velocity=c), 1, [c] * D, 0))
    out.append(("Diffusion(matrix)", S.Diffusion(D, L, N, dt, diffusivity=jnp.asarray(A)), 2, list(A.reshape(-1)), 0))
    out.append(("Diffusion(vector)", S.Diffusion(D, L, N, dt, diffusivity=jnp.asarray(dv)), 2, list(np.diag(dv).reshape(-1)), 0))
    out.append(("Diffusion(scalar)", S.Diffusion(D, L, N, dt, diffusivity=nu), 2, list((np.eye(D) * nu).reshape(-1)), 0))
    out.append(("AdvectionDiffusion(vector,matrix)", S.AdvectionDiffusion(D, L, N, dt, velocity=jnp.asarray(v), diffusivity=jnp.asarray(A)), 3, v + list(A.reshape(-1)), 0))
    out.append(("AdvectionDiffusion(scalar,scalar)", S.AdvectionDiffusion(D, L, N, dt, velocity=c, diffusivity=nu), 3, [c] * D + list((np.eye(D) * nu).reshape(-1)), 0))
    for flag in (False, True):
        out.append((f"Dispersion(vector,{flag})", S.Dispersion(D, L, N, dt, dispersivity=jnp.asarray(v), advect_on_diffusion=flag), 4, [flag] + v, 0))
        out.append((f"Dispersion(scalar,{flag})", S.Dispersion(D, L, N, dt, dispersivity=xi, advect_on_diffusion=flag), 4, [flag] + [xi] * D, 0))
        out.append((f"HyperDiffusion({flag})", S.HyperDiffusion(D, L, N, dt, hyper_diffusivity=mu, diffuse_on_diffuse=flag), 5, [flag, mu], 0))
    out.append(("Burgers", S.Burgers(D, L, N, dt, diffusivity=nu), 6, [nu], 0))
    for f1, f2 in itertools.product((False, True), repeat=2):
        out.append((f"KortewegDeVries({f1},{f2})", S.KortewegDeVries(D, L, N, dt, diffusivity=nu, dispersivity=xi, hyper_diffusivity=mu, advect_over_diffuse=f1, diffuse_over_diffuse=f2),
                    7, [f1, f2, nu, xi, mu], 0))
    s2, s4 = dy(rng), abs(dy(rng))
    out.append(("KuramotoSivashinsky", S.KuramotoSivashinsky(D, L, N, dt, second_order_scale=s2, fourth_order_scale=s4), 8, [s2, s4], 0))
    if D == 1:
        out.append(("KuramotoSivashinskyConservative", S.KuramotoSivashinskyConservative(D, L, N, dt, second_order_scale=s2, fourth_order_scale=s4), 8, [s2, s4], 0))
    drag = dy(rng) / 4
    if D == 2:
        out.append(("NavierStokesVorticity", S.NavierStokesVorticity(D, L, N, dt, diffusivity=nu, drag=drag), 9, [nu, drag], 0))
        out.append(("KolmogorovFlowVorticity", S.KolmogorovFlowVorticity(D, L, N, dt, diffusivity=nu, drag=drag, injection_mode=1), 9, [nu, drag], 0))
        out.append(("GeneralVorticityConvectionStepper", G.GeneralVorticityConvectionStepper(D, L, N, dt, linear_coefficients=(drag, 0.0, nu)), 15, [drag, 0.0, nu], 0))
    if D == 3:
        out.append(("NavierStokesVelocity", S.NavierStokesVelocity(D, L, N, dt, diffusivity=nu, drag=drag), 9, [nu, drag], 0))
        out.append(("KolmogorovFlowVelocity", S.KolmogorovFlowVelocity(D, L, N, dt, diffusivity=nu, drag=drag, injection_mode=1), 9, [nu, drag], 0))
    c1, gam, r, kc = dy(rng), abs(dy(rng)) / 4, dy(rng), abs(dy(rng))
    out.append(("AllenCahn", R.AllenCahn(D, L, N, dt, diffusivity=nu, first_order_coefficient=c1), 10, [nu, c1], 0))
    out.append(("FisherKPP", R.FisherKPP(D, L, N, dt, diffusivity=nu, reactivity=r), 11, [nu, r], 0))
    out.append(("CahnHilliard", R.CahnHilliard(D, L, N, dt, diffusivity=nu, gamma=gam, first_order_coefficient=c1), 12, [nu, gam, c1], 0))
    gs = R.GrayScott(D, L, N, dt, diffusivity_1=nu, diffusivity_2=mu)
    out.append(("GrayScott[0]", gs, 13, [nu, mu, 0], 0))
    out.append(("GrayScott[1]", gs, 13, [nu, mu, 1], 1))
    out.append(("SwiftHohenberg", R.SwiftHohenberg(D, L, N, dt, reactivity=r, critical_number=kc), 14, [r, kc], 0))
    coefs = [dy(rng) for _ in range(int(rng.integers(1, 6)))]
    out.append(("GeneralLinearStepper", G.GeneralLinearStepper(D, L, N, dt, linear_coefficients=tuple(coefs)), 15, coefs, 0))
    out.append(("GeneralConvectionStepper", G.GeneralConvectionStepper(D, L, N, dt, linear_coefficients=tuple(coefs)), 15, coefs, 0))
    out.append(("GeneralGradientNormStepper", G.GeneralGradientNormStepper(D, L, N, dt, linear_coefficients=tuple(coefs)), 15, coefs, 0))
    out.append(("GeneralPolynomialStepper", G.GeneralPolynomialStepper(D, L, N, dt, linear_coefficients=tuple(coefs)), 15, coefs, 0))
    out.append(("GeneralNonlinearStepper", G.GeneralNonlinearStepper(D, L, N, dt, linear_coefficients=tuple(coefs)), 15, coefs, 0))
    if not full:
        keep = rng.permutation(len(out))[: max(6, len(out) // 3)]
        out = [out[i] for i in sorted(keep)]
    return out


def compare(ctx, D, N, q, suite, full=True):
    """run the symbol correspondence for one (D, N, q); q is a Fraction"""
    import exponax as ex
    L = 2 * np.pi * float(q)
    dop = ex.spectral.build_derivative_operator(D, L, N)
    modes = wavenumbers(D, N)
    cs = cases(ctx.rng, D, N, float(q), full=full)
    model_cases, meta = [], []
    for name, stepper, code, params, ch in cs:
        lop = np.asarray(stepper._build_linear_operator(dop))
        exp_shape = (stepper.num_channels,) + (N,) * (D - 1) + (N // 2 + 1,)
        lop = np.broadcast_to(lop, exp_shape) if lop.shape[0] == 1 else lop
        for idx, k in modes:
            model_cases.append((101, [code, D, Fraction(1) / Fraction(q)] + k + list(params)))
            meta.append((name, k, lop[(ch,) + idx]))
    res = core.run_model(model_cases)
    for (name, k, impl), mres in zip(meta, res):
        desc = dict(suite=suite, cls=name, D=D, N=N, q=str(q), k=k)
        ctx.case(desc, nontrivial=any(k))
        ctx.count(f"symbol_D{D}")
        m = core.to_cx(mres)[0]
        if not (np.isfinite(impl) and abs(impl - m) <= 1e-11 * (1 + abs(m))):
            ctx.disagree(suite + ":symbol", desc, m, complex(impl))
