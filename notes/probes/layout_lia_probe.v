From Coq Require Import ZArith Lia ZifyBool List.
Ltac Zify.zify_post_hook ::= Z.to_euclidean_division_equations.
Open Scope Z_scope.
(* dealias cutoff, rational fraction p/q: K = floor(p*h/q) - 1, h = N/2 *)
Definition cutoffK (p q N : Z) := (p * (N / 2)) / q - 1.
Lemma cutoff_quadratic N : 0 <= N -> 3 * cutoffK 2 3 N < N.
Proof. unfold cutoffK. intros. lia. Qed.
Lemma cutoff_cubic N : 0 <= N -> 4 * cutoffK 1 2 N < N.
Proof. unfold cutoffK. intros. lia. Qed.
(* alias-free core: q+1 indices in [-K,K], sum shifted by nonzero multiple of N is outside [-K,K] *)
Lemma alias_out_of_band N K s m : 0 < N -> 3*K < N -> -2*K <= s <= 2*K -> m <> 0 -> ~ (-K <= s + m*N <= K).
Proof. intros. nia. Qed.
(* fftfreq *)
Definition fftfreq (N j : Z) := if j <=? (N-1)/2 then j else j - N.
Lemma fftfreq_range N j : 0 < N -> 0 <= j < N -> -(N/2) <= fftfreq N j <= (N-1)/2.
Proof. unfold fftfreq. intros. destruct (j <=? (N-1)/2) eqn:E; lia. Qed.
Definition unfreq (N k : Z) := if 0 <=? k then k else k + N.
Lemma fftfreq_unfreq N k : 0 < N -> -(N/2) <= k <= (N-1)/2 -> fftfreq N (unfreq N k) = k.
Proof. unfold fftfreq, unfreq. intros. destruct (0 <=? k) eqn:E. destruct (k <=? (N-1)/2) eqn:E2; lia.
 destruct (k + N <=? (N-1)/2) eqn:E2; lia. Qed.
Lemma unfreq_fftfreq N j : 0 < N -> 0 <= j < N -> unfreq N (fftfreq N j) = j.
Proof. unfold fftfreq, unfreq. intros. destruct (j <=? (N-1)/2) eqn:E. destruct (0 <=? j) eqn:E2; lia.
 destruct (0 <=? j - N) eqn:E2; lia. Qed.
(* mode slices: index j of small grid n maps to index in big grid m with same wavenumber *)
Definition blk_map (n m j : Z) := if j <=? (if Z.even n then n/2 - 1 else n/2) then j else j + (m - n).
Lemma blk_same_freq n m j : 0 < n <= m -> 0 <= j < n ->
  (Z.even n = true -> j <> n/2) ->  (* even small grid: Nyquist row excluded or handled separately *)
  fftfreq m (blk_map n m j) = fftfreq n j.
Proof. unfold blk_map, fftfreq. intros. destruct (Z.even n) eqn:En.
 - specialize (H1 eq_refl). rewrite Z.even_spec in En. destruct En as [c Hc].
   destruct (j <=? n/2 - 1) eqn:E1; destruct (j <=? (n-1)/2) eqn:E2; try lia.
   destruct (j <=? (m-1)/2) eqn:E3; lia.
   destruct (j + (m-n) <=? (m-1)/2) eqn:E3; lia.
 - assert (Z.odd n = true) by (rewrite <- Z.negb_even, En; reflexivity). rewrite Z.odd_spec in H2. destruct H2 as [c Hc].
   destruct (j <=? n/2) eqn:E1; destruct (j <=? (n-1)/2) eqn:E2; try lia.
   destruct (j <=? (m-1)/2) eqn:E3; lia.
   destruct (j + (m-n) <=? (m-1)/2) eqn:E3; lia.
Qed.
(* radial bin margin *)
Lemma bin_margin s b : 0 <= b -> 4*s <> (2*b+1)*(2*b+1).
Proof. intros. lia. Qed.
