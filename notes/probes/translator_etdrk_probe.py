# scratch experiment: fail-closed translation of ETDRK scan_body closed forms to Coq text
import ast, sys
from fractions import Fraction
class TranslationError(Exception): pass
def expr(e, env):
    if isinstance(e, ast.BinOp):
        a, b = e.left, e.right
        if isinstance(e.op, ast.Pow):
            if not (isinstance(b, ast.Constant) and isinstance(b.value, int) and b.value >= 0): raise TranslationError("pow")
            return f"(cpow {expr(a,env)} {b.value})"
        op = {ast.Add:'cadd', ast.Sub:'csub', ast.Mult:'cmul', ast.Div:'cdiv'}.get(type(e.op))
        if op is None: raise TranslationError(ast.dump(e.op))
        return f"({op} {expr(a,env)} {expr(b,env)})"
    if isinstance(e, ast.UnaryOp) and isinstance(e.op, ast.USub): return f"(copp {expr(e.operand,env)})"
    if isinstance(e, ast.Constant) and isinstance(e.value,(int,float)):
        fr=Fraction(e.value); return f"(cq {fr.numerator} {fr.denominator})"
    if isinstance(e, ast.Name):
        if e.id in env: return env[e.id]
        raise TranslationError("name "+e.id)
    if isinstance(e, ast.Attribute) and e.attr=='real': return f"(cre {expr(e.value,env)})"
    if isinstance(e, ast.Call) and ast.unparse(e.func)=='jnp.exp': return f"(cexp {expr(e.args[0],env)})"
    raise TranslationError(ast.dump(e)[:80])
def coefs(path, cls):
    tree=ast.parse(open(path).read())
    c=[n for n in tree.body if isinstance(n,ast.ClassDef) and n.name==cls][0]
    init=[n for n in c.body if isinstance(n,ast.FunctionDef) and n.name=='__init__'][0]
    sb=[n for n in init.body if isinstance(n,ast.FunctionDef) and n.name=='scan_body'][0]
    env={'circle_radius':'r','root':'w','L_dt':'z'}
    out={}
    for st in sb.body:
        if isinstance(st,ast.Assign):
            name=st.targets[0].id; env[name]=f"({expr(st.value,env)})"; 
            if name.startswith('c'): out[name]=env[name]
        elif isinstance(st,ast.Return):
            tup=st.value.elts[0]
            accs = tup.elts if isinstance(tup,ast.Tuple) else [tup]
            for i,a in enumerate(accs):
                # acc + term
                assert isinstance(a,ast.BinOp) and isinstance(a.op,ast.Add)
                out[f"acc{i}"]=expr(a.right,env)
        else: raise TranslationError(ast.dump(st)[:60])
    return out
for k in (1,2,3,4):
    r=coefs(f"/repo/exponax/etdrk/_etdrk_{k}.py", f"ETDRK{k}")
    print(k, {n:v[:70] for n,v in r.items() if n.startswith('acc')})
