(* Probe: abstract commutative-ring DFT inversion from a primitive root. *)
From Coq Require Import Ring Field ZArith List Lia Arith.
Import ListNotations.
Record FieldT := mkF {
  car :> Type; f0 : car; f1 : car; fadd : car -> car -> car; fmul : car -> car -> car;
  fsub : car -> car -> car; fopp : car -> car; fdiv : car -> car -> car; finv : car -> car;
  fth : field_theory f0 f1 fadd fmul fsub fopp fdiv finv (@eq car) }.
Section S.
Variable F : FieldT.
Add Field Ff : (fth F).
Local Notation "0" := (f0 F). Local Notation "1" := (f1 F).
Local Infix "+" := (fadd F). Local Infix "*" := (fmul F). Local Infix "-" := (fsub F).
Fixpoint bsum (l : list nat) (f : nat -> F) : F := match l with [] => 0 | x :: r => f x + bsum r f end.
Lemma bsum_ext l f g : (forall x, In x l -> f x = g x) -> bsum l f = bsum l g.
Proof. induction l; simpl; intros H; [reflexivity|]. rewrite H by auto. rewrite IHl; auto. Qed.
Lemma bsum_add l f g : bsum l (fun x => f x + g x) = bsum l f + bsum l g.
Proof. induction l; simpl. ring. rewrite IHl. ring. Qed.
Lemma bsum_scal l c f : bsum l (fun x => c * f x) = c * bsum l f.
Proof. induction l; simpl. ring. rewrite IHl. ring. Qed.
Lemma bsum_zero l : bsum l (fun _ => 0) = 0.
Proof. induction l; simpl. reflexivity. rewrite IHl. ring. Qed.
Lemma bsum_swap l1 l2 (f : nat -> nat -> F) :
  bsum l1 (fun a => bsum l2 (fun b => f a b)) = bsum l2 (fun b => bsum l1 (fun a => f a b)).
Proof. induction l1; simpl. symmetry; apply bsum_zero. rewrite IHl1. rewrite <- bsum_add. reflexivity. Qed.
Fixpoint pw (a : F) (n : nat) : F := match n with O => 1 | S n => a * pw a n end.
Lemma pw_add a n m : pw a (n+m) = pw a n * pw a m.
Proof. induction n; simpl. ring. rewrite IHn. ring. Qed.
Lemma pw_mul a n m : pw a (n*m) = pw (pw a n) m.
Proof. induction m. rewrite Nat.mul_0_r. reflexivity. rewrite Nat.mul_succ_r, Nat.add_comm, pw_add, IHm. simpl. ring. Qed.
Lemma geom a n : (a - 1) * bsum (seq 0 n) (fun k => pw a k) = pw a n - 1.
Proof. induction n. simpl. ring. rewrite seq_S. simpl.
  assert (E: forall l x f, bsum (l ++ [x]) f = bsum l f + f x).
  { induction l; simpl; intros. ring. rewrite IHl. ring. }
  rewrite E. replace ((a-1) * (bsum (seq 0 n) (fun k => pw a k) + pw a n)) with ((a-1)*bsum (seq 0 n) (fun k => pw a k) + (a-1)*pw a n) by ring.
  rewrite IHn. simpl. ring. Qed.
Lemma bsum_const l c : bsum l (fun _ => c) = bsum l (fun _ => 1) * c.
Proof. induction l; simpl. ring. rewrite IHl. ring. Qed.
Variable N : nat. Variable w : F.
Hypothesis wN : pw w N = 1.
Hypothesis wprim : forall m, (0 < m < N)%nat -> pw w m <> 1.
Definition ofnat n := bsum (seq 0 n) (fun _ => 1).
Lemma ortho m : (m < N)%nat -> bsum (seq 0 N) (fun k => pw w (m*k)) = if Nat.eqb m 0 then ofnat N else 0.
Proof. intros Hm. destruct (Nat.eqb_spec m 0) as [->|Hne].
 - unfold ofnat. apply bsum_ext. intros. simpl. reflexivity.
 - assert (Hg := geom (pw w m) N).
   rewrite <- pw_mul, Nat.mul_comm, pw_mul, wN in Hg.
   assert (pw 1 m = 1) by (clear; induction m; simpl; [reflexivity| rewrite IHm; ring]).
   rewrite H in Hg. replace (1 - 1) with 0 in Hg by ring.
   assert (Hnz : pw w m - 1 <> 0). { intro E. apply (wprim m). lia. transitivity (pw w m - 1 + 1). ring. rewrite E. ring. }
   rewrite (bsum_ext _ _ (fun k => pw (pw w m) k)) by (intros; apply pw_mul).
   (* integral domain *)
   set (S := bsum (seq 0 N) (fun k => pw (pw w m) k)) in *.
   transitivity (finv F (pw w m - 1) * ((pw w m - 1) * S)). field. exact Hnz. rewrite Hg. ring.
Qed.
End S.
Check ortho.
Print Assumptions ortho.
