"""Design-phase reconnaissance oracles (NOT framework code; kept as seeds for the
witness-search harness).  Run:  PYTHONPATH=/repo /venv/bin/python recon_oracles.py [name ...]
Every function prints what it measured on the real code in float64."""
import inspect
import itertools
import sys

import jax

jax.config.update("jax_enable_x64", True)
import equinox as eqx  # noqa: E402
import jax.numpy as jnp  # noqa: E402
import numpy as np  # noqa: E402

import exponax as ex  # noqa: E402
import exponax.stepper.generic as G  # noqa: E402

rng = np.random.default_rng(0)


def noise(C, D, N):
    return jnp.array(rng.normal(size=(C,) + (N,) * D))


def nyqfree(u, D, N):
    return ex.ifft(ex.spectral.oddball_filter_mask(D, N) * ex.fft(u), num_spatial_dims=D, num_points=N)


def stepper_classes():
    out = []
    for mod in (ex.stepper, ex.stepper.generic, ex.stepper.reaction):
        for n in mod.__all__:
            o = getattr(mod, n)
            if inspect.isclass(o) and issubclass(o, ex.BaseStepper):
                out.append(o)
    return out


# ----------------------------------------------------------------------------- C02 (F1)
def c02_real_part():
    from exponax.etdrk import ETDRK1
    from exponax.nonlin_fun import ZeroNonlinearFun

    L = jnp.array([[0.0, 1j * 0.5, -0.3 + 0.7j, -2.0, 3j]])
    e1 = ETDRK1(1.0, L, ZeroNonlinearFun(1, 8))
    phi1 = jnp.where(L == 0, 1.0, (jnp.exp(L) - 1) / jnp.where(L == 0, 1, L))
    print("coef1", np.asarray(e1._coef_1))
    print("phi1 ", np.asarray(phi1))
    N, Ld, T = 64, 20.0, 0.1
    u0 = ex.ic.RandomTruncatedFourierSeries(1, cutoff=3, max_one=True)(N, key=jax.random.PRNGKey(0))
    ref = ex.repeat(ex.stepper.KortewegDeVries(1, Ld, N, T / 4096, order=4, hyper_diffusivity=0.0), 4096)(u0)
    for order in (1, 2, 3, 4):
        errs = []
        for n in (8, 16, 32, 64):
            s = ex.stepper.KortewegDeVries(1, Ld, N, T / n, order=order, hyper_diffusivity=0.0)
            errs.append(float(jnp.linalg.norm(ex.repeat(s, n)(u0) - ref)))
        print("KdV order", order, "rates", [round(float(np.log2(errs[i] / errs[i + 1])), 3) for i in range(3)])


# ----------------------------------------------------------------------------- C04 (F2)
def c04_xy():
    for D in (2, 3):
        for N in (6, 7):
            wn = ex.spectral.build_wavenumbers(D, N, indexing="xy")
            sc = ex.spectral.build_scaling_array(D, N, mode="coef_extraction", indexing="xy")
            print(D, N, "wn", wn.shape, "sc", sc.shape, "fft", ex.fft(jnp.zeros((1,) + (N,) * D)).shape)
    u = jnp.sin(2 * jnp.pi * ex.make_grid(2, 1.0, 6, indexing="xy")[0:1])
    for name, f in [
        ("derivative", lambda: ex.derivative(u, 1.0, indexing="xy").shape),
        ("coefficients", lambda: ex.spectral.get_fourier_coefficients(u, indexing="xy").shape),
        ("interpolator", lambda: ex.FourierInterpolator(u, domain_extent=1.0, indexing="xy")(jnp.array([0.25, 0.0]))),
        ("incompressible", lambda: ex.spectral.make_incompressible(jnp.concatenate([u, u]), indexing="xy").shape),
    ]:
        try:
            print(name, "ok", f())
        except Exception as e:  # noqa: BLE001
            print(name, "ERR", type(e).__name__, str(e)[:100])


# ----------------------------------------------------------------------------- C12 (F3, F4)
def c12_kolmogorov():
    for L in (2 * np.pi, 1.0, 5.0):
        N, k, gamma, nu, drag, dt, n = 16, 2, 0.7, 0.05, -0.1, 0.1, 5
        s = ex.stepper.KolmogorovFlowVorticity(2, L, N, dt, diffusivity=nu, drag=drag, injection_mode=k, injection_scale=gamma, order=4)
        u = ex.repeat(s, n)(jnp.zeros((1, N, N)))
        g = ex.make_grid(2, L, N)
        kk = 2 * np.pi * k / L
        sigma = drag - nu * kk**2
        amp = (np.exp(sigma * n * dt) - 1) / sigma
        doc = -kk * gamma * jnp.cos(kk * g[1:2]) * amp
        nofac = -k * gamma * jnp.cos(kk * g[1:2]) * amp
        print("2D L=%.3f err_documented=%.2e err_without_2pi/L=%.2e" % (L, float(jnp.abs(u - doc).max()), float(jnp.abs(u - nofac).max())))
    for L in (2 * np.pi, 3.0):
        N, k, gamma, nu, drag, dt, n = 12, 2, 0.7, 0.05, -0.1, 0.1, 3
        s = ex.stepper.KolmogorovFlowVelocity(3, L, N, dt, diffusivity=nu, drag=drag, injection_mode=k, injection_scale=gamma, order=4)
        u = ex.repeat(s, n)(jnp.zeros((3, N, N, N)))
        g = ex.make_grid(3, L, N)
        kk = 2 * np.pi * k / L
        sigma = drag - nu * kk**2
        amp = (np.exp(sigma * n * dt) - 1) / sigma
        print("3D L=%.3f err_vs_gamma_sin=%.2e err_vs_half_gamma_cos=%.2e other_channels=%.1e" % (
            L, float(jnp.abs(u[0] - gamma * jnp.sin(kk * g[1]) * amp).max()),
            float(jnp.abs(u[0] - 0.5 * gamma * jnp.cos(kk * g[1]) * amp).max()), float(jnp.abs(u[1:]).max())))


# ----------------------------------------------------------------------------- C18 (F5, F6)
def c18_ic():
    key = jax.random.PRNGKey(1)
    for D in (1, 2):
        u = ex.ic.RandomTruncatedFourierSeries(D, cutoff=3, offset_range=(2.0, 2.0))(16, key=key)
        print("TFS D", D, "mean", float(u.mean()), "requested 2.0")
    for D in (1, 2, 3):
        print("RandomDiscontinuities D", D, "shape", ex.ic.RandomDiscontinuities(D)(8, key=key).shape)
    for D in (1, 2, 3):
        c = ex.ic.ClampingICGenerator(ex.ic.RandomTruncatedFourierSeries(D, cutoff=2), limits=(-0.5, 2.0))(7, key=key)
        print(D, "clamp", float(c.min()), float(c.max()))
        for opt in (dict(zero_mean=True, std_one=True), dict(zero_mean=True, max_one=True)):
            u = ex.ic.GaussianRandomField(D, **opt)(8, key=key)
            print(D, opt, "mean %.1e std %.6f max %.6f" % (float(u.mean()), float(u.std()), float(jnp.abs(u).max())))


# ----------------------------------------------------------------------------- C01
def c01_linear_exact():
    worst = {}

    def rec(name, err, info):
        if err > worst.get(name, (0, None))[0]:
            worst[name] = (err, info)

    for D in (1, 2, 3):
        for N in ((5, 6) if D < 3 else (4, 5)):
            L = float(rng.uniform(0.5, 7))
            dt = float(rng.uniform(0.1, 50))
            c = rng.uniform(-2, 2, size=D)
            nu = rng.uniform(0.01, 0.3, size=D)
            A = rng.normal(size=(D, D))
            A = A @ A.T * 0.05 + 0.01 * np.eye(D)
            xi = rng.uniform(-1, 1, size=D)
            zeta = 0.003
            half = (N - 1) // 2
            g = ex.make_grid(D, L, N)
            for k in itertools.product(*([range(-half, half + 1)] * (D - 1) + [range(0, half + 1)])):
                kap = 2 * np.pi * np.array(k) / L
                ph = sum(kap[d] * g[d] for d in range(D))
                u = jnp.cos(ph + 0.3)[None]
                exact = lambda lam: jnp.real(np.exp(lam * dt) * jnp.exp(1j * (ph + 0.3)))[None]  # noqa: E731
                tests = {
                    "Advection": (ex.stepper.Advection(D, L, N, dt, velocity=jnp.array(c)), -1j * np.dot(c, kap)),
                    "Diffusion_vec": (ex.stepper.Diffusion(D, L, N, dt, diffusivity=jnp.array(nu)), -np.dot(nu, kap**2)),
                    "Diffusion_mat": (ex.stepper.Diffusion(D, L, N, dt, diffusivity=jnp.array(A)), -kap @ A @ kap),
                    "AdvDiff": (ex.stepper.AdvectionDiffusion(D, L, N, dt, velocity=jnp.array(c), diffusivity=jnp.array(A)), -1j * np.dot(c, kap) - kap @ A @ kap),
                    "Dispersion": (ex.stepper.Dispersion(D, L, N, dt, dispersivity=jnp.array(xi)), np.dot(xi, (1j * kap) ** 3)),
                    "Dispersion_mix": (ex.stepper.Dispersion(D, L, N, dt, dispersivity=jnp.array(xi), advect_on_diffusion=True), np.dot(xi, 1j * kap) * (-(kap @ kap))),
                    "Hyper": (ex.stepper.HyperDiffusion(D, L, N, dt, hyper_diffusivity=zeta), -zeta * np.sum(kap**4)),
                    "Hyper_mix": (ex.stepper.HyperDiffusion(D, L, N, dt, hyper_diffusivity=zeta, diffuse_on_diffuse=True), -zeta * (kap @ kap) ** 2),
                }
                for name, (s, lam) in tests.items():
                    rec(name, float(jnp.abs(s(u) - exact(lam)).max()), (D, N, k))
                cs = 1.3
                s = ex.stepper.Wave(D, L, N, dt, speed_of_sound=cs)
                H, V = np.exp(0.3j), 0.7 * np.exp(1.1j)
                om = cs * np.linalg.norm(kap)
                if om == 0:
                    Hn, Vn = H + dt * V, V
                else:
                    Hn = H * np.cos(om * dt) + V * np.sin(om * dt) / om
                    Vn = -H * om * np.sin(om * dt) + V * np.cos(om * dt)
                state = jnp.concatenate([jnp.real(H * jnp.exp(1j * ph))[None], jnp.real(V * jnp.exp(1j * ph))[None]])
                ref = jnp.concatenate([jnp.real(Hn * jnp.exp(1j * ph))[None], jnp.real(Vn * jnp.exp(1j * ph))[None]])
                rec("Wave", float(jnp.abs(s(state) - ref).max()) / max(1, abs(Hn), abs(Vn)), (D, N, k))
    for k_, v_ in worst.items():
        print(k_, v_)


# ----------------------------------------------------------------------------- C03
def c03_alias_free():
    from exponax.nonlin_fun import ConvectionNonlinearFun, GradientNormNonlinearFun, PolynomialNonlinearFun

    worst = {}
    for D in (1, 2):
        for N in (range(4, 28) if D == 1 else range(4, 14)):
            L = 2.0
            variants = [
                (2 / 3, "conv_sc_cons", lambda d, n, f: ConvectionNonlinearFun(D, n, derivative_operator=d, dealiasing_fraction=f, single_channel=True, conservative=True, scale=1.3), 1),
                (2 / 3, "conv_mc_noncons", lambda d, n, f: ConvectionNonlinearFun(D, n, derivative_operator=d, dealiasing_fraction=f, scale=1.3), D),
                (2 / 3, "conv_mc_cons", lambda d, n, f: ConvectionNonlinearFun(D, n, derivative_operator=d, dealiasing_fraction=f, conservative=True, scale=1.3), D),
                (2 / 3, "gradnorm", lambda d, n, f: GradientNormNonlinearFun(D, n, derivative_operator=d, dealiasing_fraction=f, scale=0.7), 1),
                (1 / 2, "poly3", lambda d, n, f: PolynomialNonlinearFun(D, n, dealiasing_fraction=f, coefficients=(0.0, 0.5, -0.3, 0.8)), 1),
            ]
            for frac, name, mk, C in variants:
                nf = mk(ex.spectral.build_derivative_operator(D, L, N), N, frac)
                u = noise(C, D, N)
                out = nf(ex.fft(u))
                mask = nf.dealiasing_mask
                ub = ex.ifft(mask * ex.fft(u), num_spatial_dims=D, num_points=N)
                M = 4 * N
                uf = ex.map_between_resolutions(ub, M)
                nf_f = mk(ex.spectral.build_derivative_operator(D, L, M), M, None)
                of = ex.ifft(nf_f(ex.fft(uf)), num_spatial_dims=D, num_points=M)
                oracle = mask * ex.fft(ex.map_between_resolutions(of, N))
                if name == "gradnorm":
                    oracle = oracle.at[(0,) + (0,) * D].set(0.0)
                e = float(jnp.abs(out - oracle).max()) / (1 + float(jnp.abs(oracle).max()))
                if e > worst.get(name, (0,))[0]:
                    worst[name] = (e, D, N)
    for k, v in worst.items():
        print(k, v)


# ----------------------------------------------------------------------------- C06 (F7, F8)
def c06_filter_vmap():
    N = 8
    u1, u2 = noise(1, 1, N), noise(1, 2, N)
    ps = jnp.array([0.1, 0.2, 0.5])

    def tryit(name, f, u):
        try:
            s = eqx.filter_vmap(f)(ps)
            out = eqx.filter_vmap(lambda st, x: st(x), in_axes=(eqx.if_array(0), None))(s, u)
            ref = jnp.stack([f(p)(u) for p in ps])
            print(name, "ok maxdiff", float(jnp.abs(out - ref).max()))
        except Exception as e:  # noqa: BLE001
            print(name, "ERR", type(e).__name__, str(e).split("\n")[0][:110])

    tryit("Advection(velocity scalar)", lambda c: ex.stepper.Advection(1, 3.0, N, 0.1, velocity=c), u1)
    tryit("Advection(velocity vector)", lambda c: ex.stepper.Advection(1, 3.0, N, 0.1, velocity=c[None]), u1)
    tryit("Diffusion(diffusivity scalar)", lambda c: ex.stepper.Diffusion(1, 3.0, N, 0.1, diffusivity=c), u1)
    tryit("Burgers(diffusivity)", lambda c: ex.stepper.Burgers(1, 3.0, N, 0.1, diffusivity=c), u1)
    tryit("Burgers(dt)", lambda c: ex.stepper.Burgers(1, 3.0, N, c), u1)
    tryit("KdV(dispersivity)", lambda c: ex.stepper.KortewegDeVries(1, 3.0, N, 0.1, dispersivity=c), u1)
    tryit("GenLin(coefs)", lambda c: G.GeneralLinearStepper(1, 3.0, N, 0.1, linear_coefficients=(0.0, c, 0.01)), u1)
    tryit("GenVort(injection_scale)", lambda c: G.GeneralVorticityConvectionStepper(2, 3.0, N, 0.1, injection_scale=c, injection_mode=1), u2)
    tryit("Kolm2D(injection_scale)", lambda c: ex.stepper.KolmogorovFlowVorticity(2, 3.0, N, 0.1, injection_scale=c, injection_mode=1), u2)
    s = ex.stepper.Burgers(1, 3.0, N, 0.1)
    print("jit vs eager", float(jnp.abs(eqx.filter_jit(s)(u1) - s(u1)).max()))


# ----------------------------------------------------------------------------- C07
def c07_derivatives():
    N = 8
    u1, u2, u3, uw = noise(1, 1, N), noise(1, 2, N), noise(3, 3, N), noise(2, 2, N)

    def chk(name, f, x):
        try:
            J = jax.jacfwd(f)(x)
            v = jax.random.normal(jax.random.PRNGKey(1), jnp.shape(x))
            h = 1e-6
            fd = (f(x + h * v) - f(x - h * v)) / (2 * h)
            jv = jax.jvp(f, (x,), (v,))[1]
            y, vj = jax.vjp(f, x)
            w = jax.random.normal(jax.random.PRNGKey(2), y.shape)
            print(name, "finite", bool(jnp.all(jnp.isfinite(J))), "fd relerr %.1e adjoint defect %.1e" % (
                float(jnp.abs(fd - jv).max() / (1e-30 + jnp.abs(jv).max())), float(jnp.vdot(w, jv) - jnp.vdot(vj(w)[0], v))))
        except Exception as e:  # noqa: BLE001
            print(name, "ERR", type(e).__name__, str(e).split("\n")[0][:100])

    chk("Burgers/u", ex.stepper.Burgers(1, 3.0, N, 0.1), u1)
    chk("NS2D/u", ex.stepper.NavierStokesVorticity(2, 3.0, N, 0.1), u2)
    chk("NS3D/u", ex.stepper.NavierStokesVelocity(3, 3.0, N, 0.1), u3)
    chk("Wave/u", ex.stepper.Wave(2, 3.0, N, 0.1), uw)
    chk("Wave/dt", lambda dt: ex.stepper.Wave(2, 3.0, N, dt)(uw), jnp.array(0.1))
    chk("Wave/c", lambda c: ex.stepper.Wave(2, 3.0, N, 0.1, speed_of_sound=c)(uw), jnp.array(1.1))
    chk("Burgers/dt", lambda dt: ex.stepper.Burgers(1, 3.0, N, dt)(u1), jnp.array(0.1))
    chk("Burgers/nu", lambda nu: ex.stepper.Burgers(1, 3.0, N, 0.1, diffusivity=nu)(u1), jnp.array(0.1))
    chk("NS2D/nu", lambda nu: ex.stepper.NavierStokesVorticity(2, 3.0, N, 0.1, diffusivity=nu)(u2), jnp.array(0.1))
    chk("KS4/u", ex.stepper.KuramotoSivashinsky(1, 30.0, N, 0.1, order=4), u1)
    chk("GenLin/coefs", lambda a: G.GeneralLinearStepper(1, 3.0, N, 0.1, linear_coefficients=(a[0], a[1], a[2]))(u1), jnp.array([0.1, -0.2, 0.03]))
    chk("rollout Burgers/u", lambda u: ex.rollout(ex.stepper.Burgers(1, 3.0, N, 0.1), 3)(u), u1)
    chk("Wave/L (not in property)", lambda L: ex.stepper.Wave(2, L, N, 0.1)(uw), jnp.array(3.0))


# ----------------------------------------------------------------------------- C08
def c08_symmetries():
    for cls in stepper_classes():
        for D in (1, 2, 3):
            N = 6 if D == 3 else 7
            sig = inspect.signature(cls.__init__)
            kw = {}
            if "order" in sig.parameters and "Simple" not in cls.__name__:
                kw["order"] = 3
            if "injection_mode" in sig.parameters:
                kw["injection_mode"] = 1
            try:
                s = cls(D, 3.0, N, 0.01, **kw) if "domain_extent" in sig.parameters else cls(D, N, **kw)
            except Exception:  # noqa: BLE001
                continue
            u = 0.3 * noise(s.num_channels, D, N)
            worst = 0.0
            for _ in range(3):
                sh = tuple(int(x) for x in rng.integers(0, N, size=D))
                if "Kolmogorov" in cls.__name__:
                    sh = tuple(0 if a == 1 else sh[a] for a in range(D))
                T = lambda v: jnp.roll(v, sh, axis=tuple(range(1, D + 1)))  # noqa: E731,B023
                worst = max(worst, float(jnp.abs(s(T(u)) - T(s(u))).max()))
            if worst > 1e-11:
                print("TRANSLATION FAIL", cls.__name__, D, worst)
    D, N, L, dt = 2, 7, 3.0, 0.01
    sw = lambda v, vec: jnp.swapaxes(v, 1, 2)[::-1] if vec else jnp.swapaxes(v, 1, 2)  # noqa: E731
    for nm, s, vec in [("Diffusion", ex.stepper.Diffusion(D, L, N, dt), False), ("Burgers", ex.stepper.Burgers(D, L, N, dt, order=4), True),
                       ("KdV", ex.stepper.KortewegDeVries(D, L, N, dt), True), ("KS", ex.stepper.KuramotoSivashinsky(D, L, N, dt), False),
                       ("GrayScott", ex.stepper.reaction.GrayScott(D, L, N, dt), False), ("Wave", ex.stepper.Wave(D, L, N, dt), False)]:
        u = 0.3 * noise(s.num_channels, D, N)
        print("swap", nm, float(jnp.abs(s(sw(u, vec)) - sw(s(u), vec)).max()))
    s = ex.stepper.NavierStokesVorticity(D, L, N, dt)
    u = 0.3 * noise(1, D, N)
    print("swap NS2D (pseudo-scalar: omega -> -omega)", float(jnp.abs(s(-jnp.swapaxes(u, 1, 2)) + jnp.swapaxes(s(u), 1, 2)).max()))
    s = ex.stepper.NavierStokesVelocity(3, L, 6, dt)
    u = 0.3 * nyqfree(noise(3, 3, 6), 3, 6)
    P = lambda v: jnp.transpose(v, (0, 2, 3, 1))[jnp.array([1, 2, 0])]  # noqa: E731
    print("cyclic NS3D", float(jnp.abs(s(P(u)) - P(s(u))).max()))
    N = 8
    for nm, mk in [("Diffusion", lambda d: ex.stepper.Diffusion(d, L, N, dt)), ("Burgers_sc", lambda d: ex.stepper.Burgers(d, L, N, dt, single_channel=True)),
                   ("KS", lambda d: ex.stepper.KuramotoSivashinsky(d, L, N, dt)), ("Fisher", lambda d: ex.stepper.reaction.FisherKPP(d, L, N, dt))]:
        v1 = 0.3 * noise(1, 1, N)
        r1 = mk(1)(v1)
        for d in (2, 3):
            for ax in range(d):
                shape = [1] * d
                shape[ax] = N
                ud = jnp.broadcast_to(v1.reshape((1,) + tuple(shape)), (1,) + (N,) * d)
                ref = jnp.broadcast_to(r1.reshape((1,) + tuple(shape)), (1,) + (N,) * d)
                e = float(jnp.abs(mk(d)(ud) - ref).max())
                if e > 1e-11:
                    print("EMBED FAIL", nm, d, ax, e)
    print("c08 done")


# ----------------------------------------------------------------------------- C09 / C10
def c09_c10():
    for N in (6, 7):
        for order in (1, 2, 4):
            s = ex.stepper.NavierStokesVelocity(3, 3.0, N, 0.05, order=order)
            u = 0.3 * noise(3, 3, N)
            ud = ex.spectral.make_incompressible(nyqfree(u, 3, N)) + jnp.array([0.3, -0.2, 0.5]).reshape(3, 1, 1, 1)
            for nm, uu in (("white noise", u), ("divergence-free", ud)):
                print("NS3D mean drift", N, order, nm, float(jnp.abs(s(uu).mean(axis=(1, 2, 3)) - uu.mean(axis=(1, 2, 3))).max()))
    for D in (1, 2):
        N, L, dt = 8, 3.0, 0.1
        for order in (1, 2, 3, 4):
            for nm, s, ustar in [("Fisher", ex.stepper.reaction.FisherKPP(D, L, N, dt, order=order), 1.0), ("AllenCahn", ex.stepper.reaction.AllenCahn(D, L, N, dt, order=order), -1.0),
                                 ("Burgers", ex.stepper.Burgers(D, L, N, dt, order=order), 0.7), ("CahnHilliard", ex.stepper.reaction.CahnHilliard(D, L, N, dt, order=order), 0.4)]:
                u = jnp.ones((s.num_channels,) + (N,) * D) * ustar
                e = float(jnp.abs(s(u) - u).max())
                if e > 1e-11:
                    print("FIXED POINT FAIL", nm, D, order, e)
    for N in (9, 12):
        d = ex.spectral.build_derivative_operator(1, 3.0, N)
        nf = ex.nonlin_fun.ConvectionNonlinearFun(1, N, derivative_operator=d, conservative=True)
        ub = ex.ifft(nf.dealiasing_mask * ex.fft(noise(1, 1, N)), num_points=N)
        print("1D Burgers work", N, float(jnp.sum(ub * ex.ifft(nf(ex.fft(ub)), num_points=N))))
    for D in (2, 3):
        for N in (6, 7):
            d = ex.spectral.build_derivative_operator(D, 2.0, N)
            P = ex.nonlin_fun.Leray(D, N, derivative_operator=d)
            u = nyqfree(noise(D, D, N), D, N)
            Pu = P(ex.fft(u))
            print("Leray", D, N, "div", float(jnp.abs(jnp.sum(d * Pu, axis=0)).max()), "idem", float(jnp.abs(P(Pu) - Pu).max()),
                  "vs make_incompressible", float(jnp.abs(ex.fft(ex.spectral.make_incompressible(u)) - Pu).max()))


# ----------------------------------------------------------------------------- C11 / C13 / C16
def c11_c13_c16():
    for D in (1, 2, 3):
        for N in ((7, 8) if D < 3 else (5, 6)):
            for dt in (0.1, 1e3, 1e6):
                L = 2.0
                for nm, s in {"adv": ex.stepper.Advection(D, L, N, dt), "diff": ex.stepper.Diffusion(D, L, N, dt), "disp": ex.stepper.Dispersion(D, L, N, dt),
                              "hyp": ex.stepper.HyperDiffusion(D, L, N, dt)}.items():
                    u = noise(1, D, N)
                    r = float(jnp.linalg.norm(s(u)) / jnp.linalg.norm(u))
                    if r > 1 + 1e-12:
                        print("AMPLIFY", nm, D, N, dt, r)
    D, N, L, dt = 2, 8, 3.0, 0.07
    u1, uD = 0.5 * noise(1, D, N), 0.5 * noise(D, D, N)
    for order in (1, 2, 3, 4):
        pairs = [
            ("Burgers", ex.stepper.Burgers(D, L, N, dt, diffusivity=0.05, convection_scale=1.3, order=order), G.GeneralConvectionStepper(D, L, N, dt, linear_coefficients=(0, 0, 0.05), convection_scale=1.3, order=order), uD),
            ("KdV", ex.stepper.KortewegDeVries(D, L, N, dt, order=order), G.GeneralConvectionStepper(D, L, N, dt, linear_coefficients=(0, 0, 0, -1.0, -0.01), convection_scale=-6.0, order=order), uD),
            ("KS", ex.stepper.KuramotoSivashinsky(D, L, N, dt, order=order), G.GeneralGradientNormStepper(D, L, N, dt, linear_coefficients=(0, 0, -1, 0, -1), gradient_norm_scale=1.0, order=order), u1),
            ("Fisher (a0 = r/D)", ex.stepper.reaction.FisherKPP(D, L, N, dt, diffusivity=0.02, reactivity=0.8, order=order), G.GeneralPolynomialStepper(D, L, N, dt, linear_coefficients=(0.8 / D, 0, 0.02), polynomial_coefficients=(0, 0, -0.8), order=order), u1),
            ("NS2D (a0 = drag/D)", ex.stepper.NavierStokesVorticity(D, L, N, dt, diffusivity=0.02, drag=-0.1, order=order), G.GeneralVorticityConvectionStepper(D, L, N, dt, linear_coefficients=(-0.1 / D, 0, 0.02), order=order), u1),
        ]
        for nm, a, b, u in pairs:
            e = float(jnp.abs(a(u) - b(u)).max())
            if e > 1e-12:
                print("MISMATCH", nm, order, e)
        a, b1 = (0.0, -0.3, 0.05, 0.002), 1.3
        na = G.normalize_coefficients(a, domain_extent=L, dt=dt)
        nb = G.normalize_convection_scale(b1, domain_extent=L, dt=dt)
        g = G.GeneralConvectionStepper(D, L, N, dt, linear_coefficients=a, convection_scale=b1, order=order)
        n = G.NormalizedConvectionStepper(D, N, normalized_linear_coefficients=na, normalized_convection_scale=nb, order=order)
        dfc = G.DifficultyConvectionStepper(D, N, linear_difficulties=G.reduce_normalized_coefficients_to_difficulty(na, num_spatial_dims=D, num_points=N),
                                            convection_difficulty=G.reduce_normalized_convection_scale_to_difficulty(nb, num_spatial_dims=D, num_points=N, maximum_absolute=1.0), order=order)
        print(order, "generic-normalized", float(jnp.abs(g(uD) - n(uD)).max()), "generic-difficulty", float(jnp.abs(g(uD) - dfc(uD)).max()))
    M = ex.metrics
    for D in (1, 2, 3):
        for N in ((7, 8) if D < 3 else (5, 6)):
            L = 2.5
            u, v = noise(2, D, N), noise(2, D, N)
            tot = M.fourier_MSE(u, v, domain_extent=L)
            parts = sum(M.fourier_MSE(u, v, domain_extent=L, low=b, high=b) for b in range(0, N // 2 + 1))
            grad = float((L / N) ** D * jnp.sum(ex.derivative(u - v, L) ** 2))
            print(D, N, "Parseval", float(abs(M.MSE(u, v, domain_extent=L) - tot)), "bands", float(abs(tot - parts)),
                  "H1 split (needs odd N / Nyquist-free)", float(abs(M.H1_MSE(u, v, domain_extent=L) - tot - grad)), "corr", float(M.correlation(u, -2 * u)))


# ----------------------------------------------------------------------------- C14 / C15 / C17 / C20
def c14_utils():
    f, fa = (lambda u: 2 * u + 1), (lambda u, a: 2 * u + a)
    u0 = jnp.array([1, 2])
    for n in (0, 1, 3):
        for inc in (False, True):
            r = ex.rollout(f, n, include_init=inc)(u0)
            exp, u = ([u0] if inc else []), u0
            for _ in range(n):
                u = f(u)
                exp.append(u)
            print("rollout", n, inc, r.shape[0] == len(exp) and all(bool(jnp.all(r[i] == exp[i])) for i in range(len(exp))))
            for const in (True, False):
                aux = jnp.array(5) if const else jnp.arange(n) + 10
                r = ex.rollout(fa, n, include_init=inc, takes_aux=True, constant_aux=const)(u0, aux)
                exp, u = ([u0] if inc else []), u0
                for i in range(n):
                    u = fa(u, 5 if const else 10 + i)
                    exp.append(u)
                print("   aux constant", const, r.shape[0] == len(exp) and all(bool(jnp.all(r[i] == exp[i])) for i in range(len(exp))))
        print("repeat", n, ex.repeat(f, n)(u0))
    t = jnp.arange(5)[:, None] * jnp.ones((1, 2))
    for m in range(1, 6):
        w = ex.stack_sub_trajectories(t, m)
        print("windows", m, w.shape, bool(all(jnp.all(w[i] == t[i:i + m]) for i in range(5 - m + 1))))


def c15_c17():
    for D in (1, 2, 3):
        for No in ((5, 6, 7, 8) if D < 3 else (5, 6)):
            L, K = 2.3, (No - 1) // 2
            ks = list(itertools.product(range(-K, K + 1), repeat=D))
            amp = rng.normal(size=(2, len(ks))) + 1j * rng.normal(size=(2, len(ks)))

            def f(x):
                out = 0
                for j, k in enumerate(ks):  # noqa: B023
                    ph = sum(2 * np.pi * k[d] * x[d] / L for d in range(D))  # noqa: B023
                    out = out + jnp.real(amp[:, j].reshape((2,) + (1,) * (x.ndim - 1)) * jnp.exp(1j * ph)[None])  # noqa: B023
                return out

            u = f(ex.make_grid(D, L, No))
            fi = ex.FourierInterpolator(u, domain_extent=L)
            x = jnp.array(rng.uniform(-L, 2 * L, size=D))
            e = float(jnp.abs(fi(x) - f(x.reshape((D,) + (1,) * D)).reshape(-1)).max())
            bad = []
            for Nn in range(max(3, No - 3), No + 4):
                v = ex.map_between_resolutions(u, Nn)
                if (Nn >= No or (Nn - 1) // 2 >= K) and float(jnp.abs(v - f(ex.make_grid(D, L, Nn))).max()) > 1e-9:
                    bad.append(Nn)
                if float(jnp.abs(v.mean(axis=tuple(range(1, D + 1))) - u.mean(axis=tuple(range(1, D + 1)))).max()) > 1e-12:
                    bad.append(("mean", Nn))
            print("C15", D, No, "interp err %.1e" % e, "bad resolution maps", bad)
    for D in (1, 2, 3):
        for N in ((5, 6, 8) if D < 3 else (5, 6)):
            u = noise(2, D, N)
            sp = ex.get_spectrum(u)
            uh = np.fft.fftn(np.asarray(u), axes=tuple(range(1, D + 1))) / N**D
            ks = np.fft.fftfreq(N, 1 / N)
            exp = np.zeros((2, N // 2 + 1))
            for idx in itertools.product(range(N), repeat=D):
                b = int(np.floor(np.linalg.norm([ks[i] for i in idx]) + 0.5))
                if b <= N // 2:
                    exp[:, b] += 0.5 * np.abs(uh[(slice(None),) + idx]) ** 2
            print("C17", D, N, float(np.abs(np.asarray(sp) - exp).max()))


def c20_shapes():
    N = 6
    for cls in stepper_classes():
        res = []
        for D in (1, 2, 3):
            sig = inspect.signature(cls.__init__)
            try:
                s = cls(D, 3.0, N, 0.1) if "domain_extent" in sig.parameters else cls(D, N)
            except Exception as e:  # noqa: BLE001
                res.append((D, "ctor:" + type(e).__name__))
                continue
            C = s.num_channels
            good = jnp.ones((C,) + (N,) * D) * 0.1
            bad = [jnp.ones((C + 1,) + (N,) * D), jnp.ones((2, C) + (N,) * D), jnp.ones((C,) + (N,) * (D - 1)),
                   jnp.ones((C,) + (N,) * (D - 1) + (N + 1,)), jnp.ones((C,) + (N + 2,) + (N,) * (D - 1)), jnp.ones((C,) + (N,) * D + (N,))]
            r = set()
            for b in bad:
                try:
                    s(b)
                    r.add("ACCEPT")
                except ValueError:
                    r.add("ValueError")
                except Exception as e:  # noqa: BLE001
                    r.add(type(e).__name__)
            res.append((D, s(good).shape == good.shape, r))
        print(cls.__name__, res)


ALL = {f.__name__: f for f in (c02_real_part, c04_xy, c12_kolmogorov, c18_ic, c01_linear_exact, c03_alias_free, c06_filter_vmap,
                               c07_derivatives, c08_symmetries, c09_c10, c11_c13_c16, c14_utils, c15_c17, c20_shapes)}

if __name__ == "__main__":
    for name in (sys.argv[1:] or list(ALL)):
        print("=====", name)
        ALL[name]()
