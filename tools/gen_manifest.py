#!/usr/bin/env python3
"""Regenerates /verif/MANIFEST.json from the table below (one entry per claimed property)."""
import json, os
HERE = os.path.dirname(os.path.dirname(os.path.abspath(__file__)))
props = [json.loads(l) for l in open(os.path.join(HERE, "properties.jsonl"))]
BASE_NOTE = ("Trusted: Coq 8.16.1 kernel (no native_compute; vm_compute only in Examples/finite sweeps); no axioms for theorems over the abstract field "
             "(Print Assumptions parsed every run; theorems at R would add the 3 stdlib real axioms); ExtrOcamlBasic extraction with Z/Q/Qc kept as datatypes + a Zarith I/O driver; "
             "the Python correspondence harness and its tolerances; JAX/NumPy primitives are modelled by contracts (rfftn/irfftn = DFT half-spectrum, scan = fold, exp). ")
CLAIMED = {
 "C16": dict(text="Theorems (any field of characteristic 0; order laws / root laws only as premises, shown satisfiable over Qc): the band mask is the documented box and consecutive bands add up to the "
                  "un-banded metric; channel additivity (spatial and Fourier, with and without reference); L-scaling (L/L')^D with (L'/L)^(2m) for derivative order m; homogeneity, scale-freeness of "
                  "the normalized / symmetric variants, zero on identical inputs, symmetry, positivity, option validation; Parseval: the conjugation-free bilinear identity, the half spectrum with "
                  "multiplicities for real sequences, and model fourier_agg = spatial_agg for D = 1 and every n; the Sobolev split and the H1 closed form (weights 1 + |2 pi k / L|^2); "
                  "Cauchy-Schwarz via the Lagrange identity, corr^2 = corr2, -1 <= corr <= 1, +-1 for proportional fields. The extracted metric model is compared in exact rationals with the "
                  "real functions (MSE/nMSE/sMSE, fourier_*, H1_*, correlation, mean_metric, scaling array, band mask). The mode logic of spatial_norm / fourier_norm, the spatial aggregator and the exponent "
                  "tables of the named metrics are re-translated from the source on every run (harness/translate/metrics.py) and proved to be the model's.",
             note="PARTIAL: Parseval is proved in every dimension for the D-fold iterate of the 1-D transform, both over the full spectrum and folded onto the stored half spectrum of a real field (Hermitian symmetry, multiplicities 1/2 on the last axis); the identification of the model's own index list and weights with that sum for D >= 2, and resolution independence, are decided on the real code only (independent NumPy quadrature, closed-form "
                  "trigonometric polynomials, map_between_resolutions). The absolute 1e-5 coefficient floor of fourier_aggregator is not modelled (statements are about spectra the floor leaves "
                  "untouched, as the property says); p = 1 metrics are witness-only; sqrt enters as an abstract root function.",
             technique="Rocq proof (field identities, lia on band arithmetic, 1-D DFT Parseval, Lagrange identity) + exact-rational correspondence + independent quadrature oracle", design="§4 C16"),
 "C06": dict(text="PARTIAL. Theorems (every state type, every stepper function / parameterised family, every n, every batch), under the stated contracts of the JAX transformations (vmap f = map f, "
                  "jit f = f, scan = fold, swapaxes = transpose): batch independence, replacing one member changes only that member, vmap(rollout f n) = transpose(rollout (vmap f) n), the same for "
                  "repeat and for families of steppers with per-member states. About the code: a table of EVERY Python-level test reachable from every exported stepper class "
                  "(Gen/Branches.v, regenerated on each run by a fail-closed call-graph translator: 36 classes, ~700 entries) is proved to contain no value-dependent test on any call path and only "
                  "isinstance-guarded ones on constructor paths.",
             note="Not provable in a model: that jax.jit / vmap / filter_vmap / scan meet those contracts on the exponax steppers (tracer leaks, concretisation inside library calls, XLA fusion changing "
                  "rounding). Decided on the real code: every exported class x {eager, filter_jit} x {single, vmap, filter_vmap over every float / float-tuple / array constructor argument} x rollout / "
                  "repeat nesting orders, to 1e-11 (this sweep found the FMA dealiasing-mask defect repaired in 462054c).",
             technique="Rocq proof (list induction on combinators; decision procedure over an AST-generated branch table) + exact combinator correspondence + jit/vmap sweep on the real code", design="§4 C06"),
 "C07": dict(text="PARTIAL. Theorems over any field of characteristic 0 with the model evaluated on dual numbers (forward-mode AD): sum / product / quotient / power rules and soundness for every polynomial "
                  "expression; chain rule through compositions and n-fold iterates (repeat / rollout entries); linear steppers (and the wave step): the Jacobian is the map itself after any n steps, "
                  "central differences are exact, derivative w.r.t. dt and the symbol; prod2 / prod3 are bi- / trilinear with the product rule, central differences of quadratic maps are exact and "
                  "of cubic maps off by exactly h^2 T(v,v,v); diagonal multipliers are self-adjoint and adjoints compose in reverse; state derivative of ETD1/ETD2RK/ETD3RK/ETD4RK stage by stage "
                  "(instance: Burgers step). The extracted dual-number model is compared with jax.jvp of the real symbols and nonlinear functions at every stored mode.",
             note="Not proved: JAX's AD rules themselves, reverse mode through lax.scan, NaN-safety of guarded divisions, derivatives w.r.t. dt / coefficients through the contour-integral phi "
                  "functions. Decided on the real code for every exported class: jvp vs central-difference ladder with h^2 convergence, vjp/jvp dot test, finiteness at zero / constant / harmonic "
                  "states and vanishing symbols, every float coefficient entry and dt (reverse vs forward), through rollout / repeat / RepeatedStepper.",
             technique="Rocq proof (dual-number algebra, structural induction, multilinearity) + extracted dual-number model vs jax.jvp + finite-difference / dot-test oracle", design="§4 C07"),
 "C18": dict(text="Theorems (any field; order laws and sqrt / power only as premises): normalize_ic gives exactly zero mean, unit (population) std, unit max|.| on non-constant fields; clamping reaches both "
                  "limits; scaling; the truncated Fourier series has mean = offset for every D and N (D-dimensional inverse DFT from a primitive root; the repaired DC := offset defect gives offset/N^D), "
                  "content confined to the cutoff; Gaussian-random-field amplitude law; channel / spatial shapes of all generators and wrappers incl. the Discontinuity mask (the old mask gives D "
                  "channels); function form = sampled form; option validation and call guards characterised (iff). Gen/ICGen.v and the guards are re-translated from exponax/ic on every run and "
                  "proved equal to the hand model (Tie/ICTie.v).",
             note="The PRNG (determinism, key splitting) and finiteness are checked on the real code only; sqrt and real powers are symbolic. KNOWN FINDING (not repaired, listed in known_findings.json): "
                  "RandomDiscontinuities with max_one / std_one or clamping returns NaN for draws whose boxes contain no grid point (constant field, outside the premise of the normalisation theorems).",
             technique="Rocq proof (field identities, D-dimensional DFT orthogonality, iff characterisation of guards) on an AST-translated model + exact-rational correspondence + contract sweep on the real code", design="§4 C18"),
 "C08": dict(text="Theorems: the shift theorem (any field with a primitive root); the pseudo-spectral products (quadratic and cubic, any D, N, band) commute with every character twist "
                  "(chi(m) chi(wrap(k-m)) = chi(k)), hence so do the nonlinear terms (proved for both single-channel convection forms and the gradient norm; the other terms are the same combinators); "
                  "every ETDRK order 0-4 (stage programs translated from the source) commutes with any mode-wise multiplier the nonlinear term commutes with - for ALL states; the generic symbol is "
                  "permutation invariant and reduces to the 1-D symbol with a_0 -> D a_0 on states constant along the other axes (D <= 3). Permutation equivariance is also proved for the single-channel terms as regenerated from the source (harness/translate/nonlin.py).",
             note="Translation equivariance of all 36 classes, axis permutations (vector channels permuted along, vorticity pseudo-scalar sign, Nyquist-free states for odd-order symbols on even grids) and "
                  "1-D embedding along every axis are checked on the real code (incl. N = 32 where the dealiasing cutoff is fractional and odd N); permutation equivariance of the pseudo-spectral product and of the scalar isotropic terms (single-channel convection, gradient norm) is now proved for every axis "
                  "permutation and every D; and for the multi-channel convection (both forms, channels permuted along with the axes).",
             technique="Rocq proof (character-twist algebra of circular convolutions, stage-program equivariance) + symmetry sweep on the real code", design="§4 C08"),
 "C15": dict(text="Theorems: trigonometric interpolation is exact (any field with a primitive root, any n, any query point: the character table is arbitrary) and reproduces every state at its grid points "
                  "(inversion theorem); the copied mode blocks partition the smaller grid and preserve the signed wavenumber for all parity combinations; the resampling model keeps the mean of ANY "
                  "state and all coefficients u_hat(k)/N^D of a Nyquist-free band-limited state when mapped to a finer grid or a coarser one that resolves it (any D, n, m, oddball setting). The model's "
                  "kept-set and values are compared with the spectrum of map_between_resolutions for every (N_old, N_new) pair; the decisions of map_between_resolutions (early return, mask conditions, "
                  "copied block size, scaling modes) are re-translated from the source on every run (harness/translate/resample.py, all other statements compared as text) and proved to be the model's.",
             note="The theorem on interpolation is the full complex spectrum statement (1-D, and every dimension D for the iterated transform); the half-spectrum real form with reconstruction weights (and indexing='xy') is checked on the real code, "
                  "including white noise on even grids at the grid points and query points outside the domain.",
             technique="Rocq proof (DFT theory from a primitive root, lia on the slice arithmetic, field identities) + correspondence of the resampled spectra", design="§4 C15"),
 "C11": dict(text="Theorems (complex numbers over any ordered field; the order laws are premises, satisfiable over Q): for real coefficients and real wavenumbers in any dimension the advection / "
                  "dispersion symbols are purely imaginary, the order-2 / order-4 Laplace symbols are -sum kappa^2 / +sum kappa^4 (real), so diffusion and hyper-diffusion with non-negative "
                  "coefficients have non-positive real part; a mode multiplied by E with |E|^2 <= 1 does not grow (equality for |E|^2 = 1); the Parseval-weighted sum over all modes is monotone; the "
                  "real inverse transform contracts (|Re c| <= |c|); the wave stepper conserves |v|^2 + (c rho)^2 |h|^2 per mode. Symbols tied to the code by exact correspondence at every stored mode. The real-part statements are also proved for the symbols as regenerated from the source (Advection, Dispersion, HyperDiffusion, scalar Diffusion; harness/translate/linops.py).",
             note="|exp z| = exp(Re z) is used, not proved; the end-to-end statement (mode factors of modulus <= 1 on the stored half spectrum of a real field => the discrete L2 norm does not grow, = 1 => preserved) is proved in every dimension with Parseval on the stored half spectrum (Steppers/L2Stability.v); full-matrix diffusion sign (kappa^T A kappa >= 0 for SPD A) is checked on the real code "
                  "(white noise, strong off-diagonals, dt up to 1e6, every single mode), as are exact norm / wave-energy preservation.",
             technique="Rocq proof (ordered-field reasoning on sums, complex modulus algebra) + exact symbol correspondence + norm oracle on the real code", design="§4 C11"),
 "C17": dict(text="Theorems: bin b collects exactly the modes with (2b-1)^2 <= 4|k|^2 < (2b+1)^2 (b = round|k|, half-open bins), bins are disjoint, every mode inside the Nyquist sphere lies in exactly one "
                  "bin 0..N/2 and modes outside in none (all N, D, k; integer square-root argument); 4|k|^2 is never an odd square, so the floating comparison cannot sit on a boundary; the amplitude "
                  "quantity of a stored mode of a cos is a and the power weights are the Parseval weights wgt|u_hat|^2/(2N^2D). Whole spectra (power/amplitude x sum/average, multi-channel) are "
                  "compared with the extracted model on every run (exact rationals on float magnitudes). The per-mode quantity, the scaling modes and the bin limits of get_spectrum are re-translated from "
                  "the source on every run (harness/translate/spectrum.py; the rest of the function is compared as text) and proved to be the model's.",
             note="The Parseval identity itself (sum over stored modes with the multiplicities 1/2 = N^D sum of squares) is proved for real fields in every dimension in the C16 development (Metrics/ParsevalRealD.v) and checked on the real code; |.| of the FFT is an input "
                  "of the model (sqrt is not modelled).",
             technique="Rocq proof (integer arithmetic incl. Z.sqrt, field identities) + exact correspondence of whole spectra", design="§4 C17"),
 "C19": dict(text="PARTIAL (what is logic is proved, IEEE/XLA behaviour is decided on the real code). Theorems over any field (complex over any formally real field for the axes): every ETDRK "
                  "coefficient integrand (translated from the source) divides only by powers of lr = z + r w_j and returns a value iff lr <> 0 (partial-division semantics); the contour points are "
                  "roots of -1, so lr <> 0 for every real z (M even) and purely imaginary z (4 | M); orders 0-4 map the zero state to zero when N(0)=0 for arbitrary coefficient arrays, and to the "
                  "stated forcing combination otherwise; the M-point contour mean is exact on polynomials of degree < M; at lambda = 0 the stage programs with phi_k(0)=1/k! are Euler/Heun/Kutta/RK4.",
             note="Not provable in an exact-arithmetic model: overflow of intermediates up to |z| = 1e15, XLA complex division/exp, dtype promotion, float32-vs-float64 distance. These are decided by a "
                  "float32 and a float64 subprocess over all 36 stepper classes x orders 0-4 x a stiffness ladder (calibrated tolerance, factor 25 slack). The contour remainder at z=0 is measured, not proved.",
             technique="Rocq proof (field identities, formal reality, polynomial exactness of the contour rule) on AST-translated coefficients + two-precision runtime check", design="§4 C19"),
 "C09": dict(text="Theorems (any field, any D, any state): the mean is the zero mode of the transform; every conservation-form linear symbol vanishes at the mean mode; the mean-mode coefficient of "
                  "conservative convection (multi- and single-channel), mean-fixed gradient norm and Cahn-Hilliard vanishes for every input; hence every ETDRK order 0-4 (stage programs translated "
                  "from the source) leaves the mean unchanged; every constant equilibrium (lambda u + N(u) = 0) is a fixed point of ETD1/ETD2RK/ETD3RK/ETD4RK for every h. Zero mean is also proved for the nonlinear terms as regenerated from the source (single-channel convection, gradient norm, 2D vorticity convection; harness/translate/nonlin.py). The single-channel convection as regenerated from the source is also proved to do no work on its own band-limited state.",
             note="PARTIAL: also proved (antisymmetry of the dealiased convolution sums under m -> -m, any field of characteristic 0, 2K < N): zero mean of the non-conservative single-channel and 1D "
                  "default convection and of the 2D vorticity convection for every state, and of the Leray-projected 3D rotational form on divergence-free states. Work: with the dealiased products and 3K < N the "
                  "single-channel Burgers-type convection (both forms) does no work on its state and the 2D vorticity convection none against vorticity (enstrophy) or stream function (energy), "
                  "for every state (slot symmetry of triple sums over the band + additivity of derivative symbols). The Leray-projected 3D rotational form does no work on divergence-free states. Not proved: that the implementation's real-space L2 pairing is this bilinear band pairing (Parseval, C16/C17) and rounding; all of the above are also checked on the real code by the witness oracle for all listed steppers x orders 1-4 x D x N parity.",
             technique="Rocq proof (stage-program algebra, list induction; tableaux fixed points) + exact symbol correspondence + conservation oracle on the real code", design="§4 C09"),
 "C12": dict(text="Theorems: for 0<k<N/2 the 2D injection array equals N^2/2 * (-k s gamma) at stored mode (0,k) and 0 elsewhere, the 3D one N^3/2 * (-/+ i gamma) at (0,+/-k,0) in channel 0 and 0 elsewhere "
                  "- the transforms of the documented -k(2pi/L)gamma cos and gamma sin (transform of a real harmonic proved from a primitive root); the 2D convection term vanishes identically on "
                  "the laminar subspace; on it every ETD tableau is u' = E u + h phi1 f and n steps from rest give f (E^n - 1)/lambda; ForcedStepper laws. Injection arrays compared element-wise "
                  "(exact rationals) for all admissible modes, N parity, several L; the constructors of the two Kolmogorov nonlinear functions are executed symbolically on every run "
                  "(harness/translate/spectral.py) and the resulting arrays proved equal to the injection model at every stored index. On the laminar subspace the source text of both Kolmogorov nonlinear functions (harness/translate/nonlin.py) is proved to return exactly its forcing array.",
             note="The 3D laminar subspace is now proved as well (u x curl u = grad(u_0^2/2) on states (u_0(x_1),0,0), removed by the Leray projection, mean by antisymmetry); laminar solutions of both Kolmogorov steppers and the generic vorticity stepper are checked "
                  "against the closed form on the real code for orders 1-4, L != 2 pi, modes above the dealiasing cutoff.",
             technique="Rocq proof (case analysis on the masks, tableau algebra, induction on n) + exact correspondence of the injection arrays", design="§4 C12"),
 "C05": dict(text="Theorems (any field of characteristic 0 with i^2=-1; every order n, every wavenumber list): the derivative multiplier and gradient-axis placement, Laplace operator of order 2n = "
                  "(-1)^n sum kappa^(2n), gradient inner product of order 2n+1 = i (-1)^n sum v kappa^(2n+1), order 0 = 1, parity guards (translated from the source); the Poisson solver returns "
                  "lam*u = -f where the symbol lam is non-zero and 0 where it vanishes; over a formally real field the order-2 symbol vanishes exactly at the mean mode. Operator arrays, "
                  "Poisson._inv_operator/step_fourier compared with the extracted model at every stored mode in exact rationals (incl. L = 1e5 and 1e-3). build_derivative_operator / "
                  "build_scaled_wavenumbers are re-translated from the source on every run and proved to be i (2 pi / L) k_c with k_c the layout's signed wavenumber (any D, both indexings); "
                  "Poisson.__init__ / step_fourier are re-translated as well and proved equal to the Poisson model with the Laplace symbol of the requested order.",
             note="Symbol calculus for exponentials and the rfftn/irfftn contract (C04) are used; ex.derivative and Poisson are additionally checked against analytic derivatives/solutions of random "
                  "Nyquist-free trigonometric polynomials on the real code.",
             technique="Rocq proof (ring/field identities, formal reality; derivative operator regenerated from the source by an AST translator) + exact-rational operator correspondence", design="§4 C05"),
 "C10": dict(text="Theorems (any field of characteristic 0, D = 2, 3, every mode, every input): the Leray projection has zero divergence wherever the Laplace symbol is non-zero, is idempotent, fixes "
                  "divergence-free fields and is the identity at the mean mode; make_incompressible equals it at every mode (premise: Laplace symbol vanishes only where d = 0, proved for real "
                  "wavenumbers over a formally real field, hence independent of L); every ETDRK order 0-4 (stage programs translated from the source) maps divergence-free states to divergence-free "
                  "states when the nonlinear term is divergence free and the coefficient arrays are channel-independent. Leray / make_incompressible compared with the extracted model at every stored mode; "
                  "the per-mode arithmetic of make_incompressible is re-translated from the source on every run (harness/translate/linops.py) and proved equal to the model, hence divergence free; "
                  "the source text of ProjectedConvection3d (harness/translate/nonlin.py) is proved to return a divergence-free field for every input.",
             note="That ProjectedConvection3d is divergence free for every input is now a theorem about the regenerated source text; for the Kolmogorov variant (projection, then the forcing array, which is divergence free by C12) it "
                  "is checked on the real code with white noise, as is preservation over rollouts for several L (incl. L = 20).",
             technique="Rocq proof (field identities per mode, linearity of the stage programs) + exact-rational correspondence", design="§4 C10"),
 "C03": dict(text="Theorems for every D, N, state and field of characteristic 0: the dealiasing cutoffs satisfy 3K<N (2/3 rule) and 4K<N (1/2 rule) for all N; with (q+2)K<N the pseudo-spectral "
                  "product (circular convolution on the N-grid) equals the alias-free product on the retained band and vanishes outside it (index argument, any dimension); hence each built-in "
                  "term (4 convection forms, gradient norm, polynomial<=3, general nonlinear, 2D vorticity, 3D projected + Leray, Cahn-Hilliard, Gray-Scott) equals the documented operator applied to "
                  "the band-truncated state; the convolution theorem from a primitive root (every D). The terms of all 13 nonlinear-function classes are re-translated from the source on every run (harness/translate/nonlin.py, "
                  "fail-closed, closed over the package) and proved equal to the term models, the cutoff of the dealiasing mask is re-translated as well (harness/translate/dealias.py) and proved equal to the model cutoff; the models are also run (extracted, exact Gaussian rationals, sparse band convolutions) against "
                  "every exponax nonlinear function on random states with content up to Nyquist.",
             note="The retained band is read from the implementation's mask (floor of frac*(N//2)-1 in double precision, which can be one below the rational cutoff); the theorems need only K <= K(N), "
                  "which the check verifies for N up to 260. The whole chain is proved in every dimension D: for the D-fold iterate of the 1-D transform (the rfftn/irfftn contract) the convolution theorem, the identification of the full-grid circular convolution of band-masked spectra with the model's band sum (stored index <-> signed wavenumber), hence fft(ifft U * ifft V) restricted to the band = prod2 U V, and prod2 = the alias-free documented product for 3K < N. Polynomial degree > 3 not modelled. Independent NumPy fine-grid oracle as witness.",
             technique="Rocq proof (lia/nia index argument for alias-freeness, lifting over term combinators) + exact-rational term correspondence", design="§4 C03"),
 "C04": dict(text="Theorems: (Z arithmetic, all N) the stored index <-> signed wavenumber map is a bijection onto the band and congruent to the index mod N; mode-slice blocks partition "
                  "the leading axes and preserve the signed wavenumber when copied to a finer grid; oddball mask spec; both indexing options give wavenumber_shape with the rfft component on the "
                  "last array axis and components aligned with the grid (D<=3); wrap_bc. (Any field with a primitive n-th root, all n) orthogonality, idft.dft = id for every state, a sampled "
                  "character appears in exactly the named mode with value n*c, shift theorem, convolution theorem. The integer layout model is compared element by element with "
                  "build_wavenumbers/scaling arrays/masks/slices/wrap_bc/make_grid on every run. The layout functions of _spectral.py (wavenumber_shape, spatial_shape, "
                  "space_indices, build_wavenumbers ij/xy, both low-pass masks, the oddball mask, _build_scaling_array and the three public modes, the three slices of get_modes_slices) and make_grid "
                  "are re-translated from the source on every run (harness/translate/spectral.py: symbolic execution with callees inlined, fail-closed) and proved equal to the layout model "
                  "for every D, N, cutoff and stored index.",
             note="jnp.fft.rfftn/irfftn are trusted to be the D-fold iterate of the 1-D DFT restricted to the half spectrum (checked against a brute-force DFT); the magnitude/phase read-off "
                  "through the scaling arrays is checked on the real code for every wavenumber vector of the layout (witness), the scaling model itself is tied by exact correspondence.",
             technique="Rocq proof (lia/nia on the integer layout; field-theoretic DFT theory from a primitive root; layout functions regenerated from the source by an AST translator and proved equal to the model) + exhaustive exact correspondence", design="§4 C04"),
 "C01": dict(text="Theorems over any field of characteristic 0 with an abstract exponential (exp(a+b)=exp a exp b, exp 0=1): the symbol each linear stepper builds is the symbol of its DOCUMENTED "
                  "operator (deep embedding of constant-coefficient operators; advection, full-matrix diffusion, both dispersion / hyper-diffusion variants, generic list; D<=3); order 0 multiplies "
                  "mode k by exp(dt*lambda_k) (translated from the source); n steps = one step with n*dt and -dt undoes dt for every state, dt, n; the wave stepper's diagonalisation is the exact "
                  "oscillator solution incl. the mean mode. The per-mode symbols of ALL 25 stepper classes and of the two operator helpers are re-translated from the source on every run "
                  "(harness/translate/linops.py, fail-closed, closed over the package) and proved equal to the symbol model for all coefficients, flags and dimensions; Wave.step_fourier is re-translated as a whole "
                  "for one mode (harness/translate/wave.py) and equals the wave model; symbol and wave models are "
                  "also compared with the real code at every stored mode (exact rationals).",
             note="The symbol calculus rule d/dx e^{ikx} = ik e^{ikx} and 'stored mode k carries e^{i kappa_k x}' (C04) are used, not re-proved here; jnp.exp trusted; analytic oracle on the real code "
                  "for all modes below Nyquist on small grids, superpositions, dt up to 1e3, negative dt.",
             technique="Rocq proof (ring identities on a deep embedding of the documented PDEs, induction for the semigroup) + exact-rational symbol correspondence", design="§4 C01"),
 "C13": dict(text="Theorems over any field of characteristic 0: the 16 conversion functions (re-translated from generic/_utils.py on every run) are mutual inverses and equal the documented "
                  "formulas; dt*symbol_{L,a}(k) = symbol_{1,alpha}(k) at every mode for every coefficient list; rescaling invariance of the groups; every ETD tableau depends on (h,N) only "
                  "through h*N; the linear symbol of each concrete stepper equals the generic symbol with the equivalent coefficient list (D<=3). The hand-written symbol model is compared with "
                  "the real _build_linear_operator of every class at every stored mode in exact rational arithmetic. The super().__init__ chains of all Normalized* / Difficulty* constructors are "
                  "re-translated from the source on every run (harness/translate/wiring.py, closed over stepper/generic) and proved to be: Normalized = General on the unit domain with unit step, "
                  "Difficulty = Normalized after the extract_* conversion, simple difficulty = `order` zeros then the value; `_build_nonlinear_fun` of every stepper class is re-translated as well "
                  "(harness/translate/buildnl.py) and each specific stepper proved to build the same nonlinear-function configuration as its generic counterpart. The normalisation of the nonlinear scales (b -> b s, b s^2) is also proved for the terms as regenerated from the source.",
             note="The scaling of the built-in single-channel convection and gradient-norm terms with 1/L (beta_1 = b dt/L, beta_2 = b dt/L^2) is proved at term level (Nonlin/Scales.v) and at tableau level (h*N); the multi-channel and vorticity forms are checked on the real code by the witness "
                  "(general vs normalized vs difficulty steppers, rescalings, orders 0-4). Empty-tuple IndexError of reduce/extract is totalised in the model.",
             technique="Rocq proof (field identities, list induction) on AST-translated conversion functions + exact-rational symbol correspondence", design="§4 C13"),
 "C20": dict(text="Theorems (all shapes, all D/N/C, all flag combinations) that each rejection predicate is true exactly on the documented-invalid inputs: stepper / repeated-stepper "
                  "calls accept iff shape = (C, N,...,N); Poisson iff trailing axes = (N,)*D; operator parity; dimension-restricted steppers and nonlinear terms; channel guards; "
                  "option validation of generators/metrics; stack_sub guards. The predicates (Gen/Guards.v) are re-translated from /repo's `if ...: raise` guards on every run and "
                  "compared (extracted) with raise/no-raise of the real code over every exported stepper class x D x malformed shapes.",
             note="Only shapes and flags are modelled (array contents are irrelevant to the guards); IndexError on rank-0 inputs is not modelled. Registry of classes is enumerated from the package exports at run time.",
             technique="Rocq proof (iff characterisation of guard predicates) on an AST-translated model + exhaustive raise/no-raise correspondence", design="§4 C20"),
 "C02": dict(text="Theorems over ANY field of characteristic 0 (so: real, imaginary, complex, arbitrarily stiff z != 0): every ETDRK coefficient integrand of the code equals the "
                  "Cox-Matthews phi-function expression, each step_fourier stage program equals the ETD1/ETD2RK/ETD3RK/ETD4RK tableau applied to an arbitrary extensional nonlinear term, "
                  "order 0 is the linear propagation, order dispatch, no .real truncation, half-shifted contour, stiff order conditions. The subject (Gen/ETDRK.v) is re-translated from "
                  "/repo's etdrk/*.py by a fail-closed AST translator on every run and also run (extracted, exact Gaussian rationals) against the JAX coefficient arrays and step_fourier.",
             note="Not proved: the quadrature error of the 16-point contour mean (incl. z=0) and the O(dt^p) convergence theorem; both are measured (phi-tableau oracle over a z cover to -1e9, dt-halving rates). jnp.exp trusted.",
             technique="Rocq proof (field identities, stage-program equivalence) on an AST-translated model + exact correspondence", design="§4 C02"),
 "C14": dict(text="Theorems (unbounded in n, state type, stepper function, window length) about a hand-written Gallina model of rollout/repeat/stack_sub_trajectories/"
                  "RepeatedStepper; the model is tied to the code by exact correspondence (extracted model vs JAX on integer bookkeeping steppers) on every run, plus a naive-loop oracle on the real code; "
                  "rollout, repeat (with / without aux, all flags), stack_sub_trajectories and RepeatedStepper / ForcedStepper are additionally re-translated from the source on every run (harness/translate/utilsfn.py, "
                  "fail-closed) and proved equal to the model for every state type, step function, n, flag and auxiliary argument.",
             note="Model of lax.scan/tree_map/dynamic_slice is a contract (fold/list cons/clamped slice); RepeatedStepper theorem assumes the rfftn.irfftn round trip on the reachable spectra (Nyquist-compatible states).",
             technique="Rocq proof (induction over n / lists; utilities regenerated from the source by an AST translator and proved equal to the model) + exact model-vs-code correspondence", design="§4 C14"),
}
checks, na = [], []
for p in props:
    pid = p["id"]
    if pid in CLAIMED:
        c = CLAIMED[pid]
        checks.append(dict(property_id=pid, quick_cmd=f"./vcheck {pid} --tier quick", thorough_cmd=f"./vcheck {pid} --tier thorough",
                           evidence_file=f"/verif/evidence/{pid}.json", replay_cmd_template="./vcheck replay {path}", engine="rocq-model",
                           level_claimed=dict(category="proof", text=c["text"], design_ref=c["design"]),
                           level_note=BASE_NOTE + c["note"], technique=c["technique"]))
    else:
        na.append(dict(property_id=pid, reason="check not built yet in this development (planned, see DESIGN.md section 8); not claimed until its theorems and correspondence exist"))
man = dict(version=1,
           setup_cmd="./vcheck setup",
           hooks=dict(guard="EXPONAX_VERIF", enable="no source hooks are needed: checks import /repo's working tree directly (PYTHONPATH=/repo) and re-translate its sources",
                      baseline_off_cmd="cd /repo && /venv/bin/python -m pytest -ra -q -p no:cacheprovider --timeout=900 --continue-on-collection-errors",
                      source_commits=[], add_only=True),
           engines=[dict(name="rocq-model", path="/verif/coq", serves_properties=[c["property_id"] for c in checks],
                         kind_free_text="Coq 8.16 development (model + theorems), AST translators to coq/theories/Gen, extracted OCaml model run against JAX by harness/")],
           checks=checks, not_applicable=na,
           notes="Repairs of genuine defects are unguarded 'fix:' commits in /repo, listed as fixed in known_findings.json.")
json.dump(man, open(os.path.join(HERE, "MANIFEST.json"), "w"), indent=1)
print("claimed", [c["property_id"] for c in checks])
