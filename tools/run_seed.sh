#!/bin/bash
# run_seed.sh <seed-name> [tier]: apply /verif/seeded/<name>/patch.diff to /repo, run the property's check, record the outcome
# in meta.json (caught_by / detection), and undo the change straight afterwards.
NAME=$1; TIER=${2:-quick}
D=/verif/seeded/$NAME
PID=$(python3 -c "import json;print(json.load(open('$D/meta.json'))['property'])")
cd /verif
git -C /repo diff --quiet || { echo "/repo is dirty"; exit 2; }
cp /verif/evidence/$PID.json /tmp/evidence_$PID.bak 2>/dev/null
git -C /repo apply $D/patch.diff || exit 2
timeout 1500 ./vcheck $PID --tier $TIER > /tmp/seedrun_$NAME.log 2>&1; RC=$?
git -C /repo checkout -- . ; git -C /repo clean -fdq -- exponax
cp /tmp/evidence_$PID.bak /verif/evidence/$PID.json 2>/dev/null
LINE=$(grep -m1 "^VIOLATION" /tmp/seedrun_$NAME.log)
python3 - <<PY
import json
f="$D/meta.json"; m=json.load(open(f))
m.setdefault("detection",{})["$TIER"]=dict(exit=$RC, line="""$LINE""".strip())
m["caught_by"]=[t for t,v in m["detection"].items() if v["exit"]==1]
json.dump(m,open(f,"w"),indent=1)
print("$NAME","$TIER","exit",$RC,"""$LINE""".strip())
PY
