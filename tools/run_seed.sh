#!/bin/bash
# run_seed.sh <seed-name> [tier]: apply /verif/seeded/<name>/patch.diff to /repo, run the property's check, record the outcome
# in meta.json (caught_by / detection), and undo the change straight afterwards.
NAME=$1; TIER=${2:-quick}
V=$(cd "$(dirname "$0")/.." && pwd)            # the verif tree this script lives in (a vp-run snapshot or /verif)
R=${VERIF_REPO:-/repo}
D=$V/seeded/$NAME
PID=$(python3 -c "import json;print(json.load(open('$D/meta.json'))['property'])")
cd $V
git -C $R diff --quiet || { echo "$R is dirty"; exit 2; }
cp $V/evidence/$PID.json /tmp/evidence_$PID.$$.bak 2>/dev/null
git -C $R apply $D/patch.diff || exit 2
timeout 1500 ./vcheck $PID --tier $TIER > /tmp/seedrun_$NAME.$$.log 2>&1; RC=$?
git -C $R checkout -- . ; git -C $R clean -fdq -- exponax
cp /tmp/evidence_$PID.$$.bak $V/evidence/$PID.json 2>/dev/null; rm -f /tmp/evidence_$PID.$$.bak
LINE=$(grep -m1 "^VIOLATION" /tmp/seedrun_$NAME.$$.log); rm -f /tmp/seedrun_$NAME.$$.log
python3 - <<PY
import json
f="$D/meta.json"; m=json.load(open(f))
m.setdefault("detection",{})["$TIER"]=dict(exit=$RC, line="""$LINE""".strip())
m["caught_by"]=[t for t,v in m["detection"].items() if v["exit"]==1]
json.dump(m,open(f,"w"),indent=1)
print("$NAME","$TIER","exit",$RC,"""$LINE""".strip())
PY
