#!/usr/bin/env python3
"""print python source files with docstrings and blank lines removed (reading aid)"""
import ast, sys
for fn in sys.argv[1:]:
    src = open(fn).read()
    tree = ast.parse(src)
    drop = set()
    for node in ast.walk(tree):
        if isinstance(node, (ast.FunctionDef, ast.ClassDef, ast.Module, ast.AsyncFunctionDef)):
            b = node.body
            if b and isinstance(b[0], ast.Expr) and isinstance(getattr(b[0], 'value', None), ast.Constant) and isinstance(b[0].value.value, str):
                for l in range(b[0].lineno, b[0].end_lineno + 1):
                    drop.add(l)
    print(f"##### {fn}")
    for i, line in enumerate(src.splitlines(), 1):
        if i in drop or not line.strip() or line.strip().startswith('#'):
            continue
        print(f"{i}:{line}")
