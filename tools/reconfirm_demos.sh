#!/bin/bash
# reconfirm_demos.sh: for every stored seed, check on the CURRENT /repo HEAD (in a scratch worktree) that the patch applies and its demo still fails
# with the change and passes without it; records {head, applies, demo_with_change, demo_unchanged} under "reconfirmed" in meta.json.
WT=/tmp/reconfirm_wt
git -C /repo worktree remove --force $WT 2>/dev/null
git -C /repo worktree add -q --detach $WT HEAD || exit 2
HEAD=$(git -C /repo rev-parse --short HEAD)
for d in /verif/seeded/*/; do
  n=$(basename $d)
  cd $WT && git checkout -q -- . && git clean -fdq
  PYTHONPATH=$WT JAX_PLATFORMS=cpu timeout 900 /venv/bin/python $d/demo.py > /dev/null 2>&1; C=$?
  git apply $d/patch.diff 2>/dev/null; A=$?
  PYTHONPATH=$WT JAX_PLATFORMS=cpu timeout 900 /venv/bin/python $d/demo.py > /dev/null 2>&1; M=$?
  python3 - <<PY
import json
f="$d/meta.json"; m=json.load(open(f))
m["reconfirmed"]=dict(head="$HEAD", applies=($A==0), demo_unchanged=$C, demo_with_change=$M, still_breaks=($A==0 and $C==0 and $M!=0))
json.dump(m,open(f,"w"),indent=1)
print("$n", "ok" if m["reconfirmed"]["still_breaks"] else "OBSOLETE/PROBLEM", $A, $C, $M)
PY
done
cd /; git -C /repo worktree remove --force $WT
