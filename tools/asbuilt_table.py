#!/usr/bin/env python3
"""Prints a markdown table (one row per property) from the Props files and the evidence of the last runs: theorems, tie, cases, time."""
import json, os, re
H = os.path.dirname(os.path.dirname(os.path.abspath(__file__)))
def _translators(pid):
    import os, re as _re
    src = open(os.path.join(os.path.dirname(os.path.dirname(os.path.abspath(__file__))), "harness", "props", pid.lower() + ".py")).read()
    names = sorted(set(_re.findall(r"from \.\.translate import (\w+) as", src)))
    return ", ".join(names) if names else "-"


class _T(dict):
    def get(self, k, d=None):
        return _translators(k)


TRANSLATORS = _T()
print("| property | theorems | translators (regenerated each run) | correspondence cases | witness cases | quick wall time |")
print("|---|---|---|---|---|---|")
for i in range(1, 21):
    pid = f"C{i:02d}"
    text = open(os.path.join(H, "coq/theories/Props", pid + ".v")).read()
    nth = len(re.findall(r"^\s*Theorem\s", text, re.M))
    try:
        ev = json.load(open(os.path.join(H, "evidence", pid + ".json")))
        c = ev["coverage"]
        print(f"| {pid} | {nth} | {TRANSLATORS.get(pid, '-')} | {c.get('correspondence_cases')} | {c.get('witness_cases')} | {ev['wall_s']:.0f} s ({ev['tier']}) |")
    except Exception as e:
        print(f"| {pid} | {nth} | {TRANSLATORS.get(pid, '-')} | ? | ? | ? |")
