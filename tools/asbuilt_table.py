#!/usr/bin/env python3
"""Prints a markdown table (one row per property) from the Props files and the evidence of the last runs: theorems, tie, cases, time."""
import json, os, re
H = os.path.dirname(os.path.dirname(os.path.abspath(__file__)))
TRANSLATORS = {"C01": "etdrk, linops", "C02": "etdrk", "C03": "nonlin", "C06": "branches", "C09": "etdrk", "C13": "genutils", "C18": "icgen, guards", "C19": "etdrk", "C20": "guards", "C16": "guards"}
print("| property | theorems | translators (regenerated each run) | correspondence cases | witness cases | quick wall time |")
print("|---|---|---|---|---|---|")
for i in range(1, 21):
    pid = f"C{i:02d}"
    text = open(os.path.join(H, "coq/theories/Props", pid + ".v")).read()
    nth = len(re.findall(r"^\s*Theorem\s", text, re.M))
    try:
        ev = json.load(open(os.path.join(H, "evidence", pid + ".json")))
        c = ev["coverage"]
        print(f"| {pid} | {nth} | {TRANSLATORS.get(pid, '-')} | {c.get('correspondence_cases')} | {c.get('witness_cases')} | {ev['wall_s']:.0f} s ({ev['tier']}) |")
    except Exception as e:
        print(f"| {pid} | {nth} | {TRANSLATORS.get(pid, '-')} | ? | ? | ? |")
