#!/bin/bash
# confirm_seed.sh <property> <seed-name> <dir-with patch.diff demo.py notes.md>
# Confirms, in a scratch worktree of /repo, that the seeded change (a) applies, (b) keeps the pinned test suite at baseline,
# (c) makes demo.py fail, (d) demo.py passes without it.  Writes /verif/seeded/<seed-name>/{patch.diff,demo.py,notes.md,meta.json}.
set -u
PID=$1; NAME=$2; SRC=$3
WT=/tmp/confirm/$NAME
OUT=/verif/seeded/$NAME
mkdir -p /tmp/confirm $OUT
cp $SRC/patch.diff $SRC/demo.py $OUT/ 2>/dev/null; cp $SRC/notes.md $OUT/notes.md 2>/dev/null
git -C /repo worktree add -q --detach $WT HEAD || exit 2
cd $WT
export PYTHONPATH=$WT JAX_PLATFORMS=cpu
/venv/bin/python $OUT/demo.py > $OUT/.demo_clean.log 2>&1; DEMO_CLEAN=$?
git apply $OUT/patch.diff; APPLY=$?
/venv/bin/python $OUT/demo.py > $OUT/.demo_mut.log 2>&1; DEMO_MUT=$?
/venv/bin/python -m pytest -q -p no:cacheprovider --timeout=900 -n 4 > $OUT/.suite.log 2>&1
SUITE_LINE=$(tail -1 $OUT/.suite.log)
FAILED=$(grep -E "^FAILED" $OUT/.suite.log | sed 's/ - .*//; s/^FAILED //' | sort | tr '\n' ';')
cd /; git -C /repo worktree remove --force $WT
HEAD=$(git -C /repo rev-parse --short HEAD)
python3 - <<PY
import json
meta=dict(property="$PID", name="$NAME", repo_head="$HEAD",
  applies=($APPLY==0), demo_exit_unchanged=$DEMO_CLEAN, demo_exit_with_change=$DEMO_MUT,
  suite_with_change="""$SUITE_LINE""".strip(), suite_failed_tests="""$FAILED""",
  confirmed=($APPLY==0 and $DEMO_CLEAN==0 and $DEMO_MUT!=0 and """$FAILED""" in ("tests/test_nonlinear_funs.py::TestGradientNormAdditional::test_2d;","")),
  ran=["demo.py on the unchanged worktree","git apply patch.diff","demo.py with the change","pytest -q -n 4 (full suite) with the change"],
  needs_to_manifest="see notes.md", caught_by=None)
json.dump(meta, open("$OUT/meta.json","w"), indent=1)
print("$NAME", "confirmed" if meta["confirmed"] else "NOT CONFIRMED", meta["suite_with_change"])
PY
rm -f $OUT/.demo_clean.log
